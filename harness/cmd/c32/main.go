// C32 correspondence harness: drives the real goldmane/pkg/storage.BucketRing (AddFlow, Rollover,
// EmitFlowCollections, List) with an injected nowFunc and a recording sink, and evaluates the
// property's own oracle (conservation of counts, queries = sums of retained accepted flows,
// each window emitted at most once and completely) on the real code.
package main

import (
	"fmt"
	"sort"
	"strconv"
	"strings"
	"unique"

	"github.com/projectcalico/calico/goldmane/pkg/storage"
	"github.com/projectcalico/calico/goldmane/pkg/types"
	"github.com/projectcalico/calico/goldmane/proto"
	"github.com/projectcalico/calico/lib/std/time"

	"verif/harness/rt"
)

type sink interface {
	OracleFail(sig string, desc string, input any)
	Count(key string)
}
type nullSink struct{}

func (nullSink) OracleFail(string, string, any) {}
func (nullSink) Count(string)                   {}

const nKeys = 4

var keys [nKeys]*types.FlowKey
var keyIdx = map[types.FlowKey]int{}

// policy hits of the harness's flow keys (same table as keyInfo in lean/CalicoVerif/Model/C32.lean):
// policy id, action (0 allow, 1 deny, 2 pass), PolicyIndex; pendingFrom = index from which the hits are pending
type hit struct{ pol, act, idx int }

var keyHits = [nKeys][]hit{
	{{1, 0, 0}},
	{{1, 0, 0}, {2, 1, 1}},
	{{1, 2, 0}, {2, 0, 1}, {1, 0, 2}},
	{{3, 1, 0}, {2, 0, 3}, {3, 1, 0}},
}
var keyIngress = [nKeys]bool{false, true, false, true}
var keyPendingFrom = [nKeys]int{1, 1, 3, 2}

func protoHit(x hit) *proto.PolicyHit {
	return &proto.PolicyHit{Kind: proto.PolicyKind_CalicoNetworkPolicy, Namespace: "ns", Name: fmt.Sprintf("p%d", x.pol), Tier: "default",
		Action: proto.Action(x.act + 1), PolicyIndex: int64(x.idx), RuleIndex: int64(7 + x.idx)}
}

func init() {
	for i := 0; i < nKeys; i++ {
		tr := &proto.PolicyTrace{}
		for j, x := range keyHits[i] {
			if j < keyPendingFrom[i] {
				tr.EnforcedPolicies = append(tr.EnforcedPolicies, protoHit(x))
			} else {
				tr.PendingPolicies = append(tr.PendingPolicies, protoHit(x))
			}
		}
		rep := proto.Reporter_Src
		if keyIngress[i] {
			rep = proto.Reporter_Dst
		}
		keys[i] = types.NewFlowKey(
			&types.FlowKeySource{SourceName: fmt.Sprintf("src%d", i), SourceNamespace: "ns"},
			&types.FlowKeyDestination{DestName: "dst", DestNamespace: "ns", DestPort: int64(80 + i)},
			&types.FlowKeyMeta{Proto: "tcp", Reporter: rep, Action: proto.Action_Allow},
			tr)
		keyIdx[*keys[i]] = i
	}
}

// expected statistics of a set of accepted flows, computed independently of the Lean model:
// result key "pol/action+1/ruleIndex/direction" -> six counts
func expectStats(fl []*accepted, typ int, byRule bool) map[string][6]int64 {
	out := map[string][6]int64{}
	for _, a := range fl {
		seen := map[hit]bool{}
		for _, x := range keyHits[a.key] {
			if seen[x] {
				continue // one contribution per distinct (policy, action, index) of the flow
			}
			seen[x] = true
			var in, outv int64
			switch typ {
			case 0:
				in, outv = a.cnt, 2*a.cnt
			case 1:
				in, outv = 3*a.cnt, 4*a.cnt
			default:
				if keyIngress[a.key] {
					in = a.cnt
				} else {
					outv = a.cnt
				}
			}
			k := fmt.Sprintf("%d/0/0/0", x.pol)
			if byRule {
				d := 2
				if keyIngress[a.key] {
					d = 1
				}
				k = fmt.Sprintf("%d/%d/%d/%d", x.pol, x.act+1, x.idx, d)
			}
			c := out[k]
			c[2*x.act] += in
			c[2*x.act+1] += outv
			out[k] = c
		}
	}
	return out
}

type accepted struct {
	key     int
	t, cnt  int64
	bs, be  int64 // bucket the real code sorted it into (by time: the unique bucket containing t)
	emitted bool
}

type recSink struct {
	got []*storage.FlowCollection
}

func (s *recSink) Receive(c *storage.FlowCollection) { s.got = append(s.got, c) }

type state struct {
	r        *storage.BucketRing
	interval int64
	flows    []*accepted
	covered  map[int64]bool // bucket start times covered by a collection the sink received
}

func dump(r *storage.BucketRing) string {
	var sb strings.Builder
	sb.WriteString(fmt.Sprintf("H=%d B=", r.VerifHead()))
	for i, b := range r.VerifBuckets() {
		if i > 0 {
			sb.WriteByte(';')
		}
		var ks []int
		for _, k := range b.Keys {
			ks = append(ks, keyIdx[k])
		}
		sort.Ints(ks)
		var ss []string
		for _, k := range ks {
			ss = append(ss, strconv.Itoa(k))
		}
		p := "0"
		if b.Pushed {
			p = "1"
		}
		sb.WriteString(fmt.Sprintf("%d-%d:%s:[%s]", b.Start, b.End, p, strings.Join(ss, ",")))
	}
	sb.WriteString(" D=")
	ws := r.VerifWindows()
	var ks []int
	byIdx := map[int][]storage.VerifWindow{}
	for k, w := range ws {
		ks = append(ks, keyIdx[k])
		byIdx[keyIdx[k]] = w
	}
	sort.Ints(ks)
	for i, k := range ks {
		if i > 0 {
			sb.WriteByte(';')
		}
		var ss []string
		for _, w := range byIdx[k] {
			ss = append(ss, fmt.Sprintf("%d-%d:%d", w.Start, w.End, w.PacketsIn))
		}
		sb.WriteString(fmt.Sprintf("%d=%s", k, strings.Join(ss, ",")))
	}
	return sb.String()
}

func showColls(cs []*storage.FlowCollection) string {
	var out []string
	for _, c := range cs {
		type kc struct {
			k int
			c int64
		}
		var fl []kc
		for _, f := range c.Flows {
			fl = append(fl, kc{keyIdx[*f.Key], f.PacketsIn})
		}
		sort.Slice(fl, func(i, j int) bool { return fl[i].k < fl[j].k })
		var ss []string
		for _, f := range fl {
			ss = append(ss, fmt.Sprintf("%d:%d", f.k, f.c))
		}
		out = append(out, fmt.Sprintf("%d-%d[%s]", c.StartTime, c.EndTime, strings.Join(ss, ",")))
	}
	return "sink=" + strings.Join(out, ";")
}

func (s *state) retained(a *accepted) bool {
	for _, b := range s.r.VerifBuckets() {
		if b.Start == a.bs && b.End == a.be {
			return true
		}
	}
	return false
}

// oracle on what the sink received during one op
func (s *state) checkSink(h sink, op string, cs []*storage.FlowCollection) {
	for _, c := range cs {
		// at most once: no bucket start time is covered by two received collections
		for bs := c.StartTime; bs < c.EndTime; bs += s.interval {
			if s.covered[bs] {
				// regression guard for /repo 6722529 (the backward walk used to wrap around the ring when a window
				// boundary landed exactly on the head index)
				sig := "window-emitted-twice"
				h.OracleFail(sig, "a bucket was included in two collections handed to the sink",
					map[string]any{"op": op, "bucket_start": bs, "collection": fmt.Sprintf("%d-%d", c.StartTime, c.EndTime)})
			}
			s.covered[bs] = true
		}
		// complete: every flow accepted so far into a bucket of the window is in the collection
		want := map[int]int64{}
		for _, a := range s.flows {
			if a.bs >= c.StartTime && a.be <= c.EndTime && s.retained(a) {
				want[a.key] += a.cnt
				a.emitted = true
			}
		}
		got := map[int]int64{}
		for _, f := range c.Flows {
			got[keyIdx[*f.Key]] += f.PacketsIn
			if f.PacketsOut != 2*f.PacketsIn || f.BytesIn != 3*f.PacketsIn || f.NumConnectionsStarted != f.PacketsIn {
				h.OracleFail("emitted-stat-fields-inconsistent", "summable statistics of an emitted flow are not aggregated alike", map[string]any{"op": op})
			}
		}
		for k, w := range want {
			if got[k] != w {
				h.OracleFail("emitted-window-incomplete", "an emitted collection does not carry the sum of the flows accepted into its window",
					map[string]any{"op": op, "key": k, "want": w, "got": got[k], "collection": fmt.Sprintf("%d-%d", c.StartTime, c.EndTime)})
			}
		}
		for k, g := range got {
			if want[k] != g {
				h.OracleFail("emitted-window-extra", "an emitted collection carries counts that no accepted flow of its window accounts for",
					map[string]any{"op": op, "key": k, "want": want[k], "got": g})
			}
		}
	}
}

func exec(h sink, s *state, op string) string {
	w := strings.Fields(op)
	atoi := func(x string) int64 { v, _ := strconv.ParseInt(x, 10, 64); return v }
	switch w[0] {
	case "new":
		n, iv, now, pa, ag := int(atoi(w[1])), int(atoi(w[2])), atoi(w[3]), int(atoi(w[4])), int(atoi(w[5]))
		nowFunc := func() time.Time { return time.Unix(now, 0) }
		s.r = storage.NewBucketRing(n, iv, now, storage.WithNowFunc(nowFunc), storage.WithPushAfter(pa), storage.WithBucketsToAggregate(ag))
		s.interval = int64(iv)
		s.flows = nil
		s.covered = map[int64]bool{}
		return "ok | " + dump(s.r)
	case "add":
		k, t, c := int(atoi(w[1])), atoi(w[2]), atoi(w[3])
		beforeB := s.r.VerifBuckets()
		beforeW := s.r.VerifWindows()
		sum := func(ws map[types.FlowKey][]storage.VerifWindow, key types.FlowKey) int64 {
			var x int64
			for _, w := range ws[key] {
				x += w.PacketsIn
			}
			return x
		}
		idx := s.r.VerifFindBucket(t)
		containing := 0
		var cb storage.VerifBucket
		for _, b := range beforeB {
			if b.Start <= t && t < b.End {
				containing++
				cb = b
			}
		}
		s.r.AddFlow(&types.Flow{Key: keys[k], StartTime: t, EndTime: t + 1,
			SourceLabels: unique.Make(""), DestLabels: unique.Make(""),
			PacketsIn: c, PacketsOut: 2 * c, BytesIn: 3 * c, BytesOut: 4 * c,
			NumConnectionsStarted: c, NumConnectionsCompleted: c, NumConnectionsLive: c})
		afterW := s.r.VerifWindows()
		acc := idx >= 0
		// ORACLE: every flow inside the retained history is accepted, and counted in exactly one bucket
		if containing > 1 {
			h.OracleFail("buckets-overlap", "two buckets of the ring contain the same instant", map[string]any{"op": op, "t": t})
		}
		if containing == 1 && !acc {
			h.OracleFail("flow-in-history-rejected", "a flow whose start time lies inside a bucket of the ring was not sorted into it", map[string]any{"op": op, "t": t})
		}
		for kk := 0; kk < nKeys; kk++ {
			d := sum(afterW, *keys[kk]) - sum(beforeW, *keys[kk])
			want := int64(0)
			if acc && kk == k {
				want = c
			}
			if d != want {
				h.OracleFail("count-not-conserved", "AddFlow changed the total count of a key by something other than the accepted flow's count",
					map[string]any{"op": op, "key": kk, "delta": d, "want": want})
			}
		}
		if acc {
			if containing != 1 {
				h.OracleFail("accepted-outside-history", "a flow was accepted although no bucket contains its start time", map[string]any{"op": op, "t": t})
			} else {
				var inWin int64
				for _, w := range afterW[*keys[k]] {
					if w.Start == cb.Start && w.End == cb.End {
						inWin = w.PacketsIn
					}
				}
				var was int64
				for _, w := range beforeW[*keys[k]] {
					if w.Start == cb.Start {
						was = w.PacketsIn
					}
				}
				if inWin-was != c {
					h.OracleFail("counted-in-wrong-bucket", "the accepted flow was not added to the window of the bucket containing its start time", map[string]any{"op": op, "t": t})
				}
				a := &accepted{key: k, t: t, cnt: c, bs: cb.Start, be: cb.End}
				s.flows = append(s.flows, a)
				if s.covered[cb.Start] {
					// the window of this bucket has already been handed to the sink: this flow is accepted
					// (and answered by List) but will never be emitted
					lsig := "late-flow-after-emission"
					h.OracleFail(lsig, "a flow was accepted into a window that had already been emitted to the sink, so it is left out of the emitted data",
						map[string]any{"op": op, "bucket_start": cb.Start, "key": k})
				}
			}
			return "1 | " + dump(s.r)
		}
		return "0 | " + dump(s.r)
	case "roll":
		var sk *recSink
		var st int64
		if w[1] != "0" {
			sk = &recSink{}
			st = s.r.Rollover(sk)
		} else {
			st = s.r.Rollover(nil)
		}
		var got []*storage.FlowCollection
		if sk != nil {
			got = sk.got
		}
		s.checkSink(h, op, got)
		for _, a := range s.flows {
			if !a.emitted && !s.retained(a) {
				a.emitted = true // count once
				h.Count("measure:flow-retired-never-emitted")
			}
		}
		return fmt.Sprintf("%d %s | %s", st, showColls(got), dump(s.r))
	case "emit":
		sk := &recSink{}
		s.r.EmitFlowCollections(sk)
		s.checkSink(h, op, sk.got)
		return showColls(sk.got) + " | " + dump(s.r)
	case "list":
		gte, lt := atoi(w[1]), atoi(w[2])
		flows, _, err := s.r.List(&proto.FlowListRequest{StartTimeGte: gte, StartTimeLt: lt})
		if err != nil {
			return "err | " + dump(s.r)
		}
		type row struct {
			k          int
			c, st, en  int64
		}
		var rows []row
		got := map[int]int64{}
		for _, f := range flows {
			rows = append(rows, row{keyIdx[*f.Key], f.PacketsIn, f.StartTime, f.EndTime})
			got[keyIdx[*f.Key]] += f.PacketsIn
		}
		sort.Slice(rows, func(i, j int) bool { return rows[i].k < rows[j].k })
		var ss []string
		for _, r := range rows {
			ss = append(ss, fmt.Sprintf("%d:%d:%d:%d", r.k, r.c, r.st, r.en))
		}
		// ORACLE: the answer equals the sum of the retained accepted flows of the range. The range is
		// interpreted at bucket granularity (0 = unbounded); it is demanded exactly when the bounds are
		// bucket boundaries, and only measured otherwise.
		aligned := true
		for _, bnd := range []int64{gte, lt} {
			if bnd == 0 {
				continue
			}
			on := false
			for _, b := range s.r.VerifBuckets() {
				if b.Start == bnd || b.End == bnd {
					on = true
				}
			}
			if !on {
				aligned = false
			}
		}
		want := map[int]int64{}
		wantByTime := map[int]int64{}
		for _, a := range s.flows {
			if !s.retained(a) {
				continue
			}
			if (gte == 0 || a.bs >= gte) && (lt == 0 || a.be <= lt) {
				want[a.key] += a.cnt
			}
			if (gte == 0 || a.t >= gte) && (lt == 0 || a.t < lt) {
				wantByTime[a.key] += a.cnt
			}
		}
		for k := 0; k < nKeys; k++ {
			if aligned && got[k] != wantByTime[k] {
				h.OracleFail("query-not-sum-of-retained", "List over a bucket-aligned range differs from the sum of the retained accepted flows in the range",
					map[string]any{"op": op, "key": k, "got": got[k], "want": wantByTime[k]})
			}
			if !aligned && got[k] != wantByTime[k] {
				h.Count("measure:unaligned-range-answered-at-bucket-granularity")
				if got[k] != want[k] {
					h.OracleFail("query-not-sum-of-whole-buckets", "List over an unaligned range differs from the sum of the retained flows of the buckets wholly inside the range",
						map[string]any{"op": op, "key": k, "got": got[k], "want": want[k]})
				}
			}
		}
		return strings.Join(ss, ",") + " | " + dump(s.r)
	case "stats":
		typ, byRule, gte, lt := int(atoi(w[1])), w[2] != "0", atoi(w[3]), atoi(w[4])
		gb := proto.StatisticsGroupBy_Policy
		if byRule {
			gb = proto.StatisticsGroupBy_PolicyRule
		}
		res, err := s.r.Statistics(&proto.StatisticsRequest{StartTimeGte: gte, StartTimeLt: lt, Type: proto.StatisticType(typ), GroupBy: gb})
		if err != nil {
			return "err | " + dump(s.r)
		}
		got := map[string][6]int64{}
		for _, x := range res {
			pol := strings.TrimPrefix(x.Policy.Name, "p")
			k := fmt.Sprintf("%s/%d/%d/%d", pol, int(x.Policy.Action), x.Policy.RuleIndex, int(x.Direction))
			var c [6]int64
			if len(x.AllowedIn) > 0 {
				c = [6]int64{x.AllowedIn[0], x.AllowedOut[0], x.DeniedIn[0], x.DeniedOut[0], x.PassedIn[0], x.PassedOut[0]}
			}
			got[k] = c
		}
		// ORACLE: statistics over a time range = sums over the accepted flows of the range that are still retained.
		// The range is the code's: buckets from the one containing start (0: the oldest) up to, not including, the
		// one containing end (0: the newest, still future, bucket).
		bs := s.r.VerifBuckets()
		n := len(bs)
		si, ei := (s.r.VerifHead()+1)%n, s.r.VerifHead()
		if gte != 0 {
			si = s.r.VerifFindBucket(gte)
		}
		if lt != 0 {
			ei = s.r.VerifFindBucket(lt)
		}
		var inRange []*accepted
		if si >= 0 && ei >= 0 {
			for i := si; i != ei; i = (i + 1) % n {
				for _, a := range s.flows {
					if a.bs == bs[i].Start && a.be == bs[i].End {
						inRange = append(inRange, a)
					}
				}
			}
		}
		want := expectStats(inRange, typ, byRule)
		bad := len(want) != len(got)
		for k, c := range want {
			if g, ok := got[k]; !ok || g != c {
				bad = true
			}
		}
		if bad {
			h.OracleFail("statistics-not-sum-of-retained", "Statistics over a time range differ from the sums over the accepted flows of that range that are still retained",
				map[string]any{"op": op, "got": fmt.Sprint(got), "want": fmt.Sprint(want)})
		}
		var ks []string
		for k := range got {
			ks = append(ks, k)
		}
		sort.Slice(ks, func(i, j int) bool {
			var a, b [4]int
			fmt.Sscanf(ks[i], "%d/%d/%d/%d", &a[0], &a[1], &a[2], &a[3])
			fmt.Sscanf(ks[j], "%d/%d/%d/%d", &b[0], &b[1], &b[2], &b[3])
			for t := 0; t < 4; t++ {
				if a[t] != b[t] {
					return a[t] < b[t]
				}
			}
			return false
		})
		var ss []string
		for _, k := range ks {
			c := got[k]
			ss = append(ss, fmt.Sprintf("%s:%d,%d,%d,%d,%d,%d", k, c[0], c[1], c[2], c[3], c[4], c[5]))
		}
		return strings.Join(ss, ";") + " | " + dump(s.r)
	case "find":
		return fmt.Sprintf("%d | %s", s.r.VerifFindBucket(atoi(w[1])), dump(s.r))
	}
	panic("unknown op " + op)
}

func genCase(h *rt.H) []string {
	n := 4 + h.Intn(7)
	iv := rt.Pick(h, []int{1, 2, 5, 15})
	now := int64(1000 + h.Intn(500))
	pa := h.Intn(3)
	ag := 1 + h.Intn(3)
	if h.Chance(0.12) {
		// arbitrary (also senseless) options: zero-width windows, windows that do not fit into the ring
		pa, ag = h.Intn(n+3), h.Intn(n+2)
		h.Count("config:arbitrary-options")
	} else {
		for pa+ag+2 > n {
			if ag > 1 {
				ag--
			} else {
				pa--
			}
		}
	}
	sh := &state{}
	var ops []string
	emit := func(op string) {
		ops = append(ops, op)
		exec(nullSink{}, sh, op)
	}
	emit(fmt.Sprintf("new %d %d %d %d %d", n, iv, now, pa, ag))
	late := h.Chance(0.35) // cases with late flows (older buckets, possibly already emitted)
	nops := 8 + h.Intn(50)
	for i := 0; i < nops; i++ {
		bs := sh.r.VerifBuckets()
		hd := sh.r.VerifHead()
		headB := bs[hd]
		nowB := bs[(hd+n-1)%n]
		oldest := bs[(hd+1)%n]
		pickT := func() int64 {
			switch x := h.Intn(20); {
			case x < 11: // current bucket
				return nowB.Start + int64(h.Intn(iv))
			case x < 13: // head bucket (one interval into the future)
				return headB.Start + int64(h.Intn(iv))
			case x < 14: // boundaries
				return rt.Pick(h, []int64{headB.End, headB.End - 1, oldest.Start, oldest.Start - 1, nowB.Start, nowB.End})
			case x < 15: // out of range
				if h.Bool() {
					return headB.End + int64(h.Intn(3*iv))
				}
				return oldest.Start - 1 - int64(h.Intn(3*iv))
			default:
				if late {
					return oldest.Start + int64(h.Intn(n*iv))
				}
				return nowB.Start - int64(h.Intn(2*iv))
			}
		}
		switch x := h.Intn(20); {
		case x < 9:
			emit(fmt.Sprintf("add %d %d %d", h.Intn(nKeys), pickT(), 1+h.Intn(9)))
		case x < 14:
			s := "1"
			if h.Chance(0.2) {
				s = "0" // rollover with no sink attached
			}
			emit("roll " + s)
		case x < 15:
			emit("emit")
		case x < 19:
			var a, b int64
			if h.Chance(0.7) { // bucket aligned
				i1, i2 := h.Intn(n), h.Intn(n)
				a, b = bs[i1].Start, bs[i2].End
				if h.Chance(0.3) {
					b = bs[i2].Start
				}
			} else {
				a, b = oldest.Start+int64(h.Intn(n*iv)), oldest.Start+int64(h.Intn((n+1)*iv))
			}
			if h.Chance(0.15) {
				a = 0
			}
			if h.Chance(0.15) {
				b = 0
			}
			emit(fmt.Sprintf("list %d %d", a, b))
		default:
			switch h.Intn(4) {
			case 0:
				emit(fmt.Sprintf("find %d", pickT()))
			case 1:
				// wrap the ring completely: every slot is recycled
				for j := 0; j < n+1+h.Intn(3); j++ {
					emit("roll " + rt.Pick(h, []string{"0", "1", "1"}))
				}
			default:
				i1, i2 := h.Intn(n), h.Intn(n)
				a, b := bs[i1].Start, bs[i2].Start
				if a > b {
					a, b = b, a
				}
				if h.Chance(0.3) {
					a += int64(h.Intn(iv))
				}
				if h.Chance(0.3) {
					b += int64(h.Intn(iv))
				}
				if h.Chance(0.25) {
					a = 0
				}
				if h.Chance(0.35) {
					b = 0
				}
				if h.Chance(0.05) {
					a, b = b, a // inverted range: the code walks around the ring
				}
				emit(fmt.Sprintf("stats %d %d %d %d", h.Intn(3), h.Intn(2), a, b))
			}
		}
	}
	return ops
}

func main() {
	h := rt.New()
	defer h.Close()
	h.Rule = "case = one ring (4..10 buckets, interval 1/2/5/15 s, pushAfter 0..2, bucketsToAggregate 1..3; 12% arbitrary options incl. zero-width and non-fitting windows) + 8..57 steps over " +
		"{add (current / future / boundary / out-of-history / late flows), roll with or without sink, emit, list (bucket-aligned, unaligned, 0 = unbounded), stats (packets/bytes/live connections x per policy/per rule over a range; flow keys carry enforced+pending policy hits with allow/deny/pass), full-ring wrap bursts, find}; " +
		"distinct = distinct op sequence; non-trivial = the sink received at least one non-empty collection or a flow was rejected or a late flow was accepted"
	run := func(ops []string, tag string) {
		h.Case(tag)
		s := &state{}
		nontriv := false
		for _, op := range ops {
			out := exec(h, s, op)
			h.Op(op, out)
			k := strings.Fields(op)[0]
			h.Count("op:" + k)
			if (k == "roll" || k == "emit") && strings.Contains(out, "[") && !strings.Contains(strings.SplitN(out, " | ", 2)[0], "sink= ") && strings.Contains(strings.SplitN(out, " | ", 2)[0], "[") {
				h.Count("res:sink-received")
				nontriv = true
			}
			if k == "add" && strings.HasPrefix(out, "0 ") {
				h.Count("res:add-rejected")
				nontriv = true
			}
		}
		if nontriv {
			h.Nontrivial(strings.Join(ops, ";"))
		}
		h.Sample()
	}
	if h.Replay != "" {
		run(h.ReplayLines(), "replay")
		return
	}
	for i := 0; i < h.N; i++ {
		run(genCase(h), "gen")
	}
}
