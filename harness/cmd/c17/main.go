// C17 correspondence harness: drives the real felix/routetable.RouteTable (main table, IPv4, real
// ownershippol.MainTableOwnershipPolicy) over the repo's own mock netlink (felix/netlinkshim/mocknetlink).
package main

import (
	"fmt"
	"net"
	"sort"
	"strconv"
	"strings"
	"time"

	"github.com/onsi/gomega"
	"github.com/vishvananda/netlink"
	"golang.org/x/sys/unix"

	"github.com/projectcalico/calico/felix/ifacemonitor"
	"github.com/projectcalico/calico/felix/ip"
	"github.com/projectcalico/calico/felix/netlinkshim/mocknetlink"
	"github.com/projectcalico/calico/felix/routetable"
	"github.com/projectcalico/calico/felix/routetable/ownershippol"
	"github.com/projectcalico/calico/felix/timeshim/mocktime"
	"github.com/projectcalico/calico/lib/logrusr"

	"verif/harness/rt"
)

const proto = 80

type want struct {
	gw, kind string
}

type world struct {
	h   *rt.H
	dp  *mocknetlink.MockNetlinkDataplane
	tbl *routetable.RouteTable
	pol *ownershippol.MainTableOwnershipPolicy
	// spec-level shadow
	ifaces   map[string][2]int                  // name -> (idx, up)
	wants    map[int]map[string]map[string]want // class -> iface -> cidr -> want
	fresh    bool                               // no out-of-band route edit since the last successful full resync
	needFull bool
	pend     []func() // interface-monitor callbacks not delivered yet
	told     map[string]int // name -> index as Felix was last told (callbacks delivered, or a successful full resync)
	// reuseIdx (known finding): interface indices whose entries in Felix's interface maps may be corrupted because a
	// per-interface rescan (an Apply without a full resync) refreshed an interface whose kernel index differs from the
	// index Felix was told for it, or is an index Felix was told for ANOTHER name that it has not been told is gone:
	// resyncIface -> OnIfaceStateChanged then renumbers/renames directly and leaves stale entries behind in
	// ifaceNameToIndex / ifaceIndexToState.  Holds the old and the new index; an index leaves the set when a later
	// monitor callback re-reports a link with that index (which rewrites all three maps for it).  Only a failure about
	// a route on one of these indices is attributed to the known finding.
	reuseIdx map[int]bool
	v6       bool // IPv6 table (route keys without a priority are filed under priority 1024)
	ifStale  bool // a link changed without a callback and no full resync has succeeded since: Felix cannot know the interfaces
	tainted  bool // a route-listing failure was swallowed by a per-interface rescan and no full resync has happened since
}

func kindOf(r *netlink.Route) string {
	onlink := r.Flags&unix.RTNH_F_ONLINK != 0
	switch {
	case r.Type == unix.RTN_UNICAST && r.Scope == netlink.SCOPE_LINK && !onlink && r.Src == nil && r.MTU == 0:
		return "link"
	case r.Type == unix.RTN_UNICAST && r.Scope == netlink.SCOPE_UNIVERSE && onlink && r.Src == nil && r.MTU == 0:
		return "vxlan"
	case r.Type == unix.RTN_UNICAST && r.Scope == netlink.SCOPE_UNIVERSE && !onlink && r.Src == nil && r.MTU == 0:
		return "univ"
	}
	return fmt.Sprintf("other:%d:%d:%d", r.Type, r.Scope, r.Flags)
}

// A route key is "<cidr>" (priority 0) or "<cidr>@<priority>".
func parseKey(key string) (string, int) {
	if i := strings.Index(key, "@"); i >= 0 {
		p, err := strconv.Atoi(key[i+1:])
		if err != nil {
			panic(err)
		}
		return key[:i], p
	}
	return key, 0
}

func keyOf(dst string, prio int) string {
	if prio == 0 {
		return dst
	}
	return fmt.Sprintf("%s@%d", dst, prio)
}

// norm: the property's own statement of normalizeRouteKey: on an IPv6 table priority 0 means 1024.
func (w *world) norm(key string) string {
	c, p := parseKey(key)
	if w.v6 && p == 0 {
		p = 1024
	}
	return keyOf(c, p)
}

func mkRoute(key string, ifindex int, gw string, pr int, kind string) *netlink.Route {
	cidr, prio := parseKey(key)
	_, dst, err := net.ParseCIDR(cidr)
	if err != nil {
		panic(err)
	}
	r := &netlink.Route{Family: unix.AF_INET, Table: unix.RT_TABLE_MAIN, Dst: dst, LinkIndex: ifindex, Protocol: netlink.RouteProtocol(pr), Type: unix.RTN_UNICAST,
		Priority: prio}
	v6 := strings.Contains(cidr, ":")
	if v6 {
		r.Family = unix.AF_INET6
	}
	if gw != "-" {
		if v6 {
			r.Gw = net.ParseIP(gw)
		} else {
			r.Gw = net.ParseIP(gw).To4()
		}
	}
	switch kind {
	case "link":
		r.Scope = netlink.SCOPE_LINK
	case "vxlan":
		r.Scope = netlink.SCOPE_UNIVERSE
		r.Flags = unix.RTNH_F_ONLINK
	case "univ":
		r.Scope = netlink.SCOPE_UNIVERSE
	default:
		panic("kind " + kind)
	}
	return r
}

// idxOf: interface index of a route shown as "<ifindex>/<gw>/<proto>/<kind>".
func idxOf(shown string) int {
	n, _ := strconv.Atoi(strings.SplitN(shown, "/", 2)[0])
	return n
}

func showRoute(r netlink.Route) string {
	gw := "-"
	if r.Gw != nil {
		gw = r.Gw.String()
	}
	return fmt.Sprintf("%d/%s/%d/%s", r.LinkIndex, gw, int(r.Protocol), kindOf(&r))
}

func (w *world) kernel() map[string]string {
	out := map[string]string{}
	for _, r := range w.dp.RouteKeyToRoute {
		out[keyOf(r.Dst.String(), r.Priority)] = showRoute(r)
	}
	return out
}

func showK(k map[string]string) string {
	keys := make([]string, 0, len(k))
	for c := range k {
		keys = append(keys, c)
	}
	sort.Strings(keys)
	parts := make([]string, len(keys))
	for i, c := range keys {
		parts[i] = c + "=" + k[c]
	}
	return "K{" + strings.Join(parts, ";") + "}"
}

func showVR(rs []routetable.VerifRoute) string {
	m := map[string]string{}
	for _, r := range rs {
		gw := "-"
		if r.GW != "" {
			gw = r.GW
		}
		kind := fmt.Sprintf("other:%d:%d:%v", r.Type, r.Scope, r.OnLink)
		switch {
		case r.Type == unix.RTN_UNICAST && r.Scope == int(netlink.SCOPE_LINK) && !r.OnLink && r.Src == "" && r.MTU == 0 && r.NextHops == 0:
			kind = "link"
		case r.Type == unix.RTN_UNICAST && r.Scope == int(netlink.SCOPE_UNIVERSE) && r.OnLink && r.Src == "" && r.MTU == 0 && r.NextHops == 0:
			kind = "vxlan"
		case r.Type == unix.RTN_UNICAST && r.Scope == int(netlink.SCOPE_UNIVERSE) && !r.OnLink && r.Src == "" && r.MTU == 0 && r.NextHops == 0:
			kind = "univ"
		}
		m[r.CIDR] = fmt.Sprintf("%d/%s/%d/%s", r.Ifindex, gw, r.Proto, kind)
	}
	return strings.TrimPrefix(showK(m), "K")
}

func (w *world) showAll() string {
	st := w.tbl.VerifState()
	rs := append([]string{}, st.Rescan...)
	sort.Strings(rs)
	f := "0"
	if st.FullResync {
		f = "1"
	}
	return showK(w.kernel()) + " D" + showVR(st.Desired) + " P" + showVR(st.Dataplane) + " R{" + strings.Join(rs, ",") + "} f" + f
}

func routeKey(key string) routetable.RouteKey {
	c, p := parseKey(key)
	return routetable.RouteKey{CIDR: ip.MustParseCIDROrIP(c), Priority: p}
}

func target(key, gw, kind string) routetable.Target {
	t := routetable.Target{RouteKey: routeKey(key)}
	if gw != "-" {
		t.GW = ip.FromString(gw)
	}
	switch kind {
	case "link":
		t.Type = routetable.TargetTypeLinkLocalUnicast
	case "vxlan":
		t.Type = routetable.TargetTypeVXLAN
	case "univ":
		t.Type = routetable.TargetTypeGlobalUnicast
	default:
		panic("kind " + kind)
	}
	return t
}

// expected: the property's own statement of the desired route per destination: lowest class, then
// highest interface index, among targets whose interface is present and up.
func (w *world) expected() map[string]string {
	type cand struct {
		cls, idx int
		w        want
	}
	best := map[string]cand{}
	for cls, byIf := range w.wants {
		for ifc, byC := range byIf {
			st, ok := w.ifaces[ifc]
			if !ok || st[1] == 0 {
				continue
			}
			for c, x := range byC {
				b, has := best[c]
				if !has || cls < b.cls || (cls == b.cls && st[0] > b.idx) {
					best[c] = cand{cls, st[0], x}
				}
			}
		}
	}
	out := map[string]string{}
	for c, b := range best {
		out[c] = fmt.Sprintf("%d/%s/%d/%s", b.idx, b.w.gw, proto, b.w.kind)
	}
	return out
}

func (w *world) ownedByFelix(r netlink.Route) bool {
	for n, st := range w.ifaces {
		if st[0] == r.LinkIndex {
			return w.pol.RouteIsOurs(n, &r)
		}
	}
	return false
}

// linkChange: link `name` gets index idx and state st ("up"/"down") or disappears ("gone") in the kernel.  The
// kernel drops the routes of a link that goes down or away, those on the old index of a re-created link, and
// those of another link whose index is taken over (that link disappears).  The callbacks the interface monitor
// sends for it are queued, in order: a deletion for the link that lost its index, a deletion for the old
// incarnation of a re-created link, then the new state.
func (w *world) linkChange(name string, idx int, st string) {
	dropIdx := func(i int) {
		for k, r := range w.dp.RouteKeyToRoute {
			if r.LinkIndex == i {
				delete(w.dp.RouteKeyToRoute, k)
			}
		}
	}
	cb := func(n string, i int, s ifacemonitor.State) {
		w.pend = append(w.pend, func() {
			w.tbl.OnIfaceStateChanged(n, i, s)
			if s == ifacemonitor.StateNotPresent {
				delete(w.told, n)
			} else {
				w.told[n] = i
				delete(w.reuseIdx, i)
			}
		})
	}
	var others []string
	for n, s := range w.ifaces {
		if n != name && s[0] == idx {
			others = append(others, n)
		}
	}
	sort.Strings(others)
	for _, n := range others {
		delete(w.dp.NameToLink, n)
		delete(w.ifaces, n)
		dropIdx(idx)
		cb(n, idx, ifacemonitor.StateNotPresent)
	}
	if st != "up" {
		dropIdx(idx)
	}
	if old, had := w.ifaces[name]; had && old[0] != idx {
		dropIdx(old[0])
		delete(w.dp.NameToLink, name)
		cb(name, old[0], ifacemonitor.StateNotPresent)
	}
	if st == "gone" {
		delete(w.dp.NameToLink, name)
		delete(w.ifaces, name)
		cb(name, idx, ifacemonitor.StateNotPresent)
		return
	}
	up := st == "up"
	if _, ok := w.dp.NameToLink[name]; ok {
		w.dp.SetIface(name, up, up)
	} else {
		w.dp.AddIface(idx, name, up, up)
	}
	state, u := ifacemonitor.StateDown, 0
	if up {
		state, u = ifacemonitor.StateUp, 1
	}
	w.ifaces[name] = [2]int{idx, u}
	cb(name, idx, state)
}

// flush: the delayed callbacks arrive; from then on Felix has been told about every link.
func (w *world) flush() {
	for _, f := range w.pend {
		f()
	}
	w.pend = nil
	w.ifStale = false
}

func exec(w *world, op string) string {
	ws := strings.Fields(op)
	atoi := func(s string) int {
		n, err := strconv.Atoi(s)
		if err != nil {
			panic(err)
		}
		return n
	}
	switch ws[0] {
	case "new":
		w.dp = mocknetlink.New()
		w.pol = ownershippol.NewMainTable("vxlan.calico", proto, []string{"cali"}, ws[1] == "1", false)
		w.v6 = len(ws) > 2 && ws[2] == "6"
		ver := uint8(4)
		if w.v6 {
			ver = 6
		}
		w.tbl = routetable.New(w.pol, ver, 10*time.Second, nil, proto, ws[1] == "1", 0, logrusr.NewSummarizer("verif"), w.dp,
			routetable.WithTimeShim(mocktime.New()), routetable.WithConntrackShim(w.dp), routetable.WithNetlinkHandleShim(w.dp.NewMockNetlink))
		w.ifaces = map[string][2]int{}
		w.wants = map[int]map[string]map[string]want{}
		w.fresh, w.needFull, w.tainted, w.ifStale, w.pend = false, true, false, false, nil
		w.told, w.reuseIdx = map[string]int{}, map[int]bool{}
		return "ok"
	case "iface":
		w.linkChange(ws[1], atoi(ws[2]), ws[3])
		w.flush()
		return "ok"
	case "link":
		w.linkChange(ws[1], atoi(ws[2]), ws[3])
		w.ifStale = true
		return "ok"
	case "flush":
		w.flush()
		return "ok"
	case "kroute":
		w.dp.AddMockRoute(mkRoute(ws[1], atoi(ws[2]), ws[3], atoi(ws[4]), ws[5]))
		w.fresh = false
		return "ok"
	case "kdel":
		w.dp.RemoveMockRoute(mkRoute(ws[1], 1, "-", 0, "link"))
		w.fresh = false
		return "ok"
	case "set":
		cls := atoi(ws[1])
		var ts []routetable.Target
		m := map[string]want{}
		if ws[3] != "-" {
			for _, x := range strings.Split(ws[3], ",") {
				p := strings.Split(x, "~")
				ts = append(ts, target(p[0], p[1], p[2]))
				m[w.norm(p[0])] = want{p[1], p[2]}
			}
		}
		w.tbl.SetRoutes(routetable.RouteClass(cls), ws[2], ts)
		if w.wants[cls] == nil {
			w.wants[cls] = map[string]map[string]want{}
		}
		w.wants[cls][ws[2]] = m
		return "ok"
	case "upd":
		cls := atoi(ws[1])
		w.tbl.RouteUpdate(routetable.RouteClass(cls), ws[2], target(ws[3], ws[4], ws[5]))
		if w.wants[cls] == nil {
			w.wants[cls] = map[string]map[string]want{}
		}
		if w.wants[cls][ws[2]] == nil {
			w.wants[cls][ws[2]] = map[string]want{}
		}
		w.wants[cls][ws[2]][w.norm(ws[3])] = want{ws[4], ws[5]}
		return "ok"
	case "rem":
		cls := atoi(ws[1])
		w.tbl.RouteRemove(routetable.RouteClass(cls), ws[2], routeKey(ws[3]))
		if w.wants[cls] != nil && w.wants[cls][ws[2]] != nil {
			delete(w.wants[cls][ws[2]], w.norm(ws[3]))
		}
		return "ok"
	case "resync":
		w.tbl.QueueResync()
		w.needFull = true
		return "ok"
	case "apply":
		var f mocknetlink.FailFlags
		if strings.Contains(ws[1], "l") {
			f |= mocknetlink.FailNextLinkList
		}
		if strings.Contains(ws[1], "r") {
			f |= mocknetlink.FailNextRouteList
		}
		if strings.Contains(ws[1], "p") {
			f |= mocknetlink.FailNextRouteReplace
		}
		if strings.Contains(ws[1], "d") {
			f |= mocknetlink.FailNextRouteDel
		}
		if strings.Contains(ws[1], "n") {
			f |= mocknetlink.FailNextLinkByName
		}
		w.dp.FailuresToSimulate = f
		before := map[string]netlink.Route{}
		for k, r := range w.dp.RouteKeyToRoute {
			before[k] = r
		}
		exp := w.expected()
		// Felix's picture of the table is trustworthy during this Apply iff it is fresh or re-read first
		viewOK := (w.fresh || w.needFull) && (!w.ifStale || w.needFull)
		if !w.needFull {
			// interfaces this Apply may rescan: those queued now, and (after a failing RouteReplace on a link that is
			// down or gone) any interface, in the inline retry
			queued := map[string]bool{}
			for _, n := range w.tbl.VerifState().Rescan {
				queued[n] = true
			}
			anyIface := f&mocknetlink.FailNextRouteReplace != 0
			for n, st := range w.ifaces {
				if !queued[n] && !anyIface {
					continue
				}
				if i, ok := w.told[n]; ok && i != st[0] {
					// the rescan renumbers n directly (ifaceIndexToState of the old index is left behind)
					w.reuseIdx[i], w.reuseIdx[st[0]] = true, true
				}
				for n2, i := range w.told {
					if n2 != n && i == st[0] {
						// the rescan puts n onto an index whose previous holder Felix has not been told is gone
						w.reuseIdx[st[0]] = true
						if i0, ok := w.told[n]; ok {
							w.reuseIdx[i0] = true
						}
					}
				}
			}
		}
		hadR := f&mocknetlink.FailNextRouteList != 0
		needFullBefore := w.needFull
		err := w.tbl.Apply()
		if hadR && !needFullBefore && w.dp.FailuresToSimulate&mocknetlink.FailNextRouteList == 0 {
			// the listing failure was hit by a per-interface rescan (resyncIface), which swallows it
			w.tainted = true
		}
		w.dp.FailuresToSimulate = 0
		after := w.kernel()
		// unowned_routes_unchanged: a route Felix does not own, to a destination Felix does not want, is untouched
		for k, r := range before {
			c := keyOf(r.Dst.String(), r.Priority)
			if _, wanted := exp[c]; wanted || w.ownedByFelix(r) || !viewOK || int(r.Protocol) == proto {
				// (a route carrying Felix's exclusive protocol is Felix's own even if its interface has since been renumbered)
				// (with a stale picture Felix deletes by destination what it believes is its own route)
				continue
			}
			if now, ok := w.dp.RouteKeyToRoute[k]; !ok || showRoute(now) != showRoute(r) {
				w.h.OracleFail("unowned-route-changed", "a route Felix does not own (and to a destination it does not want) was changed or removed",
					map[string]any{"route": c + "=" + showRoute(r), "op": op})
			}
		}
		if err == nil {
			if w.needFull {
				w.fresh = true
				w.tainted = false
				w.ifStale = false
				w.told = map[string]int{}
				for n, st := range w.ifaces {
					w.told[n] = st[0]
				}
			}
			w.needFull = false
			// routes_converge + class_priority_wins (only demanded when Felix has re-read the table since
			// the last out-of-band edit: a successful Apply without a resync does not look at the kernel)
			for c, e := range exp {
				if w.fresh && !w.ifStale && after[c] != e {
					sig := "route-not-converged"
					if w.tainted {
						sig = "route-not-converged-after-swallowed-rescan-list-error"
					} else if w.reuseIdx[idxOf(e)] || (after[c] != "" && w.reuseIdx[idxOf(after[c])]) {
						sig = "route-not-converged-after-ifindex-reuse-rescan"
					}
					w.h.OracleFail(sig, "after a successful Apply the kernel route for a desired destination is not the class-priority winner",
						map[string]any{"cidr": c, "kernel": after[c], "expected": e, "op": op})
				}
			}
			// stale_owned_removed
			if w.fresh && !w.ifStale {
				for _, r := range w.dp.RouteKeyToRoute {
					if _, wanted := exp[keyOf(r.Dst.String(), r.Priority)]; !wanted && w.ownedByFelix(r) {
						sig := "stale-owned-route"
						if w.tainted {
							sig = "stale-owned-route-after-swallowed-rescan-list-error"
						} else if w.reuseIdx[r.LinkIndex] {
							sig = "stale-owned-route-after-ifindex-reuse-rescan"
						}
						w.h.OracleFail(sig, "after a successful Apply a route Felix owns but does not want is still present",
							map[string]any{"route": keyOf(r.Dst.String(), r.Priority) + "=" + showRoute(r), "op": op})
					}
				}
			}
			return "ok " + w.showAll()
		}
		return "err " + w.showAll()
	}
	panic("unknown op " + op)
}

// ---- generator ----

var ifNames = []string{"cali1", "cali2", "cali3", "vxlan.calico", "eth0", "docker0"}
var ifIdx = map[string]int{"cali1": 10, "cali2": 11, "cali3": 12, "vxlan.calico": 20, "eth0": 2, "docker0": 5}
var cidrs = []string{"10.65.0.1/32", "10.65.0.2/32", "10.65.1.0/26", "10.65.2.0/26", "192.168.7.0/24"}

func genWant(h *rt.H, ifc string) (gw, kind string) {
	switch {
	case ifc == "vxlan.calico":
		return fmt.Sprintf("10.0.0.%d", 1+h.Intn(3)), "vxlan"
	case ifc == "eth0":
		return fmt.Sprintf("172.16.0.%d", 1+h.Intn(3)), "univ"
	}
	return "-", "link"
}

// v6 translations of the generator's vocabulary
var cidr6 = map[string]string{"10.65.0.1/32": "fd00:65::1/128", "10.65.0.2/32": "fd00:65::2/128", "10.65.1.0/26": "fd00:65:1::/64",
	"10.65.2.0/26": "fd00:65:2::/64", "192.168.7.0/24": "fd00:7::/64", "10.99.0.0/16": "fd00:99::/48", "0.0.0.0/0": "::/0"}

func gw6(gw string) string {
	if gw == "-" {
		return gw
	}
	p := strings.Split(gw, ".")
	return "fd00:" + p[0] + "::" + p[3]
}

func genCase(h *rt.H) []string {
	v6 := h.Intn(3) == 0
	newOp := "new " + rt.Pick(h, []string{"1", "1", "0"})
	if v6 {
		newOp += " 6"
	}
	// key for a TARGET: on an IPv6 table the priority is left out (0 = "use the default", filed under 1024) or given
	// as 1024 explicitly -- the same route either way; one destination always uses priority 512
	tkey := func(c string) string {
		if !v6 {
			return c
		}
		c6 := cidr6[c]
		if c == "192.168.7.0/24" {
			return c6 + "@512"
		}
		if h.Intn(3) == 0 {
			return c6 + "@1024"
		}
		return c6
	}
	// key for a route programmed by somebody else / deleted out of band: the kernel never shows priority 0 on IPv6
	kkey := func(c string) string {
		if !v6 {
			return c
		}
		if c == "192.168.7.0/24" {
			return cidr6[c] + "@512"
		}
		return cidr6[c] + "@1024"
	}
	gwv := func(gw string) string {
		if v6 {
			return gw6(gw)
		}
		return gw
	}
	ops := []string{newOp}
	idx := map[string]int{}
	for _, n := range ifNames {
		idx[n] = ifIdx[n]
		if h.Intn(5) != 0 {
			ops = append(ops, fmt.Sprintf("iface %s %d %s", n, idx[n], rt.Pick(h, []string{"up", "up", "up", "down"})))
		}
	}
	kroute := func() string {
		n := rt.Pick(h, ifNames)
		gw, kind := genWant(h, n)
		if h.Intn(3) == 0 {
			kind = rt.Pick(h, []string{"link", "univ", "vxlan"})
		}
		return fmt.Sprintf("kroute %s %d %s %d %s", kkey(rt.Pick(h, append(append([]string{}, cidrs...), "10.99.0.0/16", "0.0.0.0/0"))), idx[n], gwv(gw),
			rt.Pick(h, []int{80, 80, 3, 4, 2, 12}), kind)
	}
	for i := 0; i < h.Intn(5); i++ {
		ops = append(ops, kroute())
	}
	n := 6 + h.Intn(18)
	pending := 0    // interfaces possibly queued for a per-interface rescan
	delayed := false // callbacks are pending: Felix may believe a link is up that is gone, and then which route a
	// single RouteReplace/RouteDel failure hits (Go map order) changes the outcome
	applyOp := func(allowList bool) string {
		// listing failures and per-route failures are not mixed in one Apply, and a listing failure is only
		// injected while at most one interface is queued for a rescan: otherwise which interface (or which
		// route, in the last attempt) is hit depends on Go map order
		f := ""
		if h.Bool() {
			if allowList {
				for _, c := range []string{"l", "r", "n"} {
					if h.Intn(4) == 0 {
						f += c
					}
				}
			}
		} else if !delayed {
			for _, c := range []string{"p", "d"} {
				if h.Intn(4) == 0 {
					f += c
				}
			}
		}
		if f == "" {
			f = "-"
		}
		if !strings.Contains(f, "n") {
			pending = 0
		}
		return "apply " + f
	}
	for i := 0; i < n; i++ {
		switch k := h.Intn(20); {
		case k < 4:
			ifc := rt.Pick(h, ifNames[:5])
			cls := h.Intn(4)
			var ts []string
			seen := map[string]bool{}
			for j := 0; j < h.Intn(4); j++ {
				c := rt.Pick(h, cidrs)
				if seen[c] {
					continue
				}
				seen[c] = true
				gw, kind := genWant(h, ifc)
				ts = append(ts, tkey(c)+"~"+gwv(gw)+"~"+kind)
			}
			s := "-"
			if len(ts) > 0 {
				s = strings.Join(ts, ",")
			}
			ops = append(ops, fmt.Sprintf("set %d %s %s", cls, ifc, s))
		case k < 7:
			ifc := rt.Pick(h, ifNames[:5])
			gw, kind := genWant(h, ifc)
			ops = append(ops, fmt.Sprintf("upd %d %s %s %s %s", h.Intn(4), ifc, tkey(rt.Pick(h, cidrs)), gwv(gw), kind))
		case k < 9:
			ops = append(ops, fmt.Sprintf("rem %d %s %s", h.Intn(4), rt.Pick(h, ifNames[:5]), tkey(rt.Pick(h, cidrs))))
		case k < 13:
			ops = append(ops, applyOp(pending <= 1))
		case k < 17:
			nme := rt.Pick(h, ifNames)
			st := rt.Pick(h, []string{"up", "down", "gone", "up", "flap"})
			// a third of the link changes reach Felix only through a later resync (no callback)
			verb := "iface"
			if h.Intn(3) == 0 {
				verb = "link"
			}
			if st == "up" {
				switch h.Intn(6) {
				case 0:
					idx[nme] += 100 // interface recreated with a new index
				case 1:
					// ... or with the index another (present or former) interface has: index re-use / rename
					idx[nme] = idx[rt.Pick(h, ifNames)]
				}
			}
			if st == "flap" {
				// down and up again between two applies: the kernel has dropped the routes
				ops = append(ops, fmt.Sprintf("%s %s %d down", verb, nme, idx[nme]))
				st = "up"
			}
			ops = append(ops, fmt.Sprintf("%s %s %d %s", verb, nme, idx[nme], st))
			delayed = delayed && verb == "link" || verb == "link"
			if verb == "link" {
				switch h.Intn(3) {
				case 0:
					ops = append(ops, "resync")
				case 1:
					ops = append(ops, "flush")
					delayed = false
				}
			}
			if st == "up" {
				pending++
				if h.Intn(3) != 0 {
					ops = append(ops, applyOp(pending <= 1))
				}
			}
		case k < 18:
			ops = append(ops, kroute())
		case k < 19:
			ops = append(ops, "kdel "+kkey(rt.Pick(h, cidrs)))
		default:
			ops = append(ops, "resync")
		}
	}
	return append(ops, "resync", "apply -")
}

func main() {
	h := rt.New()
	defer h.Close()
	gomega.RegisterFailHandler(func(msg string, _ ...int) { panic("mock expectation failed: " + msg) })
	h.Rule = "case = IPv4 or IPv6 table (IPv6: target keys with priority 0, explicit 1024 or 512) + ownership mode + interfaces (workload/vxlan/host/foreign, up/down/absent/renumbered) + start routes (Felix-protocol, other protocols, on workload/special/foreign interfaces) + " +
		"6..23 ops over {SetRoutes, RouteUpdate, RouteRemove for 4 route classes, interface events with and without monitor callbacks (state change, deletion, re-creation with a new index, index re-use/rename), out-of-band route add/delete, QueueResync, Apply with LinkList/RouteList/RouteReplace/RouteDel failures}; " +
		"non-trivial = an Apply returned an error, or two classes/interfaces competed for one destination"
	w := &world{h: h}
	run := func(ops []string, tag string) {
		h.Case(tag)
		nontriv := false
		for _, op := range ops {
			out := exec(w, op)
			h.Op(op, out)
			k := strings.Fields(op)[0]
			h.Count("op:" + k)
			if k == "apply" {
				if strings.HasPrefix(out, "err") {
					h.Count("apply:err")
					nontriv = true
				} else {
					h.Count("apply:ok")
				}
				cnt := map[string]int{}
				for _, byIf := range w.wants {
					for ifc, byC := range byIf {
						if st, ok := w.ifaces[ifc]; ok && st[1] == 1 {
							for c := range byC {
								cnt[c]++
							}
						}
					}
				}
				for _, n := range cnt {
					if n > 1 {
						h.Count("apply:conflict")
						nontriv = true
						break
					}
				}
			}
		}
		if nontriv {
			h.Nontrivial(strings.Join(ops, ";"))
		}
		h.Sample()
	}
	if h.Replay != "" {
		run(h.ReplayLines(), "replay")
		return
	}
	for i := 0; i < h.N; i++ {
		run(genCase(h), "gen")
	}
}
