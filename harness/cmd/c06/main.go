// C06 correspondence harness: drives the real libcalico-go selector tokenizer,
// parser, canonical printer, evaluator and unique-id, and evaluates the
// property's own oracle (canonical text re-parses to the same text / id /
// meaning; Validate accepts exactly what Parse accepts) on the real code.
package main

import (
	"encoding/hex"
	"errors"
	"fmt"
	"hash/fnv"
	"math/rand"
	"sort"
	"strings"

	"github.com/projectcalico/calico/libcalico-go/lib/hash"
	"github.com/projectcalico/calico/libcalico-go/lib/selector/parser"
	"github.com/projectcalico/calico/libcalico-go/lib/selector/tokenizer"

	"verif/harness/rt"
)

// ---- canonical encodings -----------------------------------------------------

func hx(s string) string {
	if s == "" {
		return "-"
	}
	return hex.EncodeToString([]byte(s))
}

func unhx(s string) string {
	if s == "-" {
		return ""
	}
	b, err := hex.DecodeString(s)
	if err != nil {
		panic("bad hex in op: " + s)
	}
	return string(b)
}

func errKind(err error) string {
	m := err.Error()
	switch {
	case errors.Is(err, parser.ErrUnexpectedEOF):
		return "unexpected-eof"
	case errors.Is(err, parser.ErrExpectedRParen):
		return "expected-rparen"
	case errors.Is(err, parser.ErrExpectedRBrace):
		return "expected-rbrace"
	case errors.Is(err, parser.ErrExpectedString):
		return "expected-string"
	case errors.Is(err, parser.ErrExpectedSetLit):
		return "expected-setlit"
	case m == "unterminated string":
		return "unterminated"
	case strings.HasPrefix(m, "expected == or != not"):
		return "expected-op"
	case m == "expected ==":
		return "expected-eqeq"
	case m == "expected &&":
		return "expected-andand"
	case m == "expected ||":
		return "expected-oror"
	case strings.HasPrefix(m, "expected operator after label"):
		return "expected-operator"
	case m == "expected identifier":
		return "expected-ident"
	case strings.HasPrefix(m, "label too long"):
		return "label-too-long"
	case strings.HasPrefix(m, "no closing ')' after has("):
		return "no-close-has"
	case strings.HasPrefix(m, "no closing ')' after all("):
		return "no-close-all"
	case strings.HasPrefix(m, "no closing ')' after global("):
		return "no-close-global"
	case strings.HasPrefix(m, "infinite loop detected"):
		return "infinite-loop"
	case strings.HasPrefix(m, "unexpected token"):
		return "unexpected-token"
	case strings.HasPrefix(m, "unexpected content at end of selector"):
		return "trailing"
	}
	return "other:" + hx(m)
}

func hexRaw(s string) string { return hex.EncodeToString([]byte(s)) }

func showSet(l string, ss parser.StringSet) string {
	var b strings.Builder
	b.WriteString(hexRaw(l))
	for _, v := range ss {
		b.WriteString(";")
		b.WriteString(hexRaw(v.Value()))
	}
	return b.String()
}

// showNode prints the REAL AST in the same s-expression form as the Lean driver.
func showNode(n parser.Node) string {
	switch n := n.(type) {
	case *parser.LabelEqValueNode:
		return fmt.Sprintf("eq(%s,%s)", hexRaw(n.LabelName.Value()), hexRaw(n.Value.Value()))
	case *parser.LabelNeValueNode:
		return fmt.Sprintf("ne(%s,%s)", hexRaw(n.LabelName.Value()), hexRaw(n.Value.Value()))
	case *parser.LabelContainsValueNode:
		return fmt.Sprintf("contains(%s,%s)", hexRaw(n.LabelName.Value()), hexRaw(n.Value.Value()))
	case *parser.LabelStartsWithValueNode:
		return fmt.Sprintf("starts(%s,%s)", hexRaw(n.LabelName.Value()), hexRaw(n.Value.Value()))
	case *parser.LabelEndsWithValueNode:
		return fmt.Sprintf("ends(%s,%s)", hexRaw(n.LabelName.Value()), hexRaw(n.Value.Value()))
	case *parser.LabelInSetNode:
		return "in(" + showSet(n.LabelName.Value(), n.Value) + ")"
	case *parser.LabelNotInSetNode:
		return "notin(" + showSet(n.LabelName.Value(), n.Value) + ")"
	case *parser.HasNode:
		return "has(" + hexRaw(n.LabelName.Value()) + ")"
	case *parser.AllNode:
		return "all"
	case *parser.GlobalNode:
		return "global"
	case *parser.NotNode:
		return "not(" + showNode(n.Operand) + ")"
	case *parser.AndNode:
		return "and(" + showNodes(n.Operands) + ")"
	case *parser.OrNode:
		return "or(" + showNodes(n.Operands) + ")"
	}
	return fmt.Sprintf("unknown-node-%T", n)
}

func showNodes(ns []parser.Node) string {
	parts := make([]string, len(ns))
	for i, n := range ns {
		parts[i] = showNode(n)
	}
	return strings.Join(parts, ",")
}

func showTok(t tokenizer.Token) string {
	switch t.Kind {
	case tokenizer.TokLabel:
		return "label(" + hexRaw(t.Value) + ")"
	case tokenizer.TokStringLiteral:
		return "str(" + hexRaw(t.Value) + ")"
	case tokenizer.TokHas:
		return "has(" + hexRaw(t.Value) + ")"
	case tokenizer.TokLBrace:
		return "lbrace"
	case tokenizer.TokRBrace:
		return "rbrace"
	case tokenizer.TokComma:
		return "comma"
	case tokenizer.TokEq:
		return "eq"
	case tokenizer.TokNe:
		return "ne"
	case tokenizer.TokIn:
		return "in"
	case tokenizer.TokNot:
		return "not"
	case tokenizer.TokNotIn:
		return "notin"
	case tokenizer.TokContains:
		return "contains"
	case tokenizer.TokStartsWith:
		return "starts"
	case tokenizer.TokEndsWith:
		return "ends"
	case tokenizer.TokAll:
		return "all"
	case tokenizer.TokLParen:
		return "lparen"
	case tokenizer.TokRParen:
		return "rparen"
	case tokenizer.TokAnd:
		return "and"
	case tokenizer.TokOr:
		return "or"
	case tokenizer.TokGlobal:
		return "global"
	case tokenizer.TokEOF:
		return "eof"
	}
	return fmt.Sprintf("unknown-kind-%d", int(t.Kind))
}

func showParse(sel *parser.Selector, err error) string {
	if err != nil {
		return "err:" + errKind(err)
	}
	return "ok " + showNode(sel.Root()) + " " + hx(sel.String())
}

// ---- AST inspection for the oracle ------------------------------------------

type vocab struct {
	labels map[string]bool
	values map[string]bool
	kinds  map[string]bool
	nested bool // a NotNode whose operand is a NotNode
	nodes  int
}

func walk(n parser.Node, v *vocab) {
	v.nodes++
	lv := func(kind, l string, vals ...string) {
		v.kinds[kind] = true
		v.labels[l] = true
		for _, x := range vals {
			v.values[x] = true
		}
	}
	switch n := n.(type) {
	case *parser.LabelEqValueNode:
		lv("eq", n.LabelName.Value(), n.Value.Value())
	case *parser.LabelNeValueNode:
		lv("ne", n.LabelName.Value(), n.Value.Value())
	case *parser.LabelContainsValueNode:
		lv("contains", n.LabelName.Value(), n.Value.Value())
	case *parser.LabelStartsWithValueNode:
		lv("starts", n.LabelName.Value(), n.Value.Value())
	case *parser.LabelEndsWithValueNode:
		lv("ends", n.LabelName.Value(), n.Value.Value())
	case *parser.LabelInSetNode:
		lv("in", n.LabelName.Value(), n.Value.StringSlice()...)
	case *parser.LabelNotInSetNode:
		lv("notin", n.LabelName.Value(), n.Value.StringSlice()...)
	case *parser.HasNode:
		lv("has", n.LabelName.Value())
	case *parser.AllNode:
		v.kinds["all"] = true
	case *parser.GlobalNode:
		v.kinds["global"] = true
	case *parser.NotNode:
		v.kinds["not"] = true
		if _, ok := n.Operand.(*parser.NotNode); ok {
			v.nested = true
		}
		walk(n.Operand, v)
	case *parser.AndNode:
		v.kinds["and"] = true
		for _, o := range n.Operands {
			walk(o, v)
		}
	case *parser.OrNode:
		v.kinds["or"] = true
		for _, o := range n.Operands {
			walk(o, v)
		}
	}
}

func vocabOf(sel *parser.Selector) *vocab {
	v := &vocab{labels: map[string]bool{}, values: map[string]bool{}, kinds: map[string]bool{}}
	walk(sel.Root(), v)
	return v
}

func sortedKeys(m map[string]bool) []string {
	out := make([]string, 0, len(m))
	for k := range m {
		out = append(out, k)
	}
	sort.Strings(out)
	return out
}

// labelMaps returns a deterministic family of label maps over the selector's own
// vocabulary (absent / exact value / super-, sub-string / unrelated value).
func labelMaps(v *vocab, text string, count int) []map[string]string {
	f := fnv.New64a()
	f.Write([]byte(text))
	r := rand.New(rand.NewSource(int64(f.Sum64())))
	labels := sortedKeys(v.labels)
	values := append(sortedKeys(v.values), "", "zz")
	var out []map[string]string
	out = append(out, map[string]string{})
	for i := 0; i < count; i++ {
		m := map[string]string{}
		for _, l := range labels {
			switch r.Intn(5) {
			case 0: // absent
			case 1:
				m[l] = values[r.Intn(len(values))] + "x"
			case 2:
				m[l] = "x" + values[r.Intn(len(values))]
			default:
				m[l] = values[r.Intn(len(values))]
			}
		}
		out = append(out, m)
	}
	return out
}

// oracle evaluates the property's own statement on the real code for one input.
func oracle(h *rt.H, input string, sel *parser.Selector, err error) {
	verr := parser.Validate(input)
	if (verr == nil) != (err == nil) {
		h.OracleFail("validate-mismatch", "Validate and Parse disagree on whether the expression is accepted",
			map[string]any{"selector": input, "selector_hex": hx(input), "parse_err": fmt.Sprint(err), "validate_err": fmt.Sprint(verr)})
	}
	if err != nil {
		return
	}
	text := sel.String()
	v := vocabOf(sel)
	sig := func(s string) string {
		if v.nested {
			return "nested-not"
		}
		return s
	}
	in := map[string]any{"selector": input, "selector_hex": hx(input), "canonical": text}
	if id := hash.MakeUniqueID("s", text); sel.UniqueID() != id {
		in["id"] = sel.UniqueID()
		h.OracleFail("id-not-hash-of-text", "UniqueID is not MakeUniqueID(\"s\", String())", in)
	}
	sel2, err2 := parser.Parse(text)
	if err2 != nil {
		in["reparse_err"] = err2.Error()
		h.OracleFail(sig("reparse-rejected"), "canonical text of an accepted selector is rejected by the parser", in)
		return
	}
	in["reparsed_canonical"] = sel2.String()
	if sel2.String() != text {
		h.OracleFail(sig("text-differs"), "canonical text re-parses to a selector with a different canonical text", in)
	}
	if sel2.UniqueID() != sel.UniqueID() {
		h.OracleFail(sig("id-differs"), "canonical text re-parses to a selector with a different UniqueID", in)
	}
	if verr := parser.Validate(text); verr != nil {
		h.OracleFail("validate-mismatch", "Validate rejects the canonical text of an accepted selector", in)
	}
	for _, m := range labelMaps(v, text, 12) {
		if sel.Evaluate(m) != sel2.Evaluate(m) {
			in["labels"] = m
			h.OracleFail("eval-differs", "canonical text re-parses to a selector that matches a different label set", in)
			break
		}
	}
}

// ---- exec: one op on the REAL code ------------------------------------------

type state struct {
	cur *parser.Selector
}

func parseMap(s string) map[string]string {
	m := map[string]string{}
	if s == "-" {
		return m
	}
	for _, kv := range strings.Split(s, ",") {
		p := strings.Split(kv, ":")
		m[unhx(p[0])] = unhx(p[1])
	}
	return m
}

// safeExec runs one op.  A panic raised by the REAL code under test is an oracle failure with a concrete
// failing input (the ops so far), not a harness crash.
func safeExec(h *rt.H, s *state, op string, before []string) (out string, ok bool) {
	defer func() {
		if r := recover(); r != nil {
			msg := fmt.Sprint(r)
			if strings.HasPrefix(msg, "unknown op") || strings.HasPrefix(msg, "bad hex in op") {
				panic(r) // a harness/protocol bug, not the code under test
			}
			out, ok = "PANIC", false
			h.OracleFail("panic", fmt.Sprintf("the real code panicked at op %q: %s", op, msg),
				map[string]any{"ops": append(append([]string(nil), before...), op), "panic": msg})
		}
	}()
	return exec(h, s, op), true
}

func exec(h *rt.H, s *state, op string) string {
	w := strings.Fields(op)
	switch w[0] {
	case "parse":
		in := unhx(w[1])
		sel, err := parser.Parse(in)
		oracle(h, in, sel, err)
		if err != nil {
			s.cur = nil
		} else {
			s.cur = sel
		}
		return showParse(sel, err)
	case "validate":
		if err := parser.Validate(unhx(w[1])); err != nil {
			return "err:" + errKind(err)
		}
		return "ok"
	case "tok":
		toks, err := tokenizer.Tokenize(unhx(w[1]))
		if err != nil {
			return "err:" + errKind(err)
		}
		parts := make([]string, len(toks))
		for i, t := range toks {
			parts[i] = showTok(t)
		}
		return "ok " + strings.Join(parts, ",")
	case "eval":
		if s.cur == nil {
			return "nosel"
		}
		if s.cur.Evaluate(parseMap(w[1])) {
			return "1"
		}
		return "0"
	case "reparse":
		if s.cur == nil {
			return "nosel"
		}
		return showParse(parser.Parse(s.cur.String()))
	}
	panic("unknown op " + op)
}

// ---- generator ----------------------------------------------------------------

type gen struct {
	h      *rt.H
	labels []string // labels used in this case
	values []string // values used in this case
}

var baseLabels = []string{"a", "b", "c", "app", "role", "k8s.io/name", "projectcalico.org/namespace", "a.b-c_d/e", "0", "9z", "-", "_", ".",
	// keyword look-alikes
	"has", "all", "global", "in", "not", "notin", "contains", "starts", "ends", "with", "startswith", "inx", "nota", "containsx", "hasa", "in-x", "not.in"}

var baseValues = []string{"", "x", "b", "prod", "dev", "a b", "it's", `say "hi"`, "a,b", "{x}", "(x)", "x)", "&&", "||", "!", "!=", "==", " ", "\t", "has(a)", "all()",
	"x' || has(a) || b == 'y", "\xff\xfe", "é", "\x00", "\n", "in", "prodx", "xprod", "pro", "rod", "k8s.io/name"}

func (g *gen) label() string {
	h := g.h
	var l string
	switch h.Intn(20) {
	case 0: // boundary lengths around MaxLabelLength
		l = strings.Repeat("a", rt.Pick(h, []int{511, 512}))
	case 1, 2:
		if len(g.labels) > 0 {
			l = rt.Pick(h, g.labels)
			break
		}
		fallthrough
	case 3:
		const alpha = "abzAZ09_./-"
		n := 1 + h.Intn(6)
		b := make([]byte, n)
		for i := range b {
			b[i] = alpha[h.Intn(len(alpha))]
		}
		l = string(b)
	default:
		l = rt.Pick(h, baseLabels)
	}
	g.labels = append(g.labels, l)
	return l
}

func (g *gen) value() string {
	h := g.h
	var v string
	switch h.Intn(10) {
	case 0:
		if len(g.values) > 0 {
			v = rt.Pick(h, g.values)
			break
		}
		fallthrough
	case 1:
		const alpha = "ab x\"',{}()!&|=\t\x80"
		n := h.Intn(5)
		b := make([]byte, n)
		for i := range b {
			b[i] = alpha[h.Intn(len(alpha))]
		}
		v = string(b)
		if strings.Contains(v, `"`) && strings.Contains(v, `'`) {
			v = strings.ReplaceAll(v, `'`, "q")
		}
	default:
		v = rt.Pick(h, baseValues)
	}
	g.values = append(g.values, v)
	return v
}

// lit renders a string literal in one of the two quote styles the value allows.
func (g *gen) lit(v string) string {
	hasD, hasS := strings.Contains(v, `"`), strings.Contains(v, `'`)
	switch {
	case hasD && hasS:
		return `"` + strings.ReplaceAll(v, `"`, "") + `"`
	case hasD:
		return `'` + v + `'`
	case hasS:
		return `"` + v + `"`
	case g.h.Bool():
		return `'` + v + `'`
	}
	return `"` + v + `"`
}

func (g *gen) ws(min int) string {
	h := g.h
	n := min
	if h.Chance(0.3) {
		n += h.Intn(3)
	}
	b := make([]byte, n)
	for i := range b {
		if h.Chance(0.15) {
			b[i] = '\t'
		} else {
			b[i] = ' '
		}
	}
	return string(b)
}

func (g *gen) set() string {
	h := g.h
	n := h.Intn(5)
	var parts []string
	for i := 0; i < n; i++ {
		parts = append(parts, g.lit(g.value()))
	}
	if n > 0 && h.Chance(0.3) { // duplicate
		parts = append(parts, parts[h.Intn(len(parts))])
	}
	s := "{" + g.ws(0)
	for i, p := range parts {
		if i > 0 {
			s += g.ws(0) + "," + g.ws(0)
		}
		s += p
	}
	if n > 0 && h.Chance(0.1) {
		s += "," // trailing comma is accepted by the parser
	}
	return s + g.ws(0) + "}"
}

func (g *gen) atom() string {
	h := g.h
	switch h.Intn(14) {
	case 0:
		return g.label() + g.ws(0) + "==" + g.ws(0) + g.lit(g.value())
	case 1:
		return g.label() + g.ws(0) + "!=" + g.ws(0) + g.lit(g.value())
	case 2:
		return g.label() + g.ws(1) + "contains" + g.ws(0) + g.lit(g.value())
	case 3:
		return g.label() + g.ws(1) + "starts" + g.ws(rt.Pick(h, []int{0, 1})) + "with" + g.ws(0) + g.lit(g.value())
	case 4:
		return g.label() + g.ws(1) + "ends" + g.ws(rt.Pick(h, []int{0, 1})) + "with" + g.ws(0) + g.lit(g.value())
	case 5, 6:
		return g.label() + g.ws(1) + "in" + g.ws(0) + g.set()
	case 7, 8:
		return g.label() + g.ws(1) + "not" + g.ws(rt.Pick(h, []int{0, 1})) + "in" + g.ws(0) + g.set()
	case 9, 10, 11:
		return "has(" + g.ws(0) + g.label() + g.ws(0) + ")"
	case 12:
		return "all(" + g.ws(0) + ")"
	default:
		return "global(" + g.ws(0) + ")"
	}
}

func (g *gen) expr(depth int) string {
	h := g.h
	if depth <= 0 {
		return g.atom()
	}
	switch h.Intn(12) {
	case 0, 1, 2:
		return g.atom()
	case 3: // negation, possibly stacked
		return strings.Repeat("!"+g.ws(0), 1+h.Intn(3)) + g.expr(depth-1)
	case 4: // the nested negation forms
		inner := g.expr(depth - 1)
		return rt.Pick(h, []string{"!(!" + inner + ")", "!((!" + inner + "))", "!(!(!" + inner + "))", "!(!!" + inner + ")", "(!(!(" + inner + ")))"})
	case 5:
		return "!" + g.ws(0) + "(" + g.ws(0) + g.expr(depth-1) + g.ws(0) + ")"
	case 6:
		return "(" + g.ws(0) + g.expr(depth-1) + g.ws(0) + ")"
	case 7, 8:
		n := 2 + h.Intn(3)
		parts := make([]string, n)
		for i := range parts {
			parts[i] = g.expr(depth - 1)
		}
		return strings.Join(parts, g.ws(0)+"&&"+g.ws(0))
	case 9, 10:
		n := 2 + h.Intn(3)
		parts := make([]string, n)
		for i := range parts {
			parts[i] = g.expr(depth - 1)
		}
		return strings.Join(parts, g.ws(0)+"||"+g.ws(0))
	default: // mixed precedence
		return g.expr(depth-1) + g.ws(0) + "&&" + g.ws(0) + g.expr(depth-1) + g.ws(0) + "||" + g.ws(0) + g.expr(depth-1)
	}
}

var malformed = []string{
	`a ==`, `a = "b"`, `a == b`, `a & b`, `a | b`, `a == "b" &`, `(a == "b"`, `a == "b")`, `()`, `(`, `)`, `!`, `!!`, `a`, `a !`,
	`a in {"x" "y"}`, `a in {,}`, `a in {"x",,}`, `a in {`, `a in "x"`, `a in`, `a not`, `a not "x"`, `a notx in {}`, `a inx {}`,
	`has(a`, `has()`, `has(a b)`, `has (a)`, `all(x)`, `all(`, `global(x)`, `global`, `all`, `has`, `a has(b)`, `a b`, `a all()`,
	`"x" == a`, `a == "x`, `a == 'x`, `a == "x" b`, `a == "x" "y"`, `a == "x" ||`, `a == "x" && && b == "y"`, `|| a == "x"`,
	`a contains`, `a containsx "y"`, `a starts "x"`, `a starts with`, `a startswith"x"`, `a ends  with"x"`, `a starts withx "y"`,
	`a == "x" || (b == "y" && )`, `a #`, `a == "x";`, `é == "x"`, `a\n== "x"`, `{`, `}`, `,`, `a == {"x"}`, `a ! = "x"`, `a !== "x"`,
	`! a == "x"`, `!a != "x"`, `a in{"x"}`, `a not in{}`, `a in {} in {}`, `in in {"in"}`, `not not in {}`, `notin in {}`, `has(has)`, `a==''`, `a==""`,
}

func (g *gen) selector() (string, string) {
	h := g.h
	switch h.Intn(20) {
	case 0:
		return rt.Pick(h, []string{"", " ", "\t ", "all()", "global()", "!all()"}), "fixed"
	case 1:
		return rt.Pick(h, malformed), "malformed-fixed"
	case 2: // label length boundary
		n := rt.Pick(h, []int{511, 512, 513, 600})
		l := strings.Repeat("k", n)
		return rt.Pick(h, []string{l + ` == "v"`, "has(" + l + ")", "!has(" + l + ")", l + ` in {"v"}`}), "long-label"
	case 3, 4, 5: // mutate a well-formed expression
		s := g.ws(0) + g.expr(1+h.Intn(3)) + g.ws(0)
		b := []byte(s)
		const noise = "()!&|=\"',{} ax"
		for k := 0; k < 1+h.Intn(2) && len(b) > 0; k++ {
			i := h.Intn(len(b))
			switch h.Intn(4) {
			case 0:
				b = append(b[:i], b[i+1:]...)
			case 1:
				b = append(b[:i], append([]byte{noise[h.Intn(len(noise))]}, b[i:]...)...)
			case 2:
				b[i] = noise[h.Intn(len(noise))]
			default:
				b = b[:i]
			}
		}
		return string(b), "mutated"
	default:
		return g.ws(0) + g.expr(h.Intn(4)) + g.ws(0), "grammar"
	}
}

func (g *gen) labelMap() string {
	h := g.h
	labels := append([]string{}, g.labels...)
	labels = append(labels, "a", "zz")
	values := append([]string{}, g.values...)
	values = append(values, "", "x", "prod")
	m := map[string]string{}
	for _, l := range labels {
		switch h.Intn(6) {
		case 0, 1: // absent
		case 2:
			m[l] = rt.Pick(h, values) + rt.Pick(h, []string{"x", "'", `"`, " "})
		case 3:
			m[l] = rt.Pick(h, []string{"x", "pre-"}) + rt.Pick(h, values)
		default:
			m[l] = rt.Pick(h, values)
		}
	}
	if len(m) == 0 {
		return "-"
	}
	keys := make([]string, 0, len(m))
	for k := range m {
		keys = append(keys, k)
	}
	sort.Strings(keys)
	parts := make([]string, len(keys))
	for i, k := range keys {
		parts[i] = hx(k) + ":" + hx(m[k])
	}
	return strings.Join(parts, ",")
}

func genCase(h *rt.H) ([]string, string) {
	g := &gen{h: h}
	s, tag := g.selector()
	ops := []string{"parse " + hx(s), "validate " + hx(s), "tok " + hx(s)}
	for i := 0; i < 2+h.Intn(4); i++ {
		ops = append(ops, "eval "+g.labelMap())
	}
	ops = append(ops, "reparse")
	return ops, tag
}

func main() {
	h := rt.New()
	defer h.Close()
	h.Rule = "case = one selector text (grammar-directed: all operators, both quote styles, keyword-like labels, whitespace/tab variants, stacked and nested negation, " +
		"sets with duplicates/trailing comma, label length 511..600; or a mutated/malformed text) + parse, validate, tok, 2..5 eval on label maps over the selector's own vocabulary, reparse; " +
		"distinct = distinct selector text; non-trivial = rejected text, or accepted text whose AST has >= 2 nodes"
	run := func(ops []string, tag string) {
		h.Case(tag)
		s := &state{}
		for i, op := range ops {
			out, ok := safeExec(h, s, op, ops[:i])
			h.Op(op, out)
			if !ok {
				h.Count("panic")
				break
			}
			w := strings.Fields(op)
			h.Count("op:" + w[0])
			if w[0] == "parse" {
				h.Count("gen:" + tag)
				if strings.HasPrefix(out, "err:") {
					h.Count("parse:" + out)
					h.Nontrivial(w[1])
				} else {
					h.Count("parse:ok")
					v := vocabOf(s.cur)
					for k := range v.kinds {
						h.Count("node:" + k)
					}
					if v.nested {
						h.Count("feature:nested-not")
					}
					if v.nodes >= 2 {
						h.Nontrivial(w[1])
					}
					switch {
					case v.nodes >= 10:
						h.Count("ast-size:10+")
					case v.nodes >= 4:
						h.Count("ast-size:4-9")
					default:
						h.Count("ast-size:1-3")
					}
				}
			}
			if w[0] == "eval" {
				h.Count("eval:" + out)
			}
		}
		h.Sample()
	}
	if h.Replay != "" {
		run(h.ReplayLines(), "replay")
		return
	}
	for i := 0; i < h.N; i++ {
		ops, tag := genCase(h)
		run(ops, tag)
	}
}
