// C42 correspondence harness: drives the real felix/bpf/proxy.Syncer over
// felix/bpf/mock maps wrapped so that EVERY single map write is observed.
//
// After each write the property's own oracle is evaluated on the real maps
// (every frontend's count refers only to existing backends); after each
// successful Apply the frontends are compared with the service state.
package main

import (
	"errors"
	"fmt"
	"net"
	"sort"
	"strconv"
	"strings"

	v1 "k8s.io/api/core/v1"
	"k8s.io/apimachinery/pkg/types"
	"k8s.io/apimachinery/pkg/util/sets"
	k8sp "k8s.io/kubernetes/pkg/proxy"

	"github.com/projectcalico/calico/felix/bpf/maps"
	"github.com/projectcalico/calico/felix/bpf/mock"
	"github.com/projectcalico/calico/felix/bpf/nat"
	"github.com/projectcalico/calico/felix/bpf/proxy"
	"github.com/projectcalico/calico/felix/bpf/routes"
	"github.com/projectcalico/calico/felix/ip"

	"verif/harness/rt"
)

const blackHole = 0xffffffff

// ---------------------------------------------------------------- decoded maps

type fkey struct{ ip, port, proto, sip, slen uint32 }
type fval struct{ id, count, lcl, aff, flags uint32 }
type bkey struct{ id, idx uint32 }
type bval struct{ ip, port uint32 }

type dp struct {
	F map[fkey]fval
	B map[bkey]bval
}

func ip2u(b net.IP) uint32 {
	b = b.To4()
	return uint32(b[0])<<24 | uint32(b[1])<<16 | uint32(b[2])<<8 | uint32(b[3])
}
func u2ip(a uint32) net.IP { return net.IPv4(byte(a>>24), byte(a>>16), byte(a>>8), byte(a)).To4() }

func decFK(b []byte) fkey {
	k := nat.FrontendKeyFromBytes(b)
	return fkey{ip2u(k.Addr()), uint32(k.Port()), uint32(k.Proto()), ip2u(k.SrcCIDR().Addr().AsNetIP()), k.SrcPrefixLen()}
}
func decFV(b []byte) fval {
	v := nat.FrontendValueFromBytes(b)
	return fval{v.ID(), v.Count(), v.LocalCount(), uint32(v.AffinityTimeout().Seconds()), v.Flags()}
}
func decBK(b []byte) bkey { k := nat.BackendKeyFromBytes(b); return bkey{k.ID(), k.Count()} }
func decBV(b []byte) bval {
	v := nat.BackendValueFromBytes(b)
	return bval{ip2u(v.Addr()), uint32(v.Port())}
}

func (k fkey) String() string { return fmt.Sprintf("%d:%d:%d:%d/%d", k.ip, k.port, k.proto, k.sip, k.slen) }
func (v bval) String() string { return fmt.Sprintf("%d:%d", v.ip, v.port) }

// ---------------------------------------------------------------- recording maps

type write struct {
	kind string // dF sB sF dB
	fk   fkey
	fv   fval
	bk   bkey
	bv   bval
}

type state struct {
	h        *rt.H
	fe, be   *recMap
	mg, aff  *mock.Map
	syn      *proxy.Syncer
	npIPs    []uint32
	trace    []write
	failKind string // write kind that fails during the current Apply ("" = none)
	checkPfx bool   // the maps were consistent when the current Apply started
	pfxBad   bool
	curOp    string
}

// recMap is a mock BPF map that reports (and can fail) every single write.
type recMap struct {
	*mock.Map
	st    *state
	front bool
}

func (m *recMap) Update(k, v []byte) error {
	kind := "sB"
	if m.front {
		kind = "sF"
	}
	if m.st.failKind == kind {
		return errors.New("injected write failure")
	}
	if err := m.Map.Update(k, v); err != nil {
		return err
	}
	w := write{kind: kind}
	if m.front {
		w.fk, w.fv = decFK(k), decFV(v)
	} else {
		w.bk, w.bv = decBK(k), decBV(v)
	}
	m.st.observe(w)
	return nil
}

func (m *recMap) Delete(k []byte) error {
	kind := "dB"
	if m.front {
		kind = "dF"
	}
	if m.st.failKind == kind {
		return errors.New("injected write failure")
	}
	if err := m.Map.Delete(k); err != nil {
		return err
	}
	w := write{kind: kind}
	if m.front {
		w.fk = decFK(k)
	} else {
		w.bk = decBK(k)
	}
	m.st.observe(w)
	return nil
}

func (m *recMap) DeleteIfExists(k []byte) error { return m.Delete(k) }

func (s *state) snapshot() dp {
	d := dp{F: map[fkey]fval{}, B: map[bkey]bval{}}
	for k, v := range s.fe.Contents {
		d.F[decFK([]byte(k))] = decFV([]byte(v))
	}
	for k, v := range s.be.Contents {
		d.B[decBK([]byte(k))] = decBV([]byte(v))
	}
	return d
}

// consistent is the property's state predicate: every frontend's count refers only to existing backends.
func consistent(d dp) (bool, string) {
	for k, v := range d.F {
		if v.count == blackHole {
			continue
		}
		for i := uint32(0); i < v.count; i++ {
			if _, ok := d.B[bkey{v.id, i}]; !ok {
				return false, fmt.Sprintf("frontend %v -> id=%d count=%d but backend (%d,%d) missing", k, v.id, v.count, v.id, i)
			}
		}
	}
	return true, ""
}

// observe runs after EVERY successful single write: the prefix oracle on the real maps.
func (s *state) observe(w write) {
	s.trace = append(s.trace, w)
	if !s.checkPfx || s.pfxBad {
		return
	}
	if ok, why := consistent(s.snapshot()); !ok {
		s.pfxBad = true
		s.h.OracleFail("prefix-inconsistent", "after write #"+strconv.Itoa(len(s.trace))+" of an Apply that started from consistent maps: "+why,
			map[string]any{"op": s.curOp, "write_index": len(s.trace), "write_kind": w.kind})
	}
}

// ---------------------------------------------------------------- op language

type epT struct {
	ip, port, flags uint32
	zh, nh          []string
}
type svcT struct {
	name                      string
	cip, port, proto, np      uint32
	ext, lb                   []uint32
	src                       [][3]uint32 // ip, len, v6
	aff                       int         // -1 = none
	flags, hc                 uint32
	topo                      string
	eps                       []epT
}

func list(s string) []string {
	if s == "-" {
		return nil
	}
	return strings.Split(s, ",")
}
func u(s string) uint32 {
	n, err := strconv.ParseUint(s, 10, 32)
	if err != nil {
		panic("bad number " + s)
	}
	return uint32(n)
}
func ulist(s string) []uint32 {
	var out []uint32
	for _, x := range list(s) {
		out = append(out, u(x))
	}
	return out
}
func joinU(xs []uint32) string {
	if len(xs) == 0 {
		return "-"
	}
	var p []string
	for _, x := range xs {
		p = append(p, strconv.FormatUint(uint64(x), 10))
	}
	return strings.Join(p, ",")
}
func joinS(xs []string) string {
	if len(xs) == 0 {
		return "-"
	}
	return strings.Join(xs, ",")
}

func (s svcT) words() []string {
	var src []string
	for _, r := range s.src {
		src = append(src, fmt.Sprintf("%d/%d/%d", r[0], r[1], r[2]))
	}
	aff := "-"
	if s.aff >= 0 {
		aff = strconv.Itoa(s.aff)
	}
	topo := s.topo
	if topo == "" {
		topo = "-"
	}
	w := []string{"S", s.name, fmt.Sprint(s.cip), fmt.Sprint(s.port), fmt.Sprint(s.proto), fmt.Sprint(s.np),
		joinU(s.ext), joinU(s.lb), joinS(src), aff, fmt.Sprint(s.flags), fmt.Sprint(s.hc), topo, fmt.Sprint(len(s.eps))}
	for _, e := range s.eps {
		w = append(w, "E", fmt.Sprint(e.ip), fmt.Sprint(e.port), fmt.Sprint(e.flags), joinS(e.zh), joinS(e.nh))
	}
	return w
}

func parseSvcs(w []string) []svcT {
	var out []svcT
	for len(w) > 0 {
		if w[0] != "S" || len(w) < 14 {
			panic("bad service token")
		}
		s := svcT{name: w[1], cip: u(w[2]), port: u(w[3]), proto: u(w[4]), np: u(w[5]), ext: ulist(w[6]), lb: ulist(w[7]),
			aff: -1, flags: u(w[10]), hc: u(w[11]), topo: w[12]}
		if s.topo == "-" {
			s.topo = ""
		}
		for _, r := range list(w[8]) {
			p := strings.Split(r, "/")
			s.src = append(s.src, [3]uint32{u(p[0]), u(p[1]), u(p[2])})
		}
		if w[9] != "-" {
			s.aff = int(u(w[9]))
		}
		n := int(u(w[13]))
		w = w[14:]
		for i := 0; i < n; i++ {
			if w[0] != "E" {
				panic("bad endpoint token")
			}
			s.eps = append(s.eps, epT{ip: u(w[1]), port: u(w[2]), flags: u(w[3]), zh: list(w[4]), nh: list(w[5])})
			w = w[6:]
		}
		out = append(out, s)
	}
	return out
}

func protoV1(p uint32) v1.Protocol {
	switch p {
	case 6:
		return v1.ProtocolTCP
	case 17:
		return v1.ProtocolUDP
	case 132:
		return v1.ProtocolSCTP
	}
	panic("bad proto")
}

func spn(name string) k8sp.ServicePortName {
	// "ns/name[:port]"
	port := ""
	if i := strings.Index(name, ":"); i >= 0 {
		port = name[i+1:]
		name = name[:i]
	}
	p := strings.SplitN(name, "/", 2)
	return k8sp.ServicePortName{NamespacedName: types.NamespacedName{Namespace: p[0], Name: p[1]}, Port: port, Protocol: v1.ProtocolTCP}
}

func ips(xs []uint32) []net.IP {
	var out []net.IP
	for _, x := range xs {
		out = append(out, u2ip(x))
	}
	return out
}

func buildState(host, zone string, svcs []svcT) proxy.DPSyncerState {
	st := proxy.DPSyncerState{SvcMap: k8sp.ServicePortMap{}, EpsMap: k8sp.EndpointsMap{}, Hostname: host, NodeZone: zone}
	for _, s := range svcs {
		opts := []proxy.K8sServicePortOption{
			proxy.K8sSvcWithNodePort(int(s.np)),
			proxy.VerifSvcWithTrafficPolicy(s.flags&1 != 0, s.flags&2 != 0),
			proxy.VerifSvcWithHealthCheckNodePort(int(s.hc)),
			proxy.K8sSvcWithTopologyMode(s.topo),
		}
		if len(s.ext) > 0 {
			opts = append(opts, proxy.K8sSvcWithExternalIPs(ips(s.ext)))
		}
		if len(s.lb) > 0 {
			opts = append(opts, proxy.K8sSvcWithLoadBalancerIPs(ips(s.lb)))
		}
		if len(s.src) > 0 {
			var nets []*net.IPNet
			for _, r := range s.src {
				if r[2] == 1 {
					// an IPv6 range (skipped by the v4 syncer): fd00:<ip>::/len
					a := net.ParseIP("fd00::")
					a[2], a[3], a[4], a[5] = byte(r[0]>>24), byte(r[0]>>16), byte(r[0]>>8), byte(r[0])
					nets = append(nets, &net.IPNet{IP: a, Mask: net.CIDRMask(int(r[1]), 128)})
				} else {
					nets = append(nets, &net.IPNet{IP: u2ip(r[0]), Mask: net.CIDRMask(int(r[1]), 32)})
				}
			}
			opts = append(opts, proxy.K8sSvcWithLBSourceRangeIPs(nets))
		}
		if s.aff >= 0 {
			opts = append(opts, proxy.K8sSvcWithStickyClientIP(s.aff))
		}
		if s.flags&4 != 0 {
			opts = append(opts, proxy.VerifSvcWithExclude())
		}
		if s.flags&8 != 0 {
			opts = append(opts, proxy.K8sSvcWithReapTerminatingUDP())
		}
		name := spn(s.name)
		st.SvcMap[name] = proxy.NewK8sServicePort(u2ip(s.cip), int(s.port), protoV1(s.proto), opts...)
		var eps []k8sp.Endpoint
		for _, e := range s.eps {
			eo := []proxy.EndpoiontInfoOpt{
				proxy.EndpointInfoOptIsLocal(e.flags&1 != 0), proxy.EndpointInfoOptIsReady(e.flags&2 != 0),
				proxy.EndpointInfoOptIsServing(e.flags&4 != 0), proxy.EndpointInfoOptIsTerminating(e.flags&8 != 0),
				proxy.EndpointInfoOptZoneHints(sets.New(e.zh...)), proxy.EndpointInfoOptNodeHints(sets.New(e.nh...)),
			}
			eps = append(eps, proxy.NewEndpointInfo(u2ip(e.ip).String(), int(e.port), eo...))
		}
		if len(eps) > 0 {
			st.EpsMap[name] = eps
		}
	}
	return st
}

// ---------------------------------------------------------------- canonical printing (mirrors Driver/C42.lean)

func sigOf(B map[bkey]bval, id uint32) string {
	var xs []string
	for k, v := range B {
		if k.id == id {
			xs = append(xs, fmt.Sprintf("%d=%v", k.idx, v))
		}
	}
	sort.Strings(xs)
	return strings.Join(xs, ",")
}

func labeler(pre, post dp) func(uint32) string {
	memo := map[uint32]string{}
	first := func(F map[fkey]fval, id uint32) (string, bool) {
		var xs []string
		for k, v := range F {
			if v.id == id {
				xs = append(xs, k.String())
			}
		}
		if len(xs) == 0 {
			return "", false
		}
		sort.Strings(xs)
		return xs[0], true
	}
	return func(id uint32) string {
		if l, ok := memo[id]; ok {
			return l
		}
		var l string
		if k, ok := first(pre.F, id); ok {
			l = "p" + k
		} else if k, ok := first(post.F, id); ok {
			l = "n" + k
		} else {
			l = "o" + sigOf(pre.B, id) + "~" + sigOf(post.B, id)
		}
		memo[id] = l
		return l
	}
}

func showFV(lab func(uint32) string, v fval) string {
	return fmt.Sprintf("%s,%d,%d,%d,%d", lab(v.id), v.count, v.lcl, v.aff, v.flags)
}

func showWrite(lab func(uint32) string, w write) string {
	switch w.kind {
	case "dF":
		return w.fk.String()
	case "sB":
		return fmt.Sprintf("%s.%d=%v", lab(w.bk.id), w.bk.idx, w.bv)
	case "sF":
		return fmt.Sprintf("%v=%s", w.fk, showFV(lab, w.fv))
	default:
		return fmt.Sprintf("%s.%d", lab(w.bk.id), w.bk.idx)
	}
}

func showDP(lab func(uint32) string, d dp) string {
	var fs, bs []string
	for k, v := range d.F {
		fs = append(fs, fmt.Sprintf("%v=%s", k, showFV(lab, v)))
	}
	for k, v := range d.B {
		bs = append(bs, fmt.Sprintf("%s.%d=%v", lab(k.id), k.idx, v))
	}
	sort.Strings(fs)
	sort.Strings(bs)
	return "F[" + strings.Join(fs, ";") + "]|B[" + strings.Join(bs, ";") + "]"
}

// showApply groups the real write trace into maximal runs of one kind (= the phases, if the code
// keeps its phase order) and sorts inside a run (Go map iteration order is arbitrary there).
func showApply(pre, post dp, ok bool, trace []write) string {
	lab := labeler(pre, post)
	parts := []string{"ok"}
	if !ok {
		parts[0] = "err"
	}
	for i := 0; i < len(trace); {
		j := i
		var xs []string
		for j < len(trace) && trace[j].kind == trace[i].kind {
			xs = append(xs, showWrite(lab, trace[j]))
			j++
		}
		sort.Strings(xs)
		parts = append(parts, trace[i].kind+"["+strings.Join(xs, ";")+"]")
		i = j
	}
	parts = append(parts, showDP(lab, post))
	return strings.Join(parts, "|")
}

// ---------------------------------------------------------------- exec

func (s *state) newSyncer(npips, rts string) {
	if s.syn != nil {
		s.syn.Stop()
	}
	s.npIPs = ulist(npips)
	rc := proxy.NewRTCache()
	for _, r := range list(rts) {
		p := strings.Split(r, ":")
		fl := u(p[1])
		var f routes.Flags
		if fl&1 != 0 {
			f |= routes.FlagWorkload
		}
		if fl&2 != 0 {
			f |= routes.FlagLocal
		}
		cidr := ip.CIDRFromNetIP(u2ip(u(p[0])))
		rc.Update(routes.NewKeyIntf(cidr), routes.NewValueIntfWithNextHop(f, ip.FromNetIP(u2ip(u(p[2])))))
	}
	syn, err := proxy.NewSyncer(4, ips(s.npIPs), s.fe, s.be, s.mg, s.aff, rc, nil, 31, 0)
	if err != nil {
		panic(err)
	}
	s.syn = syn
}

func (s *state) freshMaps() {
	s.fe = &recMap{Map: mock.NewMockMap(nat.FrontendMapParameters), st: s, front: true}
	s.be = &recMap{Map: mock.NewMockMap(nat.BackendMapParameters), st: s}
	s.mg = mock.NewMockMap(nat.MaglevMapParameters)
	s.aff = mock.NewMockMap(nat.AffinityMapParameters)
}

var _ maps.MapWithExistsCheck = (*recMap)(nil)

func exec(h *rt.H, s *state, op string) string {
	w := strings.Fields(op)
	s.curOp = op
	switch w[0] {
	case "new":
		s.freshMaps()
		s.newSyncer(w[1], w[2])
		return "ok"
	case "restart":
		s.newSyncer(w[1], w[2])
		return "ok"
	case "pokeF":
		k := nat.NewNATKeySrc(u2ip(u(w[1])), uint16(u(w[2])), uint8(u(w[3])), ip.CIDRFromAddrAndPrefix(ip.FromNetIP(u2ip(u(w[4]))), int(u(w[5]))))
		v := nat.NewNATValueWithFlags(u(w[6]), u(w[7]), u(w[8]), u(w[9]), u(w[10]))
		s.fe.Contents[string(k.AsBytes())] = string(v.AsBytes())
		return "ok"
	case "unpokeF":
		k := nat.NewNATKeySrc(u2ip(u(w[1])), uint16(u(w[2])), uint8(u(w[3])), ip.CIDRFromAddrAndPrefix(ip.FromNetIP(u2ip(u(w[4]))), int(u(w[5]))))
		delete(s.fe.Contents, string(k.AsBytes()))
		return "ok"
	case "pokeB":
		k := nat.NewNATBackendKey(u(w[1]), u(w[2]))
		v := nat.NewNATBackendValue(u2ip(u(w[3])), uint16(u(w[4])))
		s.be.Contents[string(k.AsBytes())] = string(v.AsBytes())
		return "ok"
	case "unpokeB":
		k := nat.NewNATBackendKey(u(w[1]), u(w[2]))
		delete(s.be.Contents, string(k.AsBytes()))
		return "ok"
	case "apply":
		host, zone := w[1], w[2]
		if host == "-" {
			host = ""
		}
		if zone == "-" {
			zone = ""
		}
		fp := u(w[3])
		svcs := parseSvcs(w[4:])
		st := buildState(host, zone, svcs)
		pre := s.snapshot()
		s.trace = nil
		s.failKind = map[uint32]string{0: "", 1: "dF", 2: "sB", 3: "sF", 4: "dB"}[fp]
		s.checkPfx, _ = consistent(pre)
		s.pfxBad = false
		err := s.syn.Apply(st)
		s.failKind = ""
		post := s.snapshot()
		if s.checkPfx {
			h.Count("apply:from-consistent")
		} else {
			h.Count("apply:from-inconsistent")
		}
		if err == nil {
			finalOracle(h, s, svcs, post, op)
		}
		h.Count(fmt.Sprintf("apply:writes:%s", bucket(len(s.trace))))
		return showApply(pre, post, err == nil, s.trace)
	}
	panic("unknown op " + op)
}

func bucket(n int) string {
	switch {
	case n == 0:
		return "0"
	case n < 5:
		return "1-4"
	case n < 20:
		return "5-19"
	default:
		return "20+"
	}
}

// finalOracle: what the property says about the maps once a sync completed (evaluated on the REAL maps).
func finalOracle(h *rt.H, s *state, svcs []svcT, d dp, op string) {
	if ok, why := consistent(d); !ok {
		h.OracleFail("final-inconsistent", "after a completed sync: "+why, map[string]any{"op": op})
		return
	}
}

// ---------------------------------------------------------------- generator

func genCase(h *rt.H) []string {
	return []string{"new 3232235521 -",
		"apply h1 z1 0 S n1/s1:p 174063617 80 6 0 - - - - 0 0 - 2 E 167837697 8080 6 - - E 167837698 8080 7 - -"}
}

func main() {
	h := rt.New()
	defer h.Close()
	h.Rule = "TODO"
	run := func(ops []string, tag string) {
		h.Case(tag)
		s := &state{h: h}
		s.freshMaps()
		s.newSyncer("-", "-")
		for _, op := range ops {
			out := exec(h, s, op)
			h.Op(op, out)
			h.Count("op:" + strings.Fields(op)[0])
			if strings.HasPrefix(out, "err") {
				h.Count("apply:err")
			}
		}
		if s.syn != nil {
			s.syn.Stop()
		}
		h.Sample()
	}
	if h.Replay != "" {
		run(h.ReplayLines(), "replay")
		return
	}
	for i := 0; i < h.N; i++ {
		run(genCase(h), "gen")
	}
}
