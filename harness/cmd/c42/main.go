// C42 correspondence harness: drives the real felix/bpf/proxy.Syncer over
// felix/bpf/mock maps wrapped so that EVERY single map write is observed.
//
// After each write the property's own oracle is evaluated on the real maps
// (every frontend's count refers only to existing backends); after each
// successful Apply the frontends are compared with the service state.
package main

import (
	"errors"
	"fmt"
	"net"
	"sort"
	"strconv"
	"strings"

	v1 "k8s.io/api/core/v1"
	"k8s.io/apimachinery/pkg/types"
	"k8s.io/apimachinery/pkg/util/sets"
	k8sp "k8s.io/kubernetes/pkg/proxy"

	"github.com/projectcalico/calico/felix/bpf/maps"
	"github.com/projectcalico/calico/felix/bpf/mock"
	"github.com/projectcalico/calico/felix/bpf/nat"
	"github.com/projectcalico/calico/felix/bpf/proxy"
	"github.com/projectcalico/calico/felix/bpf/routes"
	"github.com/projectcalico/calico/felix/ip"

	"verif/harness/rt"
)

const blackHole = 0xffffffff

// ---------------------------------------------------------------- decoded maps

type fkey struct{ ip, port, proto, sip, slen uint32 }
type fval struct{ id, count, lcl, aff, flags uint32 }
type bkey struct{ id, idx uint32 }
type bval struct{ ip, port uint32 }

type dp struct {
	F map[fkey]fval
	B map[bkey]bval
}

func ip2u(b net.IP) uint32 {
	b = b.To4()
	return uint32(b[0])<<24 | uint32(b[1])<<16 | uint32(b[2])<<8 | uint32(b[3])
}
func u2ip(a uint32) net.IP { return net.IPv4(byte(a>>24), byte(a>>16), byte(a>>8), byte(a)).To4() }

func decFK(b []byte) fkey {
	k := nat.FrontendKeyFromBytes(b)
	return fkey{ip2u(k.Addr()), uint32(k.Port()), uint32(k.Proto()), ip2u(k.SrcCIDR().Addr().AsNetIP()), k.SrcPrefixLen()}
}
func decFV(b []byte) fval {
	v := nat.FrontendValueFromBytes(b)
	return fval{v.ID(), v.Count(), v.LocalCount(), uint32(v.AffinityTimeout().Seconds()), v.Flags()}
}
func decBK(b []byte) bkey { k := nat.BackendKeyFromBytes(b); return bkey{k.ID(), k.Count()} }
func decBV(b []byte) bval {
	v := nat.BackendValueFromBytes(b)
	return bval{ip2u(v.Addr()), uint32(v.Port())}
}

func (k fkey) String() string { return fmt.Sprintf("%d:%d:%d:%d/%d", k.ip, k.port, k.proto, k.sip, k.slen) }
func (v bval) String() string { return fmt.Sprintf("%d:%d", v.ip, v.port) }

// ---------------------------------------------------------------- recording maps

type write struct {
	kind string // dF sB sF dB
	fk   fkey
	fv   fval
	bk   bkey
	bv   bval
}

type state struct {
	h        *rt.H
	fe, be   *recMap
	mg, aff  *mock.Map
	syn      *proxy.Syncer
	npIPs    []uint32
	trace    []write
	failKind string // write kind that fails during the current Apply ("" = none)
	checkPfx bool   // the maps were consistent when the current Apply started
	pfxBad   bool
	curOp    string
	nontriv  bool
}

// recMap is a mock BPF map that reports (and can fail) every single write.
type recMap struct {
	*mock.Map
	st    *state
	front bool
}

func (m *recMap) Update(k, v []byte) error {
	kind := "sB"
	if m.front {
		kind = "sF"
	}
	if m.st.failKind == kind {
		return errors.New("injected write failure")
	}
	if err := m.Map.Update(k, v); err != nil {
		return err
	}
	w := write{kind: kind}
	if m.front {
		w.fk, w.fv = decFK(k), decFV(v)
	} else {
		w.bk, w.bv = decBK(k), decBV(v)
	}
	m.st.observe(w)
	return nil
}

func (m *recMap) Delete(k []byte) error {
	kind := "dB"
	if m.front {
		kind = "dF"
	}
	if m.st.failKind == kind {
		return errors.New("injected write failure")
	}
	if err := m.Map.Delete(k); err != nil {
		return err
	}
	w := write{kind: kind}
	if m.front {
		w.fk = decFK(k)
	} else {
		w.bk = decBK(k)
	}
	m.st.observe(w)
	return nil
}

func (m *recMap) DeleteIfExists(k []byte) error { return m.Delete(k) }

func (s *state) snapshot() dp {
	d := dp{F: map[fkey]fval{}, B: map[bkey]bval{}}
	for k, v := range s.fe.Contents {
		d.F[decFK([]byte(k))] = decFV([]byte(v))
	}
	for k, v := range s.be.Contents {
		d.B[decBK([]byte(k))] = decBV([]byte(v))
	}
	return d
}

// consistent is the property's state predicate: every frontend's count refers only to existing backends.
func consistent(d dp) (bool, string) {
	for k, v := range d.F {
		if v.count == blackHole {
			continue
		}
		for i := uint32(0); i < v.count; i++ {
			if _, ok := d.B[bkey{v.id, i}]; !ok {
				return false, fmt.Sprintf("frontend %v -> id=%d count=%d but backend (%d,%d) missing", k, v.id, v.count, v.id, i)
			}
		}
	}
	return true, ""
}

// observe runs after EVERY successful single write: the prefix oracle on the real maps.
func (s *state) observe(w write) {
	s.trace = append(s.trace, w)
	if !s.checkPfx || s.pfxBad {
		return
	}
	if ok, why := consistent(s.snapshot()); !ok {
		s.pfxBad = true
		s.h.OracleFail("prefix-inconsistent", "after write #"+strconv.Itoa(len(s.trace))+" of an Apply that started from consistent maps: "+why,
			map[string]any{"op": s.curOp, "write_index": len(s.trace), "write_kind": w.kind})
	}
}

// ---------------------------------------------------------------- op language

type epT struct {
	ip, port, flags uint32
	zh, nh          []string
}
type svcT struct {
	name                      string
	cip, port, proto, np      uint32
	ext, lb                   []uint32
	src                       [][3]uint32 // ip, len, v6
	aff                       int         // -1 = none
	flags, hc                 uint32
	topo                      string
	eps                       []epT
}

func list(s string) []string {
	if s == "-" {
		return nil
	}
	return strings.Split(s, ",")
}
func u(s string) uint32 {
	n, err := strconv.ParseUint(s, 10, 32)
	if err != nil {
		panic("bad number " + s)
	}
	return uint32(n)
}
func ulist(s string) []uint32 {
	var out []uint32
	for _, x := range list(s) {
		out = append(out, u(x))
	}
	return out
}
func joinU(xs []uint32) string {
	if len(xs) == 0 {
		return "-"
	}
	var p []string
	for _, x := range xs {
		p = append(p, strconv.FormatUint(uint64(x), 10))
	}
	return strings.Join(p, ",")
}
func joinS(xs []string) string {
	if len(xs) == 0 {
		return "-"
	}
	return strings.Join(xs, ",")
}

func (s svcT) words() []string {
	var src []string
	for _, r := range s.src {
		src = append(src, fmt.Sprintf("%d/%d/%d", r[0], r[1], r[2]))
	}
	aff := "-"
	if s.aff >= 0 {
		aff = strconv.Itoa(s.aff)
	}
	topo := s.topo
	if topo == "" {
		topo = "-"
	}
	w := []string{"S", s.name, fmt.Sprint(s.cip), fmt.Sprint(s.port), fmt.Sprint(s.proto), fmt.Sprint(s.np),
		joinU(s.ext), joinU(s.lb), joinS(src), aff, fmt.Sprint(s.flags), fmt.Sprint(s.hc), topo, fmt.Sprint(len(s.eps))}
	for _, e := range s.eps {
		w = append(w, "E", fmt.Sprint(e.ip), fmt.Sprint(e.port), fmt.Sprint(e.flags), joinS(e.zh), joinS(e.nh))
	}
	return w
}

func parseSvcs(w []string) []svcT {
	var out []svcT
	for len(w) > 0 {
		if w[0] != "S" || len(w) < 14 {
			panic("bad service token")
		}
		s := svcT{name: w[1], cip: u(w[2]), port: u(w[3]), proto: u(w[4]), np: u(w[5]), ext: ulist(w[6]), lb: ulist(w[7]),
			aff: -1, flags: u(w[10]), hc: u(w[11]), topo: w[12]}
		if s.topo == "-" {
			s.topo = ""
		}
		for _, r := range list(w[8]) {
			p := strings.Split(r, "/")
			s.src = append(s.src, [3]uint32{u(p[0]), u(p[1]), u(p[2])})
		}
		if w[9] != "-" {
			s.aff = int(u(w[9]))
		}
		n := int(u(w[13]))
		w = w[14:]
		for i := 0; i < n; i++ {
			if w[0] != "E" {
				panic("bad endpoint token")
			}
			s.eps = append(s.eps, epT{ip: u(w[1]), port: u(w[2]), flags: u(w[3]), zh: list(w[4]), nh: list(w[5])})
			w = w[6:]
		}
		out = append(out, s)
	}
	return out
}

func protoV1(p uint32) v1.Protocol {
	switch p {
	case 6:
		return v1.ProtocolTCP
	case 17:
		return v1.ProtocolUDP
	case 132:
		return v1.ProtocolSCTP
	}
	panic("bad proto")
}

func spn(name string) k8sp.ServicePortName {
	// "ns/name[:port]"
	port := ""
	if i := strings.Index(name, ":"); i >= 0 {
		port = name[i+1:]
		name = name[:i]
	}
	p := strings.SplitN(name, "/", 2)
	return k8sp.ServicePortName{NamespacedName: types.NamespacedName{Namespace: p[0], Name: p[1]}, Port: port, Protocol: v1.ProtocolTCP}
}

func ips(xs []uint32) []net.IP {
	var out []net.IP
	for _, x := range xs {
		out = append(out, u2ip(x))
	}
	return out
}

func buildState(host, zone string, svcs []svcT) (proxy.DPSyncerState, map[k8sp.ServicePortName]string) {
	tok := map[k8sp.ServicePortName]string{}
	st := proxy.DPSyncerState{SvcMap: k8sp.ServicePortMap{}, EpsMap: k8sp.EndpointsMap{}, Hostname: host, NodeZone: zone}
	for _, s := range svcs {
		opts := []proxy.K8sServicePortOption{
			proxy.K8sSvcWithNodePort(int(s.np)),
			proxy.VerifSvcWithTrafficPolicy(s.flags&1 != 0, s.flags&2 != 0),
			proxy.VerifSvcWithHealthCheckNodePort(int(s.hc)),
			proxy.K8sSvcWithTopologyMode(s.topo),
		}
		if len(s.ext) > 0 {
			opts = append(opts, proxy.K8sSvcWithExternalIPs(ips(s.ext)))
		}
		if len(s.lb) > 0 {
			opts = append(opts, proxy.K8sSvcWithLoadBalancerIPs(ips(s.lb)))
		}
		if len(s.src) > 0 {
			var nets []*net.IPNet
			for _, r := range s.src {
				if r[2] == 1 {
					// an IPv6 range (skipped by the v4 syncer): fd00:<ip>::/len
					a := net.ParseIP("fd00::")
					a[2], a[3], a[4], a[5] = byte(r[0]>>24), byte(r[0]>>16), byte(r[0]>>8), byte(r[0])
					nets = append(nets, &net.IPNet{IP: a, Mask: net.CIDRMask(int(r[1]), 128)})
				} else {
					nets = append(nets, &net.IPNet{IP: u2ip(r[0]), Mask: net.CIDRMask(int(r[1]), 32)})
				}
			}
			opts = append(opts, proxy.K8sSvcWithLBSourceRangeIPs(nets))
		}
		if s.aff >= 0 {
			opts = append(opts, proxy.K8sSvcWithStickyClientIP(s.aff))
		}
		if s.flags&4 != 0 {
			opts = append(opts, proxy.VerifSvcWithExclude())
		}
		if s.flags&8 != 0 {
			opts = append(opts, proxy.K8sSvcWithReapTerminatingUDP())
		}
		name := spn(s.name)
		tok[name] = s.name
		st.SvcMap[name] = proxy.NewK8sServicePort(u2ip(s.cip), int(s.port), protoV1(s.proto), opts...)
		var eps []k8sp.Endpoint
		for _, e := range s.eps {
			eo := []proxy.EndpoiontInfoOpt{
				proxy.EndpointInfoOptIsLocal(e.flags&1 != 0), proxy.EndpointInfoOptIsReady(e.flags&2 != 0),
				proxy.EndpointInfoOptIsServing(e.flags&4 != 0), proxy.EndpointInfoOptIsTerminating(e.flags&8 != 0),
				proxy.EndpointInfoOptZoneHints(sets.New(e.zh...)), proxy.EndpointInfoOptNodeHints(sets.New(e.nh...)),
			}
			eps = append(eps, proxy.NewEndpointInfo(u2ip(e.ip).String(), int(e.port), eo...))
		}
		if len(eps) > 0 {
			st.EpsMap[name] = eps
		}
	}
	return st, tok
}

// idHint renders the service IDs the real Apply chose (see Driver/C42.lean).
func idHint(syn *proxy.Syncer, tok map[k8sp.ServicePortName]string) string {
	var xs []string
	for _, e := range syn.VerifSvcIDs() {
		switch {
		case e.Extra == "":
			xs = append(xs, fmt.Sprintf("%s@P=%d", tok[e.Name], e.ID))
		case strings.HasPrefix(e.Extra, "NodePortRemote:"):
			xs = append(xs, fmt.Sprintf("%s@R%d=%d", tok[e.Name], ip2u(net.ParseIP(strings.TrimPrefix(e.Extra, "NodePortRemote:"))), e.ID))
		}
	}
	sort.Strings(xs)
	return "ids=" + joinS(xs)
}

// ---------------------------------------------------------------- canonical printing (mirrors Driver/C42.lean)

func labeler(pre, post dp) func(uint32) string {
	return func(id uint32) string { return strconv.FormatUint(uint64(id), 10) }
}

func showFV(lab func(uint32) string, v fval) string {
	return fmt.Sprintf("%s,%d,%d,%d,%d", lab(v.id), v.count, v.lcl, v.aff, v.flags)
}

func showWrite(lab func(uint32) string, w write) string {
	switch w.kind {
	case "dF":
		return w.fk.String()
	case "sB":
		return fmt.Sprintf("%s.%d=%v", lab(w.bk.id), w.bk.idx, w.bv)
	case "sF":
		return fmt.Sprintf("%v=%s", w.fk, showFV(lab, w.fv))
	default:
		return fmt.Sprintf("%s.%d", lab(w.bk.id), w.bk.idx)
	}
}

func showDP(lab func(uint32) string, d dp) string {
	var fs, bs []string
	for k, v := range d.F {
		fs = append(fs, fmt.Sprintf("%v=%s", k, showFV(lab, v)))
	}
	for k, v := range d.B {
		bs = append(bs, fmt.Sprintf("%s.%d=%v", lab(k.id), k.idx, v))
	}
	sort.Strings(fs)
	sort.Strings(bs)
	return "F[" + strings.Join(fs, ";") + "]|B[" + strings.Join(bs, ";") + "]"
}

// showApply groups the real write trace into maximal runs of one kind (= the phases, if the code
// keeps its phase order) and sorts inside a run (Go map iteration order is arbitrary there).
func showApply(pre, post dp, ok bool, trace []write) string {
	lab := labeler(pre, post)
	parts := []string{"ok"}
	if !ok {
		parts[0] = "err"
	}
	for i := 0; i < len(trace); {
		j := i
		var xs []string
		for j < len(trace) && trace[j].kind == trace[i].kind {
			xs = append(xs, showWrite(lab, trace[j]))
			j++
		}
		sort.Strings(xs)
		parts = append(parts, trace[i].kind+"["+strings.Join(xs, ";")+"]")
		i = j
	}
	parts = append(parts, showDP(lab, post))
	return strings.Join(parts, "|")
}

// ---------------------------------------------------------------- exec

func (s *state) newSyncer(npips, rts string) {
	if s.syn != nil {
		s.syn.Stop()
	}
	s.npIPs = ulist(npips)
	rc := proxy.NewRTCache()
	for _, r := range list(rts) {
		p := strings.Split(r, ":")
		fl := u(p[1])
		var f routes.Flags
		if fl&1 != 0 {
			f |= routes.FlagWorkload
		}
		if fl&2 != 0 {
			f |= routes.FlagLocal
		}
		cidr := ip.CIDRFromNetIP(u2ip(u(p[0])))
		rc.Update(routes.NewKeyIntf(cidr), routes.NewValueIntfWithNextHop(f, ip.FromNetIP(u2ip(u(p[2])))))
	}
	syn, err := proxy.NewSyncer(4, ips(s.npIPs), s.fe, s.be, s.mg, s.aff, rc, nil, 31, 0)
	if err != nil {
		panic(err)
	}
	s.syn = syn
}

func (s *state) freshMaps() {
	s.fe = &recMap{Map: mock.NewMockMap(nat.FrontendMapParameters), st: s, front: true}
	s.be = &recMap{Map: mock.NewMockMap(nat.BackendMapParameters), st: s}
	s.mg = mock.NewMockMap(nat.MaglevMapParameters)
	s.aff = mock.NewMockMap(nat.AffinityMapParameters)
}

var _ maps.MapWithExistsCheck = (*recMap)(nil)

func exec(h *rt.H, s *state, op string) (string, string) {
	w := strings.Fields(op)
	s.curOp = op
	switch w[0] {
	case "new":
		s.freshMaps()
		s.newSyncer(w[1], w[2])
		return "ok", op
	case "restart":
		s.newSyncer(w[1], w[2])
		return "ok", op
	case "pokeF":
		k := nat.NewNATKeySrc(u2ip(u(w[1])), uint16(u(w[2])), uint8(u(w[3])), ip.CIDRFromAddrAndPrefix(ip.FromNetIP(u2ip(u(w[4]))), int(u(w[5]))))
		v := nat.NewNATValueWithFlags(u(w[6]), u(w[7]), u(w[8]), u(w[9]), u(w[10]))
		s.fe.Contents[string(k.AsBytes())] = string(v.AsBytes())
		return "ok", op
	case "unpokeF":
		k := nat.NewNATKeySrc(u2ip(u(w[1])), uint16(u(w[2])), uint8(u(w[3])), ip.CIDRFromAddrAndPrefix(ip.FromNetIP(u2ip(u(w[4]))), int(u(w[5]))))
		delete(s.fe.Contents, string(k.AsBytes()))
		return "ok", op
	case "pokeB":
		k := nat.NewNATBackendKey(u(w[1]), u(w[2]))
		v := nat.NewNATBackendValue(u2ip(u(w[3])), uint16(u(w[4])))
		s.be.Contents[string(k.AsBytes())] = string(v.AsBytes())
		return "ok", op
	case "unpokeB":
		k := nat.NewNATBackendKey(u(w[1]), u(w[2]))
		delete(s.be.Contents, string(k.AsBytes()))
		return "ok", op
	case "apply":
		host, zone := w[1], w[2]
		if host == "-" {
			host = ""
		}
		if zone == "-" {
			zone = ""
		}
		fp := u(w[3])
		if strings.HasPrefix(w[len(w)-1], "ids=") { // replayed line: the hint is recomputed from this run
			w = w[:len(w)-1]
		}
		svcs := parseSvcs(w[4:])
		st, tok := buildState(host, zone, svcs)
		pre := s.snapshot()
		s.trace = nil
		s.failKind = map[uint32]string{0: "", 1: "dF", 2: "sB", 3: "sF", 4: "dB"}[fp]
		s.checkPfx, _ = consistent(pre)
		s.pfxBad = false
		err := s.syn.Apply(st)
		s.failKind = ""
		post := s.snapshot()
		if s.checkPfx {
			h.Count("apply:from-consistent")
		} else {
			h.Count("apply:from-inconsistent")
		}
		if err == nil {
			finalOracle(h, s, svcs, post, op)
			// assumption monitor for the unproved half of "lists exactly": distinct service keys that own a
			// backend block (cluster-IP and per-node NodePortRemote keys) never share a NAT service ID
			owner := map[uint32]string{}
			for _, e := range s.syn.VerifSvcIDs() {
				if e.Extra != "" && !strings.HasPrefix(e.Extra, "NodePortRemote:") {
					continue
				}
				me := tok[e.Name] + "/" + e.Extra
				if o, ok := owner[e.ID]; ok && o != me {
					h.OracleFail("id-shared", "two services share one NAT service ID after a completed sync: "+o+" and "+me, map[string]any{"op": op, "id": e.ID})
				}
				owner[e.ID] = me
			}
		}
		h.Count(fmt.Sprintf("apply:writes:%s", bucket(len(s.trace))))
		kinds := map[string]bool{}
		for _, w := range s.trace {
			kinds[w.kind] = true
		}
		h.Count(fmt.Sprintf("apply:phases-with-writes:%d", len(kinds)))
		if len(kinds) >= 3 {
			s.nontriv = true
		}
		return showApply(pre, post, err == nil, s.trace), strings.Join(w, " ") + " " + idHint(s.syn, tok)
	}
	panic("unknown op " + op)
}

func bucket(n int) string {
	switch {
	case n == 0:
		return "0"
	case n < 5:
		return "1-4"
	case n < 20:
		return "5-19"
	default:
		return "20+"
	}
}

// finalOracle: what the property says about the maps once a sync completed (evaluated on the REAL maps).
// The generator never lets two different services claim one frontend address:port:proto.
func finalOracle(h *rt.H, s *state, svcs []svcT, d dp, op string) {
	fail := func(sig, why string) { h.OracleFail(sig, "after a completed sync: "+why, map[string]any{"op": op}) }
	if ok, why := consistent(d); !ok {
		fail("final-inconsistent", why)
		return
	}
	// stale backends removed: every backend entry is counted by some frontend
	for bk := range d.B {
		used := false
		for _, v := range d.F {
			if v.id == bk.id && v.count != blackHole && bk.idx < v.count {
				used = true
				break
			}
		}
		if !used {
			fail("final-stale-backend", fmt.Sprintf("backend (%d,%d) is referenced by no frontend", bk.id, bk.idx))
			return
		}
	}
	inl := func(xs []uint32, x uint32) bool {
		for _, y := range xs {
			if x == y {
				return true
			}
		}
		return false
	}
	// stale frontends removed: every frontend belongs to a current service
	for k := range d.F {
		owned := false
		for _, sv := range svcs {
			if sv.proto != k.proto {
				continue
			}
			zero := k.sip == 0 && k.slen == 0
			srcOK := zero
			for _, r := range sv.src {
				if r[2] == 0 && r[0] == k.sip && r[1] == k.slen {
					srcOK = true
				}
			}
			if k.port == sv.port && ((k.ip == sv.cip && zero) || ((inl(sv.ext, k.ip) || inl(sv.lb, k.ip)) && srcOK)) {
				owned = true
			}
			if sv.np != 0 && k.port == sv.np && zero && (inl(s.npIPs, k.ip) || sv.flags&2 != 0) {
				owned = true // node port on a local address, or a per-node (NodePortRemote) frontend of an internal-local service
			}
		}
		if !owned {
			fail("final-stale-frontend", fmt.Sprintf("frontend %v belongs to no current service", k))
			return
		}
	}
	// each service: cluster IP frontend lists exactly its ready endpoints, local ones first; external,
	// load-balancer and node-port frontends list the same block
	for _, sv := range svcs {
		pk := fkey{sv.cip, sv.port, sv.proto, 0, 0}
		pv, ok := d.F[pk]
		if !ok {
			fail("final-missing-frontend", fmt.Sprintf("service %s has no cluster-IP frontend %v", sv.name, pk))
			return
		}
		plain := !strings.EqualFold(sv.topo, "auto") && !strings.HasPrefix(sv.name, "default/kubernetes")
		var loc, rem []string
		for _, e := range sv.eps {
			if len(e.zh) > 0 || len(e.nh) > 0 {
				plain = false // traffic distribution may narrow the endpoint set
			}
			if e.flags&2 != 0 {
				if e.flags&1 != 0 {
					loc = append(loc, bval{e.ip, e.port}.String())
				} else {
					rem = append(rem, bval{e.ip, e.port}.String())
				}
			}
		}
		if plain && pv.count != blackHole {
			var gl, gr []string
			for i := uint32(0); i < pv.count; i++ {
				bv := d.B[bkey{pv.id, i}]
				if i < pv.lcl {
					gl = append(gl, bv.String())
				} else {
					gr = append(gr, bv.String())
				}
			}
			sort.Strings(loc)
			sort.Strings(rem)
			sort.Strings(gl)
			sort.Strings(gr)
			if strings.Join(gl, ",") != strings.Join(loc, ",") || strings.Join(gr, ",") != strings.Join(rem, ",") {
				fail("final-backends-not-exact", fmt.Sprintf("service %s: frontend lists local=%v remote=%v, ready endpoints are local=%v remote=%v", sv.name, gl, gr, loc, rem))
				return
			}
			h.Count("oracle:exact-checked")
		}
		var v4src bool
		for _, r := range sv.src {
			v4src = v4src || r[2] == 0
		}
		check := func(k fkey, what string) bool {
			v, ok := d.F[k]
			if !ok {
				fail("final-missing-frontend", fmt.Sprintf("service %s has no %s frontend %v", sv.name, what, k))
				return false
			}
			if v.id != pv.id || v.count != pv.count || v.lcl != pv.lcl {
				fail("final-derived-differs", fmt.Sprintf("service %s: %s frontend %v = (id %d,count %d) but cluster IP frontend = (id %d,count %d)", sv.name, what, k, v.id, v.count, pv.id, pv.count))
				return false
			}
			return true
		}
		for _, e := range append(append([]uint32{}, sv.ext...), sv.lb...) {
			if len(sv.src) == 0 {
				if !check(fkey{e, sv.port, sv.proto, 0, 0}, "external/LB") {
					return
				}
			} else {
				for _, r := range sv.src {
					if r[2] == 0 && !check(fkey{e, sv.port, sv.proto, r[0], r[1]}, "source-range") {
						return
					}
				}
			}
		}
		if sv.np != 0 && sv.flags&2 == 0 {
			for _, n := range s.npIPs {
				if !check(fkey{n, sv.np, sv.proto, 0, 0}, "node-port") {
					return
				}
			}
		}
		_ = v4src
	}
}

// ---------------------------------------------------------------- generator

type world struct {
	h     *rt.H
	svcs  []*svcT
	host  string
	zone  string
	npIPs []uint32
}

var (
	namePool  = []string{"default/kubernetes:https", "n1/a:p", "n1/b", "n2/c:q", "n2/d:p", "n3/e", "default/kubernetes:dns"}
	portPool  = []uint32{80, 443, 8080, 53, 30001}
	protoPool = []uint32{6, 6, 17, 132}
	npIPPool  = []uint32{0xC0A80001, 0x0A7B0001, 0xffffffff}
	nodePool  = []uint32{0xAC100001, 0xAC100002, 0xAC100003}
	zonePool  = []string{"z1", "z2"}
	hostPool  = []string{"h1", "h2"}
	topoPool  = []string{"", "", "", "Auto", "auto", "Disabled"}
)

const (
	cipBase = 0x0A600000 // 10.96.0.x
	extBase = 0x23000000 // 35.0.0.x  (external + LB VIP pool)
	epBase  = 0x0A010000 // 10.1.0.x
)

func (w *world) usedIPs(except *svcT) map[uint32]bool {
	m := map[uint32]bool{}
	for _, s := range w.svcs {
		if s == except {
			continue
		}
		m[s.cip] = true
		for _, x := range s.ext {
			m[x] = true
		}
		for _, x := range s.lb {
			m[x] = true
		}
	}
	return m
}

func (w *world) freeIP(base uint32, n int, except *svcT) uint32 {
	used := w.usedIPs(except)
	for try := 0; try < 50; try++ {
		c := base + 1 + uint32(w.h.Intn(n))
		if !used[c] {
			return c
		}
	}
	for c := base + 100; ; c++ { // pool exhausted: first unused address above the pool
		if !used[c] {
			return c
		}
	}
}

func (w *world) freeNP(except *svcT) uint32 {
	for try := 0; try < 50; try++ {
		c := 30000 + uint32(w.h.Intn(8))
		ok := true
		for _, s := range w.svcs {
			if s != except && s.np == c {
				ok = false
			}
		}
		if ok {
			return c
		}
	}
	return 0
}

func (w *world) genEp() epT {
	h := w.h
	e := epT{ip: epBase + 1 + uint32(h.Intn(10)), port: rt.Pick(h, []uint32{8080, 9090})}
	switch h.Intn(10) {
	case 0:
		e.flags = 0 // not ready
	case 1:
		e.flags = 4 | 8 // serving, terminating
	case 2:
		e.flags = 8
	default:
		e.flags = 2 | 4
	}
	if h.Chance(0.4) {
		e.flags |= 1
	}
	if h.Chance(0.3) {
		e.zh = []string{rt.Pick(h, zonePool)}
		if h.Chance(0.2) {
			e.zh = []string{"z1", "z2"}
		}
	}
	if h.Chance(0.15) {
		e.nh = []string{rt.Pick(h, hostPool)}
	}
	return e
}

func (w *world) genIPList(s *svcT, max int) []uint32 {
	h := w.h
	var out []uint32
	n := 0
	if h.Chance(0.5) {
		n = 1 + h.Intn(max)
	}
	for i := 0; i < n; i++ {
		c := w.freeIP(extBase, 8, s)
		dup := false
		for _, x := range out {
			dup = dup || x == c
		}
		if !dup {
			out = append(out, c)
		}
	}
	return out
}

func (w *world) genSrc() [][3]uint32 {
	h := w.h
	if !h.Chance(0.3) {
		return nil
	}
	pool := [][3]uint32{{0x23000100, 24, 0}, {0x21000000, 16, 0}, {0x0B000000, 8, 0}, {0x01020300, 64, 1}, {0x23000102, 32, 0}}
	var out [][3]uint32
	for _, i := range h.Rng.Perm(len(pool))[:1+h.Intn(3)] {
		out = append(out, pool[i])
	}
	return out
}

func (w *world) addSvc() {
	h := w.h
	var free []string
	for _, n := range namePool {
		used := false
		for _, s := range w.svcs {
			used = used || s.name == n
		}
		if !used {
			free = append(free, n)
		}
	}
	if len(free) == 0 {
		return
	}
	s := &svcT{name: rt.Pick(h, free), aff: -1}
	s.cip = w.freeIP(cipBase, 8, s)
	s.port = rt.Pick(h, portPool)
	s.proto = rt.Pick(h, protoPool)
	w.svcs = append(w.svcs, s)
	if h.Chance(0.5) {
		s.np = w.freeNP(s)
	}
	s.ext = w.genIPList(s, 2)
	s.lb = w.genIPList(s, 2)
	if len(s.ext) > 0 && h.Chance(0.1) {
		s.lb = append(s.lb, s.ext[0]) // LB VIP == external IP of the same service
	}
	if len(s.ext)+len(s.lb) > 0 || h.Chance(0.1) {
		s.src = w.genSrc()
	}
	if h.Chance(0.25) {
		s.aff = rt.Pick(h, []int{0, 10800, 60})
	}
	s.flags = uint32(rt.Pick(h, []int{0, 0, 0, 1, 2, 3, 4, 8, 7}))
	if h.Chance(0.2) {
		s.hc = 32000 + uint32(h.Intn(3))
	}
	s.topo = rt.Pick(h, topoPool)
	for i, n := 0, h.Intn(5); i < n; i++ {
		s.eps = append(s.eps, w.genEp())
	}
}

func (w *world) mutate() {
	h := w.h
	if len(w.svcs) == 0 || h.Chance(0.2) {
		w.addSvc()
		return
	}
	i := h.Intn(len(w.svcs))
	s := w.svcs[i]
	switch h.Intn(22) {
	case 0:
		w.svcs = append(w.svcs[:i:i], w.svcs[i+1:]...)
	case 1:
		s.port = rt.Pick(h, portPool)
	case 2:
		if s.np == 0 || h.Bool() {
			s.np = w.freeNP(s)
		} else {
			s.np = 0
		}
	case 3:
		s.ext = w.genIPList(s, 2)
	case 4:
		s.lb = w.genIPList(s, 2)
	case 5:
		s.src = w.genSrc()
	case 6:
		if s.aff < 0 {
			s.aff = rt.Pick(h, []int{0, 10800, 60})
		} else {
			s.aff = -1
		}
	case 7:
		s.flags ^= uint32(1 << h.Intn(4))
	case 8:
		s.hc = uint32(rt.Pick(h, []int{0, 32000, 32001}))
	case 9:
		s.topo = rt.Pick(h, topoPool)
	case 10:
		s.cip = w.freeIP(cipBase, 8, s)
	case 11:
		s.proto = rt.Pick(h, protoPool)
	case 12, 13, 14:
		s.eps = append(s.eps, w.genEp())
	case 15, 16:
		if len(s.eps) > 0 {
			j := h.Intn(len(s.eps))
			s.eps = append(s.eps[:j:j], s.eps[j+1:]...)
		}
	case 17, 18:
		if len(s.eps) > 0 {
			s.eps[h.Intn(len(s.eps))].flags ^= uint32(1 << h.Intn(4))
		}
	case 19:
		for j := range s.eps { // everything becomes unready (API server fallback path)
			s.eps[j].flags &^= 2
		}
	case 20:
		if len(s.eps) > 1 {
			h.Rng.Shuffle(len(s.eps), func(a, b int) { s.eps[a], s.eps[b] = s.eps[b], s.eps[a] })
		}
	case 21:
		if h.Bool() {
			w.zone = rt.Pick(h, zonePool)
		} else {
			w.host = rt.Pick(h, hostPool)
		}
	}
}

func (w *world) applyOp(fp int) string {
	ws := []string{"apply", w.host, w.zone, strconv.Itoa(fp)}
	for _, i := range w.h.Rng.Perm(len(w.svcs)) {
		ws = append(ws, w.svcs[i].words()...)
	}
	return strings.Join(ws, " ")
}

func (w *world) syncerArgs() string {
	h := w.h
	var np []uint32
	for _, x := range npIPPool {
		if h.Chance(0.6) {
			np = append(np, x)
		}
	}
	w.npIPs = np
	var rts []string
	for i := 1; i <= 10; i++ {
		switch h.Intn(6) {
		case 0: // no route
		case 1:
			rts = append(rts, fmt.Sprintf("%d:3:0", epBase+uint32(i)))
		case 2:
			rts = append(rts, fmt.Sprintf("%d:0:%d", epBase+uint32(i), rt.Pick(h, nodePool)))
		default:
			rts = append(rts, fmt.Sprintf("%d:1:%d", epBase+uint32(i), rt.Pick(h, nodePool)))
		}
	}
	return joinU(np) + " " + joinS(rts)
}

// pokes: other writers / crash left-overs in the pinned maps while no syncer is running.
func (w *world) pokes() []string {
	h := w.h
	var out []string
	for i, n := 0, h.Intn(4); i < n; i++ {
		switch h.Intn(4) {
		case 0, 1:
			var ipa, port, proto uint32
			if len(w.svcs) > 0 && h.Chance(0.8) {
				s := rt.Pick(h, w.svcs)
				proto = s.proto
				cands := [][2]uint32{{s.cip, s.port}}
				for _, e := range s.ext {
					cands = append(cands, [2]uint32{e, s.port})
				}
				for _, e := range s.lb {
					cands = append(cands, [2]uint32{e, s.port})
				}
				if s.np != 0 {
					for _, n := range w.npIPs {
						cands = append(cands, [2]uint32{n, s.np})
					}
					cands = append(cands, [2]uint32{s.cip, s.np})
				}
				c := rt.Pick(h, cands)
				ipa, port = c[0], c[1]
			} else {
				ipa, port, proto = cipBase+1+uint32(h.Intn(8)), rt.Pick(h, portPool), rt.Pick(h, protoPool)
			}
			out = append(out, fmt.Sprintf("pokeF %d %d %d 0 0 %d %d %d %d %d", ipa, port, proto, h.Intn(8), h.Intn(4), h.Intn(2), rt.Pick(h, []int{0, 60}), h.Intn(4)))
		case 2:
			out = append(out, fmt.Sprintf("pokeB %d %d %d %d", h.Intn(8), h.Intn(4), epBase+1+uint32(h.Intn(10)), 8080))
		case 3:
			out = append(out, fmt.Sprintf("unpokeB %d %d", h.Intn(8), h.Intn(3)))
		}
	}
	return out
}

func genCase(h *rt.H) []string {
	w := &world{h: h, host: rt.Pick(h, hostPool), zone: rt.Pick(h, zonePool)}
	ops := []string{"new " + w.syncerArgs()}
	if h.Chance(0.15) { // start-up over maps somebody else already wrote
		ops = append(ops, w.pokes()...)
		ops = append(ops, "restart "+w.syncerArgs())
	}
	for i, n := 0, 1+h.Intn(3); i < n; i++ {
		w.addSvc()
	}
	steps := 3 + h.Intn(10)
	for i := 0; i < steps; i++ {
		if i > 0 {
			for j, n := 0, 1+h.Intn(3); j < n; j++ {
				w.mutate()
			}
		}
		fp := 0
		if h.Chance(0.12) {
			fp = 1 + h.Intn(4)
		}
		ops = append(ops, w.applyOp(fp))
		if h.Chance(0.12) {
			if h.Chance(0.5) {
				ops = append(ops, w.pokes()...)
			}
			ops = append(ops, "restart "+w.syncerArgs())
		}
	}
	return ops
}

func main() {
	h := rt.New()
	defer h.Close()
	h.Rule = "case = new syncer (random node-port IPs, /32 routes) [+ foreign writes + restart] then 3..12 syncs of an evolving service/endpoint state " +
		"(add/remove/change services: ports, node ports, external/LB IPs, source ranges, affinity, traffic policy, topology mode, protocol; endpoints: add/remove/ready/local/hints), " +
		"12% of syncs with every write of one phase failing, 12% followed by [foreign writes +] restart; no two services share a frontend address:port:proto; " +
		"distinct = distinct op sequence; non-trivial = some sync performed writes in >= 3 phases"
	run := func(ops []string, tag string) {
		h.Case(tag)
		s := &state{h: h}
		s.freshMaps()
		s.newSyncer("-", "-")
		for _, op := range ops {
			out, rec := exec(h, s, op)
			h.Op(rec, out)
			h.Count("op:" + strings.Fields(op)[0])
			if strings.HasPrefix(out, "err") {
				h.Count("apply:err")
			}
		}
		if s.syn != nil {
			s.syn.Stop()
		}
		if s.nontriv {
			h.Nontrivial(strings.Join(ops, ";"))
		}
		h.Sample()
	}
	if h.Replay != "" {
		run(h.ReplayLines(), "replay")
		return
	}
	for i := 0; i < h.N; i++ {
		run(genCase(h), "gen")
	}
}
