// C26 correspondence harness: drives the real watchersyncer package
// synchronously.  One `call` op runs ONE real
// watcherCache.resyncAndLoopReadingFromWatcher on the harness goroutine against a
// scripted api.Client (List / Watch-create outcomes, then a pre-filled, closed
// watch channel), drains the real results channel and feeds the results through the
// real watcherSyncer.processResult / sendUpdates.  No goroutines, no sleeps (the
// package's retry intervals are set to 0; "retry timeout elapsed" is scripted).
package main

import (
	"context"
	"errors"
	"fmt"
	"sort"
	"strconv"
	"strings"
	"time"

	kerrors "k8s.io/apimachinery/pkg/api/errors"
	"k8s.io/apimachinery/pkg/runtime/schema"

	"github.com/projectcalico/calico/libcalico-go/lib/backend/api"
	apiv3 "github.com/projectcalico/api/pkg/apis/projectcalico/v3"

	"github.com/projectcalico/calico/libcalico-go/lib/backend/model"
	"github.com/projectcalico/calico/libcalico-go/lib/backend/syncersv1/updateprocessors"
	"github.com/projectcalico/calico/libcalico-go/lib/backend/watchersyncer"
	cerrors "github.com/projectcalico/calico/libcalico-go/lib/errors"

	"verif/harness/rt"
)

type kvT struct {
	key, rev int
	del      bool
}

func mkKey(k int) model.Key { return model.ResourceKey{Kind: "IPPool", Name: "k" + strconv.Itoa(k)} }
func keyID(k model.Key) int {
	if pk, ok := k.(model.IPPoolKey); ok {
		// v1 IPPool key produced by the real IPPool update processor: 10.<g>.0.0/16 -> 300+g
		return 300 + int(pk.CIDR.Addr().As4()[1])
	}
	n, err := strconv.Atoi(strings.TrimPrefix(k.(model.ResourceKey).Name, "k"))
	if err != nil {
		panic(err)
	}
	return n
}
func revID(s string) int {
	if s == "" {
		return 0
	}
	n, err := strconv.Atoi(s)
	if err != nil {
		panic(err)
	}
	return n
}
// poolValues: raw values are real v3 IPPools (mode 2: the real conflict-resolving IPPool update processor); the
// pool's CIDR, hence its v1 key, is 10.<rev%3>.0.0/16.
var poolValues bool

func mkKVP(kv kvT) *model.KVPair {
	p := &model.KVPair{Key: mkKey(kv.key), Revision: strconv.Itoa(kv.rev)}
	if !kv.del {
		if poolValues {
			pool := apiv3.NewIPPool()
			pool.Name = "k" + strconv.Itoa(kv.key)
			pool.Spec.CIDR = fmt.Sprintf("10.%d.0.0/16", kv.rev%3)
			p.Value = pool
		} else {
			p.Value = "v" + strconv.Itoa(kv.rev)
		}
	}
	return p
}

func parseKV(w string) kvT {
	f := strings.Split(w, ".")
	k, _ := strconv.Atoi(f[0])
	r, _ := strconv.Atoi(f[1])
	return kvT{k, r, f[2] != "0"}
}
func parseKVs(w string) []kvT {
	if w == "" {
		return nil
	}
	var out []kvT
	for _, x := range strings.Split(w, "/") {
		out = append(out, parseKV(x))
	}
	return out
}

// conv1 is the harness's UpdateProcessor (same definition as the model's `conv1`).
func conv1(kv kvT) ([]kvT, bool) {
	if kv.rev%5 == 0 {
		return []kvT{{kv.key + 100, kv.rev, true}}, true
	}
	return []kvT{{kv.key + 100, kv.rev, kv.del}, {kv.key + 200, kv.rev, kv.del || kv.rev%2 == 1}}, false
}

type processor struct{}

func (processor) Process(p *model.KVPair) ([]*model.KVPair, error) {
	in := kvT{keyID(p.Key), revID(p.Revision), p.Value == nil}
	out, bad := conv1(in)
	var res []*model.KVPair
	for _, kv := range out {
		res = append(res, mkKVP(kv))
	}
	if bad {
		return res, errors.New("conversion failed")
	}
	return res, nil
}
func (processor) OnSyncerStarting() {}

// recorder wraps the processor under test and counts OnSyncerStarting calls (compared with the model op for op).
type recorder struct {
	inner  watchersyncer.SyncerUpdateProcessor
	resets int
}

func (r *recorder) Process(p *model.KVPair) ([]*model.KVPair, error) { return r.inner.Process(p) }
func (r *recorder) OnSyncerStarting()                                 { r.resets++; r.inner.OnSyncerStarting() }

// newProcessor returns a FRESH processor of the kind the case uses (nil for mode 0).
func newProcessor(mode int) watchersyncer.SyncerUpdateProcessor {
	switch mode {
	case 0:
		return nil
	case 1:
		return processor{}
	default:
		return updateprocessors.NewIPPoolUpdateProcessor()
	}
}

// freshConvert is the property's reference: the datastore contents `kvs` (a listed snapshot followed by the watch
// events processed since) converted by a FRESH processor, folded into key -> revision.
func freshConvert(mode int, kvs []kvT) map[int]int {
	out := map[int]int{}
	p := newProcessor(mode)
	for _, kv := range kvs {
		res := []*model.KVPair{mkKVP(kv)}
		if p != nil {
			res, _ = p.Process(mkKVP(kv))
		}
		for _, r := range res {
			if r.Value == nil {
				delete(out, keyID(r.Key))
			} else {
				out[keyID(r.Key)] = revID(r.Revision)
			}
		}
	}
	return out
}

// ---- scripted client -----------------------------------------------------------------------

type listOut struct {
	kind    string // ok nf ex ot
	elapsed bool
	rev     int
	kvs     []kvT
}
type script struct {
	lists   []listOut
	watches []string // ex cr0 cr1 ns ot
	fin     *listOut
	evs     []string
}

type fakeClient struct {
	api.Client // nil: any other method panics
	cancel     context.CancelFunc
	nLists     int // List calls made during the current op
	s          *state
	cache      int
	sc         *script
	lastList   *listOut // last successful list consumed in the current call
	wiped      bool
}

func (c *fakeClient) List(ctx context.Context, l model.ListInterface, revision string) (*model.KVPairList, error) {
	lo := *c.sc.fin
	if len(c.sc.lists) > 0 {
		lo = c.sc.lists[0]
		c.sc.lists = c.sc.lists[1:]
	}
	c.s.h.Count("list:" + lo.kind)
	c.nLists++
	switch lo.kind {
	case "nf":
		// "backing API not installed" is treated by the code as a completed (empty-handed) sync; cached
		// resources are NOT revalidated by it.
		c.s.listed[c.cache] = true
		return nil, kerrors.NewNotFound(schema.GroupResource{Resource: "widgets"}, "x")
	case "ex":
		return nil, kerrors.NewResourceExpired("too old")
	case "ot":
		c.s.v.SetRetryElapsed(c.cache, lo.elapsed)
		return nil, errors.New("list failed")
	case "poll", "pollE":
		// An empty List with a zero ("0") or empty revision: the cache reverts to polling.  Make the poll sleep
		// long and cancel the context, so that the call returns deterministically while the cache is in its polling
		// steady state (the throttle channel is not ready, only ctx.Done() is).
		watchersyncer.WatchPollInterval = time.Hour
		c.cancel()
		c.lastList = &listOut{kind: "ok"}
		c.s.listed[c.cache] = true
		rev := "0"
		if lo.kind == "pollE" {
			rev = ""
		}
		return &model.KVPairList{Revision: rev}, nil
	}
	c.lastList = &lo
	c.s.listed[c.cache] = true
	res := &model.KVPairList{Revision: strconv.Itoa(lo.rev)}
	for _, kv := range lo.kvs {
		res.KVPairs = append(res.KVPairs, mkKVP(kv))
	}
	return res, nil
}

type fakeWatch struct{ c chan api.WatchEvent }

func (w *fakeWatch) Stop()                            {}
func (w *fakeWatch) ResultChan() <-chan api.WatchEvent { return w.c }
func (w *fakeWatch) HasTerminated() bool              { return true }

func (c *fakeClient) Watch(ctx context.Context, l model.ListInterface, o api.WatchOptions) (api.WatchInterface, error) {
	wo := "ok"
	if len(c.sc.watches) > 0 {
		wo = c.sc.watches[0]
		c.sc.watches = c.sc.watches[1:]
	}
	c.s.h.Count("watch:" + wo)
	switch wo {
	case "ex":
		return nil, kerrors.NewGone("gone")
	case "cr0", "cr1":
		c.s.v.SetRetryElapsed(c.cache, wo == "cr1")
		return nil, kerrors.NewTooManyRequests("slow down", 1)
	case "ns":
		return nil, cerrors.ErrorOperationNotSupported{Operation: "Watch", Identifier: l}
	case "ot":
		return nil, errors.New("watch failed")
	}
	ch := make(chan api.WatchEvent, len(c.sc.evs)+1)
	for _, e := range c.sc.evs {
		f := strings.Split(e, ":")
		switch f[1] {
		case "up":
			ch <- api.WatchEvent{Type: api.WatchModified, New: mkKVP(parseKV(f[2]))}
		case "del":
			kv := parseKV(f[2])
			kv.del = false
			ch <- api.WatchEvent{Type: api.WatchDeleted, Old: mkKVP(kv)}
		case "bm":
			ch <- api.WatchEvent{Type: api.WatchBookmark, New: &model.KVPair{Revision: f[2]}}
		case "ex":
			ch <- api.WatchEvent{Type: api.WatchError, Error: kerrors.NewResourceExpired("expired")}
		case "ot":
			ch <- api.WatchEvent{Type: api.WatchError, Error: errors.New("watch broke")}
		case "un":
			ch <- api.WatchEvent{Type: api.WatchEventType("BOGUS")}
		}
	}
	close(ch)
	return &fakeWatch{ch}, nil
}

// ---- callbacks recorder -----------------------------------------------------------------------

type tok struct {
	isDel bool
	key   int
	s     string
}

func canon(ts []tok) string {
	var out []string
	var run []tok
	flush := func() {
		sort.SliceStable(run, func(i, j int) bool { return run[i].key < run[j].key })
		for _, t := range run {
			out = append(out, t.s)
		}
		run = nil
	}
	for _, t := range ts {
		if t.isDel {
			run = append(run, t)
		} else {
			flush()
			out = append(out, t.s)
		}
	}
	flush()
	return strings.Join(out, " ")
}

func updTok(u api.Update) tok {
	return tok{u.UpdateType == api.UpdateTypeKVDeleted, keyID(u.Key), fmt.Sprintf("%d.%d.%d", keyID(u.Key), revID(u.Revision), int(u.UpdateType))}
}

type state struct {
	h       *rt.H
	v       *watchersyncer.VerifWS
	clients []*fakeClient
	n       int
	proc    int
	cbs     []tok
	// oracle state
	down       map[int]int // downstream view key -> rev (fold of OnUpdates)
	lastStatus int
	expect     []map[int]int // per cache: what its part of the datastore (after conversion) holds
	staleConverter bool      // the last op made fewer OnSyncerStarting calls than Lists
	recs       []*recorder   // per cache: the recording wrapper around its update processor (nil in mode 0)
	since      [][]kvT       // per cache: the last successfully listed snapshot followed by the events processed since
	listed     []bool
	cacheSt    []int
	trace      []string
}

func (s *state) fail(sig, desc string, extra map[string]any) {
	extra["trace"] = append([]string(nil), s.trace...)
	s.h.OracleFail(sig, desc, extra)
}

func (s *state) OnStatusUpdated(st api.SyncStatus) {
	s.cbs = append(s.cbs, tok{s: fmt.Sprintf("s%d", int(st))})
	s.lastStatus = int(st)
	if st == api.InSync {
		for i, ok := range s.listed {
			if !ok {
				s.fail("insync-before-all-listed", "syncer reported InSync although a resource type has never completed a list", map[string]any{"cache": i})
			}
		}
	}
}

func (s *state) OnUpdates(us []api.Update) {
	if s.lastStatus == int(api.WaitForDatastore) {
		s.fail("updates-while-waiting", "syncer delivered updates while its status is WaitForDatastore", map[string]any{})
	}
	for _, u := range us {
		s.cbs = append(s.cbs, updTok(u))
		if u.UpdateType == api.UpdateTypeKVDeleted {
			delete(s.down, keyID(u.Key))
		} else {
			s.down[keyID(u.Key)] = revID(u.Revision)
		}
	}
}

func (s *state) SyncFailed(err error) { s.cbs = append(s.cbs, tok{s: "F"}) }

// ---- exec ------------------------------------------------------------------------------------------

func (s *state) finish(cache int, rs []watchersyncer.VerifResult) string {
	var rt []tok
	for _, r := range rs {
		switch r.Kind {
		case "status":
			rt = append(rt, tok{s: fmt.Sprintf("S%d", int(r.Status))})
			s.cacheSt[cache] = int(r.Status)
		case "updates":
			if s.cacheSt[cache] == int(api.WaitForDatastore) {
				s.fail("cache-updates-while-waiting", "a watcher cache emitted updates while its own status is WaitForDatastore", map[string]any{"cache": cache})
			}
			for _, u := range r.Updates {
				rt = append(rt, updTok(u))
			}
		case "backend-error":
			rt = append(rt, tok{s: "BE"})
		case "error":
			rt = append(rt, tok{s: "CE"})
		default:
			panic("unknown result kind")
		}
	}
	s.cbs = nil
	s.v.Process(rs)
	resets := 0
	if s.recs[cache] != nil {
		resets = s.recs[cache].resets
		s.recs[cache].resets = 0
	}
	// the code's rule: one OnSyncerStarting before every List; fewer means the converter kept stale state
	s.staleConverter = s.recs[cache] != nil && resets < s.clients[cache].nLists
	return "R: " + canon(rt) + " C: " + canon(s.cbs) + " N=" + strconv.Itoa(resets)
}

func exec(h *rt.H, s *state, op string) string {
	w := strings.Fields(op)
	s.trace = append(s.trace, op)
	switch w[0] {
	case "new":
		n, _ := strconv.Atoi(w[1])
		p, _ := strconv.Atoi(w[2])
		sd, _ := strconv.Atoi(w[3])
		*s = state{h: h, n: n, proc: p, down: map[int]int{}, trace: []string{op}}
		poolValues = p >= 2
		clients := map[string]api.Client{}
		var rts []watchersyncer.ResourceType
		for i := 0; i < n; i++ {
			c := &fakeClient{s: s, cache: i}
			s.clients = append(s.clients, c)
			id := "c" + strconv.Itoa(i)
			clients[id] = c
			r := watchersyncer.ResourceType{ListInterface: model.ResourceListOptions{Kind: "IPPool"}, ClientID: id, SendDeletesOnConnFail: sd != 0}
			if p != 0 {
				rec := &recorder{inner: newProcessor(p)}
				r.UpdateProcessor = rec
				s.recs = append(s.recs, rec)
			} else {
				s.recs = append(s.recs, nil)
			}
			rts = append(rts, r)
			s.since = append(s.since, nil)
			s.expect = append(s.expect, map[int]int{})
			s.listed = append(s.listed, false)
			s.cacheSt = append(s.cacheSt, 0)
		}
		s.v = watchersyncer.VerifWrap(watchersyncer.NewMultiClient(clients, rts, s))
		return "ok"
	case "call":
		i, _ := strconv.Atoi(w[1])
		sc := &script{}
		for _, t := range w[2:] {
			f := strings.Split(t, ":")
			switch f[0] {
			case "L":
				switch f[1] {
				case "nf", "ex", "poll", "pollE":
					sc.lists = append(sc.lists, listOut{kind: f[1]})
				case "ot0", "ot1":
					sc.lists = append(sc.lists, listOut{kind: "ot", elapsed: f[1] == "ot1"})
				case "ok":
					r, _ := strconv.Atoi(f[2])
					sc.lists = append(sc.lists, listOut{kind: "ok", rev: r, kvs: parseKVs(f[3])})
				}
			case "W":
				sc.watches = append(sc.watches, f[1])
			case "F":
				r, _ := strconv.Atoi(f[1])
				sc.fin = &listOut{kind: "ok", rev: r, kvs: parseKVs(f[2])}
			case "E":
				sc.evs = append(sc.evs, t)
			}
		}
		if sc.fin == nil || i >= s.n {
			return "bad-op"
		}
		for _, lo := range sc.lists {
			if (lo.kind == "poll" || lo.kind == "pollE") && len(sc.evs) > 0 {
				return "bad-op" // a call that ends polling has no watch, hence no events
			}
		}
		c := s.clients[i]
		c.sc, c.lastList, c.nLists = sc, nil, 0
		evs := append([]string(nil), sc.evs...)
		ctx, cancel := context.WithCancel(context.Background())
		c.cancel = cancel
		rs := s.v.CallCtx(ctx, i)
		cancel()
		watchersyncer.WatchPollInterval = 0
		out := s.finish(i, rs)
		// ---- property oracle: convergence to the datastore's current contents, converted by a FRESH processor ----
		if c.lastList != nil {
			s.since[i] = append([]kvT(nil), c.lastList.kvs...)
		}
		for _, e := range evs {
			f := strings.Split(e, ":")
			if f[1] == "ex" || f[1] == "ot" {
				break
			}
			if f[1] == "up" || f[1] == "del" {
				kv := parseKV(f[2])
				kv.del = f[1] == "del"
				s.since[i] = append(s.since[i], kv)
			}
		}
		s.expect[i] = freshConvert(s.proc, s.since[i])
		s.checkConverged()
		return out
	case "stop":
		i, _ := strconv.Atoi(w[1])
		if i >= s.n {
			return "bad-op"
		}
		s.clients[i].nLists = 0
		out := s.finish(i, s.v.StopCache(i))
		s.expect[i] = map[int]int{}
		s.since[i] = nil
		s.checkConverged()
		return out
	case "dump":
		i, _ := strconv.Atoi(w[1])
		if i >= s.n {
			return "bad-op"
		}
		d := s.v.Dump(i)
		mp := func(m map[string]string) string {
			var ps []string
			ids := []int{}
			byID := map[int]string{}
			for k, r := range m {
				// key string of a ResourceKey: Widget(k<id>)
				var id int
				if i := strings.Index(k, "(k"); i >= 0 {
					id, _ = strconv.Atoi(strings.TrimSuffix(k[i+2:], ")"))
				} else if i := strings.Index(k, "10."); i >= 0 { // v1 IPPool key: ...10.<g>.0.0/16...
					var g int
					fmt.Sscanf(k[i:], "10.%d.", &g)
					id = 300 + g
				} else {
					panic("cannot map cache key " + k)
				}
				ids = append(ids, id)
				byID[id] = r
			}
			sort.Ints(ids)
			for _, id := range ids {
				ps = append(ps, fmt.Sprintf("%d:%d", id, revID(byID[id])))
			}
			return strings.Join(ps, ",")
		}
		old := "nil"
		if !d.OldIsNil {
			old = mp(d.OldResources)
		}
		b := func(x bool) string {
			if x {
				return "1"
			}
			return "0"
		}
		cs := make([]string, s.n)
		for j := range cs {
			cs[j] = strconv.Itoa(s.cacheSt[j])
		}
		return fmt.Sprintf("res=%s old=%s rev=%d err=%d st=%d crd=%s lp=%s wp=%s conn=%s ws=%d cs=%s", mp(d.Resources), old, revID(d.Revision),
			d.ErrorCount, int(d.Status), b(d.CRDInstalled), b(d.ListPolling), b(d.WatchPolling), b(d.Connected), int(s.v.SyncerStatus()), strings.Join(cs, ","))
	}
	panic("unknown op " + op)
}

// checkConverged: each cache's keys are disjoint by construction only when n == 1; with several caches all
// caches watch the same key space, so convergence is checked only for single-cache cases.
func (s *state) checkConverged() {
	if s.n != 1 {
		return
	}
	s.h.Count("oracle:converged-checked")
	if fmt.Sprint(s.down) != fmt.Sprint(s.expect[0]) {
		sig := "consumer-view-differs-from-datastore"
		if s.staleConverter {
			sig = "converter-stale-state"
		}
		s.fail(sig, "after a completed list and the watch events that followed, the accumulated update stream differs from the datastore contents after conversion",
			map[string]any{"downstream": fmt.Sprint(s.down), "datastore": fmt.Sprint(s.expect[0])})
	}
}

// ---- generator -------------------------------------------------------------------------------------------

type gen struct {
	h    *rt.H
	rev  int
	revs map[int]int
}

func (g *gen) kv(delOK bool) string {
	k := g.h.Intn(6)
	if g.h.Chance(0.25) && g.revs[k] > 0 {
		return fmt.Sprintf("%d.%d.0", k, g.revs[k]) // unchanged revision: must be swallowed
	}
	g.rev++
	g.revs[k] = g.rev
	d := 0
	if delOK && g.h.Chance(0.1) {
		d = 1
	}
	return fmt.Sprintf("%d.%d.%d", k, g.rev, d)
}

func (g *gen) list() string {
	seen := map[int]bool{}
	var parts []string
	for i := g.h.Intn(6); i > 0; i-- {
		kv := g.kv(true)
		k, _ := strconv.Atoi(strings.Split(kv, ".")[0])
		if seen[k] && g.h.Chance(0.8) {
			continue
		}
		seen[k] = true
		parts = append(parts, kv)
	}
	g.rev++
	return fmt.Sprintf("%d:%s", g.rev, strings.Join(parts, "/"))
}

func (g *gen) call(n int) string {
	op := fmt.Sprintf("call %d", g.h.Intn(n))
	for i := rt.Pick(g.h, []int{0, 0, 0, 1, 1, 2, 3, 6}); i > 0; i-- {
		switch x := g.h.Intn(10); {
		case x < 2:
			op += " L:nf"
		case x < 4:
			op += " L:ex"
		case x < 5:
			op += " L:ot0"
		case x < 7:
			op += " L:ot1"
		case x < 8:
			op += " L:ok:0:"
		default:
			op += " L:ok:" + g.list()
		}
	}
	for i := rt.Pick(g.h, []int{0, 0, 0, 1, 1, 2, 3, 7}); i > 0; i-- {
		op += " W:" + rt.Pick(g.h, []string{"ex", "cr0", "cr1", "ns", "ot", "ot", "ot"})
	}
	op += " F:" + g.list()
	for i := g.h.Intn(7); i > 0; i-- {
		switch x := g.h.Intn(20); {
		case x < 9:
			op += " E:up:" + g.kv(false)
		case x < 13:
			kv := g.kv(false)
			op += " E:del:" + kv
		case x < 15:
			g.rev++
			op += fmt.Sprintf(" E:bm:%d", g.rev)
		case x < 16:
			op += " E:ex"
		case x < 19:
			op += " E:ot"
		default:
			op += " E:un"
		}
	}
	return op
}

// relist: TWO successful Lists inside one call (the Watch after the first one fails in a way that forces a
// re-List) with a relevant change in between: two resources sharing a v1 index (rev%3) of which the primary
// vanishes, or a resource deleted and re-created under another index.
func (g *gen) relist(n int) string {
	a := g.h.Intn(5)
	b := a + 1 + g.h.Intn(5-a)
	g.rev++
	r1 := g.rev
	g.rev++
	for g.rev%3 != r1%3 {
		g.rev++
	}
	r2 := g.rev
	g.revs[a], g.revs[b] = r1, r2
	first := fmt.Sprintf("%d.%d.0/%d.%d.0", a, r1, b, r2)
	if g.h.Chance(0.4) {
		first += "/" + g.kv(false)
	}
	g.rev++
	op := fmt.Sprintf("call %d L:ok:%d:%s", g.h.Intn(n), g.rev, first)
	switch g.h.Intn(4) {
	case 0:
		op += " W:ex"
	case 1:
		op += " W:ns"
	case 2:
		op += " W:ot W:ot W:ot W:ot W:ot"
	default:
		op += " W:cr1"
	}
	var second string
	switch g.h.Intn(4) {
	case 0: // the primary vanished, the secondary is unchanged
		second = fmt.Sprintf("%d.%d.0", b, r2)
	case 1: // the secondary vanished
		second = fmt.Sprintf("%d.%d.0", a, r1)
	case 2: // the primary was deleted and re-created (new revision, usually another index)
		g.rev++
		g.revs[a] = g.rev
		second = fmt.Sprintf("%d.%d.0/%d.%d.0", a, g.rev, b, r2)
	default: // both still there, listed in the other order
		second = fmt.Sprintf("%d.%d.0/%d.%d.0", b, r2, a, r1)
	}
	g.rev++
	op += fmt.Sprintf(" F:%d:%s", g.rev, second)
	for i := g.h.Intn(3); i > 0; i-- {
		if g.h.Bool() {
			op += " E:up:" + g.kv(false)
		} else {
			op += " E:del:" + g.kv(false)
		}
	}
	return op
}

// vanish: a populated List with a real revision and a watch, then a forced full resync (410 on the watch,
// MaxErrorsPerRevision watch errors, or an expired Watch-create) whose List returns ZERO items with revision
// "0" or "": everything the cache held has vanished.  The second call is observed in its polling steady state.
func (g *gen) vanish(n int) []string {
	i := g.h.Intn(n)
	a := fmt.Sprintf("call %d F:%s", i, g.list())
	for j := g.h.Intn(3); j > 0; j-- {
		a += " E:up:" + g.kv(false)
	}
	b := fmt.Sprintf("call %d", i)
	switch g.h.Intn(4) {
	case 0:
		a += " E:ex" // 410 Gone / resource expired on the watch
	case 1:
		a += " E:ot E:ot E:ot E:ot E:ot" // MaxErrorsPerRevision
	case 2:
		b += " W:ex" // the next Watch-create says the revision is too old
	default:
		a += " E:ot"
		b += " W:ot W:ot W:ot W:ot W:cr1"
	}
	for j := g.h.Intn(3); j > 0; j-- {
		b += rt.Pick(g.h, []string{" L:ex", " L:ot0", " L:ot1", " L:nf"})
	}
	b += rt.Pick(g.h, []string{" L:poll", " L:pollE"})
	g.rev++
	b += fmt.Sprintf(" F:%d:", g.rev)
	return []string{a, fmt.Sprintf("dump %d", i), b, fmt.Sprintf("dump %d", i)}
}

func genCase(h *rt.H) []string {
	g := &gen{h: h, revs: map[int]int{}}
	n := rt.Pick(h, []int{1, 1, 1, 2, 3})
	ops := []string{fmt.Sprintf("new %d %d %d", n, h.Intn(3), h.Intn(2))}
	for i := 3 + h.Intn(12); i > 0; i-- {
		if h.Chance(0.06) {
			ops = append(ops, fmt.Sprintf("stop %d", h.Intn(n)))
		} else if h.Chance(0.12) {
			ops = append(ops, g.vanish(n)...)
			h.Count("gen:vanish")
		} else if h.Chance(0.25) {
			ops = append(ops, g.relist(n))
			h.Count("gen:relist")
		} else {
			ops = append(ops, g.call(n))
		}
		if h.Chance(0.7) {
			ops = append(ops, fmt.Sprintf("dump %d", h.Intn(n)))
		}
	}
	return ops
}

func main() {
	h := rt.New()
	defer h.Close()
	watchersyncer.MinResyncInterval = 0
	watchersyncer.ListRetryInterval = 0
	watchersyncer.WatchPollInterval = 0
	watchersyncer.MissingAPIRetryTime = 0
	h.Rule = "case = one watcherSyncer with 1..3 watcher caches (no UpdateProcessor / a stateless fan-out processor / the REAL stateful conflict-resolving IPPool processor, each behind a recorder of OnSyncerStarting calls; with/without SendDeletesOnConnFail) + ops over " +
		"{call i script = one resyncAndLoopReadingFromWatcher with scripted List outcomes (ok/notfound/expired/other±timeout), Watch-create outcomes " +
		"(expired/conn-refused±timeout/not-supported/other), a terminal empty List with revision 0 or \"\" after which the call is observed in its polling steady state, and watch events (add/mod/delete/bookmark/expired/error/unknown), stop i, dump i}; " +
		"distinct = distinct op sequence; non-trivial = a call that consumed >=1 failing outcome or ended a watch with an error event"
	run := func(ops []string, tag string) {
		h.Case(tag)
		s := &state{}
		nontriv := false
		for _, op := range ops {
			if s.v == nil && !strings.HasPrefix(op, "new") {
				exec(h, s, "new 1 0 0")
			}
			out := exec(h, s, op)
			h.Op(op, out)
			f := strings.Fields(op)
			h.Count("op:" + f[0])
			if f[0] == "call" && (strings.Contains(op, " L:") || strings.Contains(op, " W:") || strings.Contains(op, "E:ex") || strings.Contains(op, "E:ot")) {
				nontriv = true
			}
		}
		if nontriv {
			h.Nontrivial(strings.Join(ops, ";"))
		}
		h.Sample()
	}
	if h.Replay != "" {
		run(h.ReplayLines(), "replay")
		return
	}
	for i := 0; i < h.N; i++ {
		run(genCase(h), "gen")
	}
}
