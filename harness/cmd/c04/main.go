// C04 correspondence harness: drives the real felix/labelindex.SelectorAndNamedPortIndex
// (both overlap-suppressor modes) through its calc-graph entry points (OnUpdate for
// endpoints / network sets / profiles, UpdateIPSet / DeleteIPSet) and
//   - prints, per op, the consumer's accumulated IP sets + internal refcounts, match
//     caches and suppressor contents (compared with the Lean model line by line);
//   - evaluates the property's own oracle on the real code after every op: the accumulated
//     members of every IP set equal, as a set, the contributions of the endpoints whose
//     effective labels match (computed from scratch from the current inputs with the real
//     selector parser), every callback alternates (no add of a present member, no remove
//     of an absent one), and with suppression the emitted members are an antichain that
//     covers exactly the same addresses.
package main

import (
	"encoding/hex"
	"fmt"
	"math/big"
	"net"
	"sort"
	"strconv"
	"strings"

	v3 "github.com/projectcalico/api/pkg/apis/projectcalico/v3"
	"github.com/projectcalico/api/pkg/lib/numorstring"
	metav1 "k8s.io/apimachinery/pkg/apis/meta/v1"

	"github.com/projectcalico/calico/felix/calc"
	"github.com/projectcalico/calico/felix/labelindex"
	"github.com/projectcalico/calico/felix/labelindex/ipsetmember"
	"github.com/projectcalico/calico/lib/std/uniquelabels"
	"github.com/projectcalico/calico/libcalico-go/lib/backend/api"
	"github.com/projectcalico/calico/libcalico-go/lib/backend/model"
	calinet "github.com/projectcalico/calico/libcalico-go/lib/net"
	"github.com/projectcalico/calico/libcalico-go/lib/selector"

	"verif/harness/rt"
)

// ---- tokens -------------------------------------------------------------------

type cidrTok struct {
	v6   bool
	addr *big.Int
	len  int
}

func (c cidrTok) width() int {
	if c.v6 {
		return 128
	}
	return 32
}

func (c cidrTok) String() string {
	f := "4"
	if c.v6 {
		f = "6"
	}
	return fmt.Sprintf("%s/%s/%d", f, c.addr.String(), c.len)
}

func (c cidrTok) ip() net.IP {
	b := c.addr.Bytes()
	n := 4
	if c.v6 {
		n = 16
	}
	out := make([]byte, n)
	copy(out[n-len(b):], b)
	return net.IP(out)
}

func (c cidrTok) ipnet() net.IPNet {
	return net.IPNet{IP: c.ip(), Mask: net.CIDRMask(c.len, c.width())}
}

// masked returns the canonical CIDR (address masked to the prefix length).
func (c cidrTok) masked() cidrTok {
	sh := uint(c.width() - c.len)
	a := new(big.Int).Rsh(c.addr, sh)
	a.Lsh(a, sh)
	return cidrTok{c.v6, a, c.len}
}

// contains: c is a (non-strict) prefix of d.
func (c cidrTok) contains(d cidrTok) bool {
	if c.v6 != d.v6 || c.len > d.len {
		return false
	}
	sh := uint(c.width() - c.len)
	return new(big.Int).Rsh(c.addr, sh).Cmp(new(big.Int).Rsh(d.addr, sh)) == 0
}

func parseCidrTok(s string) cidrTok {
	p := strings.Split(s, "/")
	a, ok := new(big.Int).SetString(p[1], 10)
	if !ok || len(p) != 3 {
		panic("bad cidr token " + s)
	}
	l, err := strconv.Atoi(p[2])
	if err != nil {
		panic(err)
	}
	return cidrTok{p[0] == "6", a, l}
}

func tokFromString(s string) cidrTok {
	if !strings.Contains(s, "/") {
		ip := net.ParseIP(s)
		if v4 := ip.To4(); v4 != nil {
			return cidrTok{false, new(big.Int).SetBytes(v4), 32}
		}
		return cidrTok{true, new(big.Int).SetBytes(ip.To16()), 128}
	}
	ip, n, err := net.ParseCIDR(s)
	if err != nil {
		panic(err)
	}
	ones, _ := n.Mask.Size()
	if v4 := ip.To4(); v4 != nil {
		return cidrTok{false, new(big.Int).SetBytes(v4), ones}
	}
	return cidrTok{true, new(big.Int).SetBytes(ip.To16()), ones}
}

type portTok struct {
	name  string
	isNum bool
	num   uint8
	str   string
	port  uint16
}

func (p portTok) String() string {
	if p.isNum {
		return fmt.Sprintf("%s/n%d/%d", p.name, p.num, p.port)
	}
	return fmt.Sprintf("%s/s%s/%d", p.name, p.str, p.port)
}

func parsePortTok(s string) portTok {
	p := strings.Split(s, "/")
	if len(p) != 3 {
		panic("bad port token " + s)
	}
	po, err := strconv.Atoi(p[2])
	if err != nil {
		panic(err)
	}
	t := portTok{name: p[0], port: uint16(po)}
	if strings.HasPrefix(p[1], "n") {
		n, err := strconv.Atoi(p[1][1:])
		if err != nil {
			panic(err)
		}
		t.isNum, t.num = true, uint8(n)
	} else {
		t.str = p[1][1:]
	}
	return t
}

func splitList(s string) []string {
	if s == "-" {
		return nil
	}
	return strings.Split(s, ",")
}

func joinList(l []string) string {
	if len(l) == 0 {
		return "-"
	}
	return strings.Join(l, ",")
}

func parseLabels(s string) map[string]string {
	m := map[string]string{}
	for _, kv := range splitList(s) {
		p := strings.SplitN(kv, "=", 2)
		m[p[0]] = p[1]
	}
	return m
}

func showLabels(m map[string]string) string {
	var l []string
	for k, v := range m {
		l = append(l, k+"="+v)
	}
	sort.Strings(l)
	return joinList(l)
}

// ---- selectors ------------------------------------------------------------------

var labKeys = []string{"a", "b", "c"}
var labVals = []string{"", "x", "y"}

// selTable is the graph of the REAL selector evaluation over the label universe.
func selTable(sel *selector.Selector) string {
	var sb strings.Builder
	for i := 0; i < 27; i++ {
		m := map[string]string{}
		for k, n := 0, i; k < 3; k, n = k+1, n/3 {
			if v := labVals[n%3]; v != "" {
				m[labKeys[k]] = v
			}
		}
		if sel.Evaluate(m) {
			sb.WriteByte('1')
		} else {
			sb.WriteByte('0')
		}
	}
	return sb.String()
}

// ---- state ------------------------------------------------------------------------

type epIn struct {
	kind    string
	labels  map[string]string
	nets    []cidrTok
	ports   []portTok
	parents []string
}

// ruleIn: one policy with a single inbound rule carrying (selector, notSelector) per direction.
type ruleIn struct {
	srcPos, srcNeg, dstPos, dstNeg string
}

// rulesCB receives the RuleScanner's parsed rules (which IP set ids each rule references).
type rulesCB struct{ s *state }

func (c rulesCB) OnPolicyActive(k model.PolicyKey, r *calc.ParsedRules)    { c.s.parsed[k.Name] = r }
func (c rulesCB) OnPolicyInactive(k model.PolicyKey)                       { delete(c.s.parsed, k.Name) }
func (c rulesCB) OnProfileActive(model.ProfileRulesKey, *calc.ParsedRules) {}
func (c rulesCB) OnProfileInactive(model.ProfileRulesKey)                  {}

type setIn struct {
	sel   *selector.Selector
	proto int
	port  string
}

type state struct {
	h         *rt.H
	idx       *labelindex.SelectorAndNamedPortIndex
	suppress  bool
	acc       map[string]map[string]bool
	events    []string
	eps       map[string]*epIn
	parents   map[string]map[string]string
	ipsets    map[string]*setIn
	dead      bool
	history   []string
	netEvents bool
	// the real RuleScanner in front of the index (ops `rule` / `delrule`)
	rs      *calc.RuleScanner
	uids    map[string]string // RuleScanner IP set UID -> short protocol id u<N>
	derived [][2]string       // protocol lines (op, out) produced by RuleScanner callbacks during the current op
	rules   map[string]*ruleIn
	parsed  map[string]*calc.ParsedRules
}

var protoNum = map[string]int{"tcp": 6, "udp": 17, "sctp": 132}

// memberString converts a real IPSetMember to the protocol's canonical member token.
func memberString(m ipsetmember.IPSetMember) string {
	s := m.ToProtobufFormat()
	if i := strings.Index(s, ","); i >= 0 {
		t := tokFromString(s[:i])
		pp := strings.Split(s[i+1:], ":")
		f := "4"
		if t.v6 {
			f = "6"
		}
		return fmt.Sprintf("p%s/%s/%d/%s", f, t.addr.String(), protoNum[pp[0]], pp[1])
	}
	return "c" + tokFromString(s).String()
}

func (s *state) reset(suppress bool) {
	s.suppress = suppress
	s.idx = labelindex.NewSelectorAndNamedPortIndex(suppress)
	s.acc = map[string]map[string]bool{}
	s.events = nil
	s.eps = map[string]*epIn{}
	s.parents = map[string]map[string]string{}
	s.ipsets = map[string]*setIn{}
	s.dead = false
	s.history = nil
	s.uids = map[string]string{}
	s.rules = map[string]*ruleIn{}
	s.parsed = map[string]*calc.ParsedRules{}
	s.rs = calc.NewRuleScanner()
	s.rs.RulesUpdateCallbacks = rulesCB{s}
	// as in NewCalculationGraph: OnIPSetActive -> index.UpdateIPSet, OnIPSetInactive -> index.DeleteIPSet
	// + the consumer's OnIPSetRemoved.  Each call becomes a derived protocol line for the model.
	s.rs.OnIPSetActive = func(ipSet *calc.IPSetData) {
		uid := ipSet.UniqueID()
		id, ok := s.uids[uid]
		if !ok {
			id = fmt.Sprintf("u%d", len(s.uids))
			s.uids[uid] = id
		}
		port := ipSet.NamedPort
		if port == "" {
			port = "-"
		}
		line := fmt.Sprintf("dipset %s %s %s %d %s %s", id, hex.EncodeToString([]byte(ipSet.Selector.String())),
			selTable(ipSet.Selector), int(ipSet.NamedPortProtocol), port, hex.EncodeToString([]byte(ipSet.Selector.String())))
		s.events = nil
		s.netEvents = false
		s.ipsets[id] = &setIn{ipSet.Selector, int(ipSet.NamedPortProtocol), ipSet.NamedPort}
		s.idx.UpdateIPSet(id, ipSet.Selector, ipSet.NamedPortProtocol, ipSet.NamedPort)
		s.derived = append(s.derived, [2]string{line, s.render()})
	}
	s.rs.OnIPSetInactive = func(ipSet *calc.IPSetData) {
		id := s.uids[ipSet.UniqueID()]
		s.events = nil
		s.netEvents = false
		delete(s.ipsets, id)
		s.idx.DeleteIPSet(id)
		delete(s.acc, id)
		s.events = append(s.events, "x"+id)
		s.derived = append(s.derived, [2]string{"ddelipset " + id, s.render()})
	}
	s.idx.OnMemberAdded = func(id string, m ipsetmember.IPSetMember) {
		ms := memberString(m)
		if s.acc[id] == nil {
			s.acc[id] = map[string]bool{}
		}
		if s.acc[id][ms] {
			s.h.OracleFail("dup-add", "OnMemberAdded for a member the consumer already has", map[string]any{"set": id, "member": ms, "ops": s.history})
		}
		s.acc[id][ms] = true
		s.events = append(s.events, "+"+id+":"+ms)
	}
	s.idx.OnMemberRemoved = func(id string, m ipsetmember.IPSetMember) {
		ms := memberString(m)
		if !s.acc[id][ms] {
			s.h.OracleFail("remove-absent", "OnMemberRemoved for a member the consumer does not have", map[string]any{"set": id, "member": ms, "ops": s.history})
		}
		delete(s.acc[id], ms)
		s.events = append(s.events, "-"+id+":"+ms)
	}
}

func epKey(id string) any {
	switch id[0] {
	case 'w':
		return model.WorkloadEndpointKey{Hostname: "host", OrchestratorID: "k8s", WorkloadID: id, EndpointID: "eth0"}
	case 'h':
		return model.HostEndpointKey{Hostname: "host", EndpointID: id}
	default:
		return model.NetworkSetKey{Name: id}
	}
}

func showSorted(l []string) string {
	sort.Strings(l)
	return joinList(l)
}

func (s *state) render() string {
	var d, r, c, t []string
	for id, ms := range s.acc {
		for m := range ms {
			d = append(d, id+":"+m)
		}
	}
	for id, ms := range s.idx.VerifC04RefCounts() {
		for m, n := range ms {
			r = append(r, fmt.Sprintf("%s:%s=%d", id, memberString(m), n))
		}
	}
	var keys []any
	names := map[any]string{}
	for id := range s.eps {
		k := epKey(id)
		keys = append(keys, k)
		names[k] = id
	}
	for k, ids := range s.idx.VerifC04CachedIDs(keys) {
		for _, sid := range ids {
			c = append(c, names[k]+":"+sid)
		}
	}
	for id, cs := range s.idx.VerifC04SuppressorCIDRs() {
		for _, cidr := range cs {
			t = append(t, id+":"+tokFromString(cidr.String()).String())
		}
	}
	e := "-"
	if !s.suppress {
		evs := append([]string(nil), s.events...)
		if s.netEvents {
			// ops that rescan several endpoints visit them in Go map order; whether a member shared by
			// two endpoints is transiently removed and re-added depends on that order, so only the net
			// callbacks of the op are compared
			net := map[string]int{}
			for _, ev := range evs {
				if ev[0] == '+' {
					net[ev[1:]]++
				} else if ev[0] == '-' {
					net[ev[1:]]--
				}
			}
			evs = nil
			for k, n := range net {
				if n > 0 {
					evs = append(evs, "+"+k)
				} else if n < 0 {
					evs = append(evs, "-"+k)
				}
			}
		}
		e = showSorted(evs)
	}
	return fmt.Sprintf("D=%s R=%s C=%s T=%s E=%s", showSorted(d), showSorted(r), showSorted(c), showSorted(t), e)
}

// ---- the property's oracle, from scratch on the current inputs -----------------------

func effLabels(s *state, e *epIn) map[string]string {
	m := map[string]string{}
	for i := len(e.parents) - 1; i >= 0; i-- {
		for k, v := range s.parents[e.parents[i]] {
			m[k] = v
		}
	}
	for k, v := range e.labels {
		m[k] = v
	}
	return m
}

func epNets(e *epIn) []cidrTok {
	var out []cidrTok
	for _, n := range e.nets {
		if e.kind == "n" {
			m := n.masked()
			if m.len == 0 {
				out = append(out, cidrTok{m.v6, big.NewInt(0), 1},
					cidrTok{m.v6, new(big.Int).Lsh(big.NewInt(1), uint(m.width()-1)), 1})
			} else {
				out = append(out, m)
			}
		} else {
			out = append(out, cidrTok{n.v6, n.addr, n.width()})
		}
	}
	return out
}

func portProtoNumber(p portTok) int {
	if p.isNum {
		return int(p.num)
	}
	return protoNum[strings.ToLower(p.str)] // 0 if not tcp/udp/sctp
}

// portMatches: does endpoint port p belong to a named-port set with protocol setProto?
func portMatches(setProto int, p portTok) bool {
	if p.isNum {
		if p.num == 0 {
			return setProto == 255
		}
		return int(p.num) == setProto
	}
	if setProto == 255 {
		return true
	}
	return portProtoNumber(p) == setProto
}

func memberProto(p portTok) int {
	switch portProtoNumber(p) {
	case 17:
		return 17
	case 132:
		return 132
	}
	return 6
}

func (s *state) expected(set *setIn) map[string]bool {
	return s.expectedFn(set, func(l map[string]string) bool { return set.sel.Evaluate(l) })
}

// expectedFn: the members of a set whose selection predicate is `match`.
func (s *state) expectedFn(set *setIn, match func(map[string]string) bool) map[string]bool {
	exp := map[string]bool{}
	for _, e := range s.eps {
		if !match(effLabels(s, e)) {
			continue
		}
		for _, n := range epNets(e) {
			if set.proto == 0 {
				exp["c"+n.String()] = true
				continue
			}
			if e.kind == "n" {
				continue
			}
			for _, p := range e.ports {
				if p.name == set.port && portMatches(set.proto, p) {
					f := "4"
					if n.v6 {
						f = "6"
					}
					exp[fmt.Sprintf("p%s/%s/%d/%d", f, n.addr.String(), memberProto(p), p.port)] = true
				}
			}
		}
	}
	return exp
}

// normCover returns the canonical minimal CIDR cover of the union of the given CIDRs.
func normCover(in []cidrTok) []string {
	cur := map[string]cidrTok{}
	for _, c := range in {
		cur[c.String()] = c
	}
	for changed := true; changed; {
		changed = false
		for k, c := range cur {
			for k2, d := range cur {
				if k != k2 && d.contains(c) {
					delete(cur, k)
					changed = true
					break
				}
			}
		}
		for k, c := range cur {
			if c.len == 0 {
				continue
			}
			bit := new(big.Int).Lsh(big.NewInt(1), uint(c.width()-c.len))
			sib := cidrTok{c.v6, new(big.Int).Xor(c.addr, bit), c.len}
			if _, ok := cur[sib.String()]; ok {
				par := cidrTok{c.v6, c.addr, c.len - 1}.masked()
				delete(cur, k)
				delete(cur, sib.String())
				cur[par.String()] = par
				changed = true
				break
			}
		}
	}
	var out []string
	for k := range cur {
		out = append(out, k)
	}
	sort.Strings(out)
	return out
}

func setKeys(m map[string]bool) []string {
	var l []string
	for k := range m {
		l = append(l, k)
	}
	sort.Strings(l)
	return l
}

func (s *state) oracle() {
	for id, ms := range s.acc {
		if len(ms) > 0 && s.ipsets[id] == nil {
			s.h.OracleFail("members-of-unknown-set", "consumer holds members of an IP set that is not active", map[string]any{"set": id, "ops": s.history})
		}
	}
	for id, set := range s.ipsets {
		exp := s.expected(set)
		got := s.acc[id]
		if !s.suppress || set.proto != 0 {
			if strings.Join(setKeys(exp), ",") != strings.Join(setKeys(got), ",") {
				s.h.OracleFail("members-mismatch", "IP set contents differ from the contributions of the matching endpoints",
					map[string]any{"set": id, "selector": set.sel.String(), "want": setKeys(exp), "got": setKeys(got), "ops": s.history})
			}
			continue
		}
		var g, e []cidrTok
		for k := range got {
			g = append(g, parseCidrTok(k[1:]))
		}
		for k := range exp {
			e = append(e, parseCidrTok(k[1:]))
		}
		for i := range g {
			for j := range g {
				if i != j && g[i].contains(g[j]) {
					s.h.OracleFail("suppressed-not-antichain", "an emitted member lies inside another emitted member",
						map[string]any{"set": id, "outer": g[i].String(), "inner": g[j].String(), "ops": s.history})
				}
			}
		}
		if a, b := strings.Join(normCover(g), ","), strings.Join(normCover(e), ","); a != b {
			s.h.OracleFail("suppressed-cover-mismatch", "emitted members do not cover exactly the addresses of the matching endpoints",
				map[string]any{"set": id, "selector": set.sel.String(), "got_cover": a, "want_cover": b, "ops": s.history})
		}
	}
}

// ---- exec: one op on the REAL code --------------------------------------------------

func protoOf(p portTok) numorstring.Protocol {
	if p.isNum {
		return numorstring.ProtocolFromInt(p.num)
	}
	// raw string: keep exactly what the datastore would hold
	return numorstring.Protocol{Type: numorstring.NumOrStringString, StrVal: p.str}
}

func exec(h *rt.H, s *state, op string) (out string) {
	w := strings.Fields(op)
	s.h = h
	if w[0] == "new" {
		s.reset(w[1] == "1")
		return "ok"
	}
	if s.idx == nil {
		s.reset(false) // a shrunk case may have lost its `new`; the driver starts from a no-suppress index too
	}
	if s.dead {
		return "dead"
	}
	s.history = append(s.history, op)
	s.events = nil
	s.netEvents = w[0] == "parent" || w[0] == "delparent"
	defer func() {
		if r := recover(); r != nil {
			s.dead = true
			sig := "panic"
			h.Count("panic")
			h.OracleFail(sig, "the real index panicked: "+fmt.Sprint(r), map[string]any{"panic": fmt.Sprint(r), "ops": s.history})
			out = "PANIC"
		}
	}()
	switch w[0] {
	case "ipset":
		raw, err := hex.DecodeString(w[6])
		if err != nil {
			panic(err)
		}
		sel, err := selector.Parse(string(raw))
		if err != nil {
			panic("unparsable selector in op: " + string(raw))
		}
		if hex.EncodeToString([]byte(sel.String())) != w[2] || selTable(sel) != w[3] {
			panic("op line inconsistent with the real parser: " + op)
		}
		proto, _ := strconv.Atoi(w[4])
		port := w[5]
		if port == "-" {
			port = ""
		}
		s.ipsets[w[1]] = &setIn{sel, proto, port}
		s.idx.UpdateIPSet(w[1], sel, ipsetmember.Protocol(proto), port)
	case "rule":
		unh := func(t string) string {
			if t == "-" {
				return ""
			}
			b, err := hex.DecodeString(t)
			if err != nil {
				panic(err)
			}
			return string(b)
		}
		r := &ruleIn{unh(w[2]), unh(w[3]), unh(w[4]), unh(w[5])}
		s.rules[w[1]] = r
		s.rs.OnPolicyActive(model.PolicyKey{Kind: "GlobalNetworkPolicy", Name: w[1]}, &model.Policy{
			Tier: "default", Selector: "all()",
			InboundRules: []model.Rule{{Action: "allow", SrcSelector: r.srcPos, NotSrcSelector: r.srcNeg,
				DstSelector: r.dstPos, NotDstSelector: r.dstNeg}}})
		s.ruleOracle()
		s.oracle()
		return "ok"
	case "delrule":
		delete(s.rules, w[1])
		s.rs.OnPolicyInactive(model.PolicyKey{Kind: "GlobalNetworkPolicy", Name: w[1]})
		s.oracle()
		return "ok"
	case "dipset", "ddelipset":
		return "derived" // never executed: regenerated by the RuleScanner (filtered out before exec)
	case "delipset":
		delete(s.ipsets, w[1])
		s.idx.DeleteIPSet(w[1])
		// the calc graph's OnIPSetInactive closure: consumer drops the whole set
		delete(s.acc, w[1])
		s.events = append(s.events, "x"+w[1])
	case "ep":
		e := &epIn{kind: w[1], labels: parseLabels(w[3]), parents: splitList(w[6])}
		for _, t := range splitList(w[4]) {
			e.nets = append(e.nets, parseCidrTok(t))
		}
		for _, t := range splitList(w[5]) {
			e.ports = append(e.ports, parsePortTok(t))
		}
		if e.kind == "n" {
			e.ports = nil
		}
		s.eps[w[2]] = e
		var ports []model.EndpointPort
		for _, p := range e.ports {
			ports = append(ports, model.EndpointPort{Name: p.name, Protocol: protoOf(p), Port: p.port})
		}
		labels := uniquelabels.Make(e.labels)
		var val any
		switch e.kind {
		case "w":
			v := &model.WorkloadEndpoint{Labels: labels, Ports: ports, ProfileIDs: e.parents}
			for _, n := range e.nets {
				if n.v6 {
					v.IPv6Nets = append(v.IPv6Nets, calinet.IPNet{IPNet: n.ipnet()})
				} else {
					v.IPv4Nets = append(v.IPv4Nets, calinet.IPNet{IPNet: n.ipnet()})
				}
			}
			val = v
		case "h":
			v := &model.HostEndpoint{Labels: labels, Ports: ports, ProfileIDs: e.parents}
			for _, n := range e.nets {
				if n.v6 {
					v.ExpectedIPv6Addrs = append(v.ExpectedIPv6Addrs, calinet.IP{IP: n.ip()})
				} else {
					v.ExpectedIPv4Addrs = append(v.ExpectedIPv4Addrs, calinet.IP{IP: n.ip()})
				}
			}
			val = v
		case "n":
			v := &model.NetworkSet{Labels: labels, ProfileIDs: e.parents}
			for _, n := range e.nets {
				v.Nets = append(v.Nets, calinet.IPNet{IPNet: n.ipnet()})
			}
			val = v
		default:
			panic("bad kind")
		}
		s.idx.OnUpdate(api.Update{KVPair: model.KVPair{Key: epKey(w[2]).(model.Key), Value: val}})
	case "delep":
		delete(s.eps, w[1])
		s.idx.OnUpdate(api.Update{KVPair: model.KVPair{Key: epKey(w[1]).(model.Key), Value: nil}})
	case "parent":
		s.parents[w[1]] = parseLabels(w[2])
		prof := &v3.Profile{ObjectMeta: metav1.ObjectMeta{Name: w[1]}, Spec: v3.ProfileSpec{LabelsToApply: parseLabels(w[2])}}
		if w[2] == "-" {
			prof.Spec.LabelsToApply = nil
		}
		s.idx.OnUpdate(api.Update{KVPair: model.KVPair{Key: model.ResourceKey{Kind: v3.KindProfile, Name: w[1]}, Value: prof}})
	case "delparent":
		delete(s.parents, w[1])
		s.idx.OnUpdate(api.Update{KVPair: model.KVPair{Key: model.ResourceKey{Kind: v3.KindProfile, Name: w[1]}, Value: nil}})
	default:
		panic("unknown op " + op)
	}
	if n := s.idx.VerifC04NumEndpoints(); n != len(s.eps) {
		h.OracleFail("endpoint-count", "index holds a different number of endpoints than the inputs", map[string]any{"have": n, "want": len(s.eps), "ops": s.history})
	}
	s.oracle()
	s.ruleOracle()
	return s.render()
}

// ruleOracle: C04 speaks about the addresses selected by the RULE.  For every active rule and
// direction, evaluate the rule's selector and notSelector SEPARATELY (pos && !neg; a lone
// notSelector selects what it matches) on every endpoint / network set and compare with what the
// consumer holds for the IP set id the RuleScanner put into that rule.
func (s *state) ruleOracle() {
	for name, r := range s.rules {
		pr := s.parsed[name]
		if pr == nil || len(pr.InboundRules) != 1 {
			s.h.OracleFail("rule-not-scanned", "the RuleScanner did not report the rule", map[string]any{"rule": name, "ops": s.history})
			continue
		}
		p := pr.InboundRules[0]
		check := func(dir, pos, neg string, posIDs, negIDs []string) {
			var ids []string
			var match func(map[string]string) bool
			switch {
			case pos != "":
				ps, err1 := selector.Parse(pos)
				var ns *selector.Selector
				var err2 error
				if neg != "" {
					ns, err2 = selector.Parse(neg)
				}
				if err1 != nil || err2 != nil {
					panic("generator produced an unparsable rule selector")
				}
				ids = posIDs
				match = func(l map[string]string) bool { return ps.Evaluate(l) && (ns == nil || !ns.Evaluate(l)) }
				if len(negIDs) != 0 {
					s.h.Count("rule:neg-not-combined")
				}
			case neg != "":
				ns, err := selector.Parse(neg)
				if err != nil {
					panic("generator produced an unparsable rule selector")
				}
				ids = negIDs
				match = func(l map[string]string) bool { return ns.Evaluate(l) }
			default:
				return
			}
			if len(ids) != 1 {
				s.h.OracleFail("rule-ipset-count", "a rule direction with a selector does not reference exactly one selector IP set",
					map[string]any{"rule": name, "dir": dir, "ids": ids, "ops": s.history})
				return
			}
			id := s.uids[ids[0]]
			set := s.ipsets[id]
			if set == nil {
				s.h.OracleFail("rule-ipset-inactive", "a rule references an IP set the index was not told about",
					map[string]any{"rule": name, "dir": dir, "ops": s.history})
				return
			}
			exp := s.expectedFn(&setIn{nil, 0, ""}, match)
			got := s.acc[id]
			bad := false
			if !s.suppress {
				bad = strings.Join(setKeys(exp), ",") != strings.Join(setKeys(got), ",")
			} else {
				var g, e []cidrTok
				for k := range got {
					g = append(g, parseCidrTok(k[1:]))
				}
				for k := range exp {
					e = append(e, parseCidrTok(k[1:]))
				}
				bad = strings.Join(normCover(g), ",") != strings.Join(normCover(e), ",")
			}
			if bad {
				s.h.OracleFail("rule-ipset-mismatch",
					"the IP set emitted for a rule does not hold exactly the addresses selected by the rule's selector and notSelector",
					map[string]any{"rule": name, "dir": dir, "selector": pos, "notSelector": neg, "ipset_selector": set.sel.String(),
						"want": setKeys(exp), "got": setKeys(got), "ops": s.history})
			}
		}
		check("src", r.srcPos, r.srcNeg, p.SrcIPSetIDs, p.NotSrcIPSetIDs)
		check("dst", r.dstPos, r.dstNeg, p.DstIPSetIDs, p.NotDstIPSetIDs)
	}
}

// ---- generator ----------------------------------------------------------------------

var v4IPs = []string{"10.0.0.1", "10.0.0.2", "10.0.0.129", "10.0.1.1", "192.168.0.1", "0.0.0.0", "255.255.255.255", "128.0.0.1"}
var v6IPs = []string{"fe80::1", "fe80::2", "2001:db8::1", "::", "8000::1"}
var v4Nets = []string{"10.0.0.0/8", "10.0.0.0/16", "10.0.0.0/24", "10.0.0.0/25", "10.0.0.128/25", "10.0.0.1/32", "10.0.0.2/32", "10.0.1.0/24",
	"10.0.0.5/24", "0.0.0.0/0", "0.0.0.0/1", "128.0.0.0/1", "128.0.0.0/2", "192.168.0.0/16", "192.168.0.1/32", "10.0.0.0/31", "255.255.255.255/32"}
var v6Nets = []string{"::/0", "::/1", "8000::/1", "fe80::/10", "fe80::/64", "fe80::1/128", "fe80::2/128", "2001:db8::/32", "2001:db8::/48", "2001:db8::1/128", "8000::/2"}
var portNames = []string{"http", "dns", "web"}
var strProtos = []string{"tcp", "TCP", "udp", "UDP", "sctp", "SCTP", "Tcp", "icmp"}
var numProtos = []uint8{6, 17, 132, 0, 255, 1}
var setProtos = []int{6, 17, 132, 255}

func genAtom(h *rt.H) string {
	k := rt.Pick(h, labKeys)
	v := rt.Pick(h, []string{"x", "y"})
	switch h.Intn(12) {
	case 0, 1, 2:
		return fmt.Sprintf("%s == '%s'", k, v)
	case 3:
		return fmt.Sprintf("%s != '%s'", k, v)
	case 4, 5:
		return fmt.Sprintf("has(%s)", k)
	case 6:
		return fmt.Sprintf("!has(%s)", k)
	case 7:
		return fmt.Sprintf("%s in {'x','y'}", k)
	case 8:
		return fmt.Sprintf("%s in {'%s'}", k, v)
	case 9:
		return fmt.Sprintf("%s not in {'%s'}", k, v)
	case 10:
		return "all()"
	default:
		return fmt.Sprintf("%s starts with '%s'", k, v)
	}
}

func genSel(h *rt.H) string {
	switch h.Intn(8) {
	case 0, 1, 2:
		return genAtom(h)
	case 3, 4:
		return genAtom(h) + " && " + genAtom(h)
	case 5:
		return genAtom(h) + " || " + genAtom(h)
	case 6:
		return "!(" + genAtom(h) + ")"
	default:
		return "(" + genAtom(h) + " || " + genAtom(h) + ") && " + genAtom(h)
	}
}

func genLabels(h *rt.H) map[string]string {
	m := map[string]string{}
	for _, k := range labKeys {
		switch h.Intn(5) {
		case 0, 1:
			m[k] = "x"
		case 2:
			m[k] = "y"
		}
	}
	return m
}

func genSubset(h *rt.H, pool []string, max int) []string {
	n := h.Intn(max + 1)
	var out []string
	for i := 0; i < n; i++ {
		out = append(out, rt.Pick(h, pool))
	}
	return out
}

// genParents: an ordered list of 0..3 profile ids; in 5% of the non-empty lists one id is repeated
// (UpdateEndpointOrSet lists each parent once; before /repo c40ff03 this made the index panic).
func genParents(h *rt.H) []string {
	pool := []string{"p1", "p2", "p3"}
	h.Rng.Shuffle(len(pool), func(i, j int) { pool[i], pool[j] = pool[j], pool[i] })
	out := pool[:h.Intn(4)]
	if len(out) > 0 && h.Chance(0.05) {
		out = append(out, out[0])
	}
	return out
}

type setDef struct {
	id    string
	raw   string
	proto int
	port  string
}

func ipsetLine(d setDef) string {
	sel, err := selector.Parse(d.raw)
	if err != nil {
		panic("generator produced an unparsable selector: " + d.raw)
	}
	port := d.port
	if port == "" {
		port = "-"
	}
	return fmt.Sprintf("ipset %s %s %s %d %s %s", d.id, hex.EncodeToString([]byte(sel.String())), selTable(sel), d.proto, port, hex.EncodeToString([]byte(d.raw)))
}

func genEp(h *rt.H, id string) string {
	kind := id[:1]
	var nets []string
	var v4, v6 []string
	if kind == "n" {
		v4, v6 = genSubset(h, v4Nets, 4), genSubset(h, v6Nets, 2)
	} else {
		v4, v6 = genSubset(h, v4IPs, 2), genSubset(h, v6IPs, 1)
	}
	for _, s := range append(v4, v6...) {
		t := tokFromString(s)
		if kind == "w" && h.Chance(0.1) {
			t.len = t.len - 8 // WEP nets carry a prefix length that the index ignores
		}
		nets = append(nets, t.String())
	}
	var ports []string
	if kind != "n" {
		for i, n := 0, h.Intn(4); i < n; i++ {
			p := portTok{name: rt.Pick(h, portNames), port: rt.Pick(h, []uint16{80, 53, 8080, 0, 65535})}
			if h.Chance(0.6) {
				p.str = rt.Pick(h, strProtos)
			} else {
				p.isNum, p.num = true, rt.Pick(h, numProtos)
			}
			ports = append(ports, p.String())
		}
	}
	return fmt.Sprintf("ep %s %s %s %s %s %s", kind, id, showLabels(genLabels(h)), joinList(nets), joinList(ports),
		joinList(genParents(h)))
}

func sortedCSV(s string) string {
	l := splitList(s)
	sort.Strings(l)
	return joinList(l)
}

func genCase(h *rt.H) []string {
	sup := "0"
	if h.Bool() {
		sup = "1"
	}
	ops := []string{"new " + sup}
	// a pool of IP set definitions; a few share an id with different contents (the
	// "selector changed for existing ID" path of UpdateIPSet)
	var defs []setDef
	for i := 0; i < 5; i++ {
		d := setDef{id: fmt.Sprintf("s%d", i), raw: genSel(h)}
		if h.Chance(0.3) {
			d.proto, d.port = rt.Pick(h, setProtos), rt.Pick(h, portNames)
		}
		if i > 0 && h.Chance(0.2) {
			d.id = defs[h.Intn(len(defs))].id
		}
		defs = append(defs, d)
	}
	epIDs := []string{"w1", "w2", "w3", "h1", "n1", "n2"}
	// reorderEp re-issues the latest `ep` line of an endpoint with ONLY its parent list permuted
	// (labels, nets, ports and the set of profiles unchanged): inherited labels are
	// first-profile-wins, so membership may have to change although "nothing but the order" did.
	reorderEp := func() (string, bool) {
		for j := len(ops) - 1; j >= 1; j-- {
			w := strings.Fields(ops[j])
			if w[0] == "delep" {
				continue
			}
			if w[0] != "ep" {
				continue
			}
			ps := splitList(w[6])
			if len(ps) < 2 {
				continue
			}
			// only the most recent op for that id counts
			stale := false
			for k := len(ops) - 1; k > j; k-- {
				wk := strings.Fields(ops[k])
				if (wk[0] == "ep" && wk[2] == w[2]) || (wk[0] == "delep" && wk[1] == w[2]) {
					stale = true
				}
			}
			if stale {
				continue
			}
			h.Rng.Shuffle(len(ps), func(a, b int) { ps[a], ps[b] = ps[b], ps[a] })
			if joinList(ps) == w[6] {
				ps[0], ps[1] = ps[1], ps[0]
			}
			w[6] = joinList(ps)
			return strings.Join(w, " "), true
		}
		return "", false
	}
	if h.Chance(0.25) {
		// parents that define the SAME label key with DIFFERENT values, a selector on that key, an
		// endpoint inheriting from both, then the same endpoint with the profile order swapped
		k := rt.Pick(h, labKeys)
		d := setDef{id: "s0", raw: fmt.Sprintf("%s == 'x'", k)}
		id := rt.Pick(h, epIDs)
		ep := strings.Fields(genEp(h, id))
		ep[3] = "-" // no own labels: everything is inherited
		if ep[4] == "-" {
			ep[4] = tokFromString("10.0.0.1").String()
		}
		ep[6] = "p1,p2"
		ops = append(ops, fmt.Sprintf("parent p1 %s=x", k), fmt.Sprintf("parent p2 %s=y", k), ipsetLine(d), strings.Join(ep, " "))
		defs[0] = d
		if h.Bool() {
			ep[6] = "p2,p1"
			ops = append(ops, strings.Join(ep, " "))
		}
	}
	hx := func(t string) string {
		if t == "" {
			return "-"
		}
		return hex.EncodeToString([]byte(t))
	}
	// genRule: a policy rule with (selector, notSelector) for source and destination; positive
	// selectors with a top-level `||` / `&&` mix, un-parenthesised, as a GlobalNetworkPolicy delivers them
	genRule := func() string {
		pos := func() string {
			switch h.Intn(6) {
			case 0:
				return ""
			case 1:
				return genAtom(h)
			case 2, 3:
				return genAtom(h) + " || " + genAtom(h)
			case 4:
				return genAtom(h) + " || " + genAtom(h) + " && " + genAtom(h)
			default:
				return genAtom(h) + " && " + genAtom(h) + " || " + genAtom(h)
			}
		}
		neg := func() string {
			switch h.Intn(4) {
			case 0:
				return ""
			case 1:
				return genAtom(h) + " || " + genAtom(h)
			default:
				return genAtom(h)
			}
		}
		return fmt.Sprintf("rule %s %s %s %s %s", rt.Pick(h, []string{"r1", "r2", "r3"}), hx(pos()), hx(neg()), hx(pos()), hx(neg()))
	}
	if h.Chance(0.2) {
		// selector with a top-level `||` + notSelector, and an endpoint matching an early alternative
		// AND the notSelector: it must NOT be in the rule's IP set
		id := rt.Pick(h, epIDs)
		ep := strings.Fields(genEp(h, id))
		ep[3] = "a=x,c=x"
		if ep[4] == "-" {
			ep[4] = tokFromString("10.0.0.1").String()
		}
		ep[6] = "-"
		ops = append(ops, strings.Join(ep, " "),
			fmt.Sprintf("rule r1 %s %s - -", hx("a == 'x' || b == 'x'"), hx("c == 'x'")))
	}
	n := 6 + h.Intn(30)
	for i := 0; i < n; i++ {
		switch r := h.Intn(112); {
		case r >= 100 && r < 109:
			ops = append(ops, genRule())
		case r >= 109:
			ops = append(ops, "delrule "+rt.Pick(h, []string{"r1", "r2", "r3"}))
		case r < 24:
			ops = append(ops, ipsetLine(rt.Pick(h, defs)))
		case r < 32:
			ops = append(ops, "delipset "+rt.Pick(h, defs).id)
		case r < 40:
			if l, ok := reorderEp(); ok {
				ops = append(ops, l)
				break
			}
			ops = append(ops, genEp(h, rt.Pick(h, epIDs)))
		case r < 68:
			ops = append(ops, genEp(h, rt.Pick(h, epIDs)))
		case r < 76:
			ops = append(ops, "delep "+rt.Pick(h, epIDs))
		case r < 91:
			ops = append(ops, fmt.Sprintf("parent %s %s", rt.Pick(h, []string{"p1", "p2", "p3"}), showLabels(genLabels(h))))
		case r < 96:
			ops = append(ops, "delparent "+rt.Pick(h, []string{"p1", "p2", "p3"}))
		default:
			if len(ops) > 1 {
				ops = append(ops, ops[1+h.Intn(len(ops)-1)]) // replay an earlier op (duplicate / revert)
			}
		}
	}
	return ops
}

func main() {
	h := rt.New()
	defer h.Close()
	h.Rule = "case = one index (suppressor off/on) + 6..35 ops over {ipset, delipset, ep (WEP/HEP/NetworkSet), re-issue of an endpoint with ONLY its profile order permuted (8%), delep, parent, delparent, repeat-earlier-op}; 25% of cases start with two profiles giving the same label key different values + a selector on it + an endpoint inheriting from both; " +
		"selectors from the real grammar over labels a,b,c; nets from pools with shared IPs, nested/duplicate/non-canonical CIDRs, /0, v4+v6; named ports with mixed protocols; " +
		"distinct = distinct op sequence; non-trivial = at some point an IP set has >=1 member and a member is contributed by >=2 endpoints or a CIDR is suppressed"
	s := &state{}
	prevParents, prevRest := map[string]string{}, map[string]string{}
	run := func(ops []string, tag string) {
		h.Case(tag)
		nontriv := false
		for _, op := range ops {
			if fw := strings.Fields(op); fw[0] == "dipset" || fw[0] == "ddelipset" {
				continue // derived lines of a replayed case: regenerated by the real RuleScanner
			}
			s.derived = nil
			out := exec(h, s, op)
			h.Op(op, out)
			for _, d := range s.derived {
				h.Op(d[0], d[1])
				h.Count("op:" + strings.Fields(d[0])[0])
			}
			h.Count("op:" + strings.Fields(op)[0])
			if fw := strings.Fields(op); fw[0] == "ep" && prevParents[fw[2]] != "" && prevParents[fw[2]] != fw[6] && prevRest[fw[2]] == strings.Join(append(append([]string{}, fw[:6]...), sortedCSV(fw[6])), " ") {
				h.Count("ep:parent-order-only-change")
			}
			if fw := strings.Fields(op); fw[0] == "ep" {
				prevParents[fw[2]] = fw[6]
				prevRest[fw[2]] = strings.Join(append(append([]string{}, fw[:6]...), sortedCSV(fw[6])), " ")
			} else if fw[0] == "delep" {
				delete(prevParents, fw[1])
				delete(prevRest, fw[1])
			} else if fw[0] == "new" {
				prevParents, prevRest = map[string]string{}, map[string]string{}
			}
			if strings.Contains(out, "=2") || strings.Contains(out, "=3") {
				nontriv = true
				h.Count("shared-member-lines")
			}
			if s.suppress && out != "ok" {
				// suppressed = refcounted CIDR members not present in D
				if f := strings.Fields(out); len(f) >= 2 && strings.Count(f[1], ":c") > strings.Count(f[0], ":c") {
					nontriv = true
					h.Count("suppressed-lines")
				}
			}
			if strings.Contains(out, ":p") {
				h.Count("named-port-member-lines")
			}
		}
		if s.suppress {
			h.Count("mode:suppress")
		} else {
			h.Count("mode:noop")
		}
		if nontriv {
			h.Nontrivial(strings.Join(ops, ";"))
		}
		h.Sample()
	}
	if h.Replay != "" {
		run(h.ReplayLines(), "replay")
		return
	}
	for i := 0; i < h.N; i++ {
		run(genCase(h), "gen")
	}
}
