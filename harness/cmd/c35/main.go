// C35 correspondence harness: drives the real felix/markbits.MarkBitsManager.
package main

import (
	"fmt"
	"math/bits"
	"strconv"
	"strings"
	"time"

	"github.com/projectcalico/calico/felix/markbits"

	"verif/harness/rt"
)

type state struct {
	m    *markbits.MarkBitsManager
	mask uint32
	got  []uint32 // single-bit marks handed out since `new` (for the oracle)
}

func optU32(v uint32, err error) string {
	if err != nil {
		return "err"
	}
	return strconv.FormatUint(uint64(v), 10)
}

// exec runs one protocol op on the REAL code and returns the canonical output.
func exec(h *rt.H, s *state, op string) string {
	w := strings.Fields(op)
	switch w[0] {
	case "new":
		k, _ := strconv.ParseUint(w[1], 10, 64)
		s.mask = uint32(k)
		s.m = markbits.NewMarkBitsManager(uint32(k), "verif")
		s.got = nil
		return "ok"
	case "single":
		var v uint32
		var err error
		h.Deadline(20*time.Second, "alloc-never-returns", "NextSingleBitMark did not return (allocation must succeed or fail)",
			map[string]any{"mask": s.mask, "allocated": len(s.got)}, func() { v, err = s.m.NextSingleBitMark() })
		if err == nil {
			// property oracle on the real code: distinct single bits inside the mask
			if bits.OnesCount32(v) != 1 || v&s.mask != v {
				h.OracleFail("single-not-in-mask", "allocated mark is not a single bit inside the mask", map[string]any{"mask": s.mask, "mark": v})
			}
			for _, g := range s.got {
				if g == v {
					h.OracleFail("single-dup", "same mark bit handed out twice", map[string]any{"mask": s.mask, "mark": v})
				}
			}
			s.got = append(s.got, v)
		} else if len(s.got) < bits.OnesCount32(s.mask) {
			h.OracleFail("early-exhaustion", "allocation failed before the mask was exhausted", map[string]any{"mask": s.mask, "allocated": len(s.got)})
		}
		if err == nil && len(s.got) > bits.OnesCount32(s.mask) {
			h.OracleFail("late-exhaustion", "allocation succeeded after the mask was exhausted", map[string]any{"mask": s.mask, "allocated": len(s.got)})
		}
		return optU32(v, err)
	case "block":
		k, _ := strconv.Atoi(w[1])
		before := s.m.AvailableMarkBitCount()
		var mark uint32
		var n int
		h.Deadline(20*time.Second, "alloc-never-returns", "NextBlockBitsMark did not return (allocation must succeed or fail)",
			map[string]any{"mask": s.mask, "allocated": len(s.got), "size": k}, func() { mark, n = s.m.NextBlockBitsMark(k) })
		for i := 0; i < 32; i++ {
			if b := uint32(1) << i; mark&b != 0 {
				for _, g := range s.got {
					if g == b {
						h.OracleFail("block-dup", "block contains a bit already handed out", map[string]any{"mask": s.mask, "mark": mark})
					}
				}
				s.got = append(s.got, b)
			}
		}
		want := k
		if before < k {
			want = before
		}
		if k < 0 {
			// a negative size allocates nothing and echoes the size (documented Go behaviour, no property claim
			// beyond "nothing is handed out")
			if mark != 0 || s.m.AvailableMarkBitCount() != before {
				h.OracleFail("block-negative", "negative block size handed out bits", map[string]any{"mask": s.mask, "size": k, "mark": mark})
			}
		} else if n != want || bits.OnesCount32(mark) != n || mark&s.mask != mark {
			h.OracleFail("block-size", "block allocation returned wrong number of bits", map[string]any{"mask": s.mask, "size": k, "mark": mark, "n": n})
		}
		return fmt.Sprintf("%d %d", mark, n)
	case "n2m":
		k, _ := strconv.ParseInt(w[1], 10, 64)
		v, err := s.m.MapNumberToMark(int(k))
		pc := bits.OnesCount32(s.mask)
		if k >= 0 && k < (int64(1)<<pc) {
			if err != nil || v&s.mask != v {
				h.OracleFail("n2m-fits", "number that fits the mask did not map to a mark inside the mask", map[string]any{"mask": s.mask, "n": k})
			} else if back, err2 := s.m.MapMarkToNumber(v); err2 != nil || int64(back) != k {
				h.OracleFail("n2m-roundtrip", "number -> mark -> number is not the identity", map[string]any{"mask": s.mask, "n": k, "mark": v, "back": back})
			}
		} else if k >= (int64(1)<<pc) && k < (int64(1)<<32) && err == nil {
			h.OracleFail("n2m-toobig", "number that does not fit the mask was accepted", map[string]any{"mask": s.mask, "n": k, "mark": v})
		}
		return optU32(v, err)
	case "m2n":
		k, _ := strconv.ParseUint(w[1], 10, 64)
		v, err := s.m.MapMarkToNumber(uint32(k))
		if err != nil {
			return "err"
		}
		return strconv.Itoa(v)
	case "free":
		return strconv.Itoa(s.m.CurrentFreeNumberOfMark())
	case "avail":
		return strconv.Itoa(s.m.AvailableMarkBitCount())
	}
	panic("unknown op " + op)
}

func genMask(h *rt.H) uint32 {
	switch h.Intn(8) {
	case 0:
		return 0
	case 1:
		return 0xffffffff
	case 2: // contiguous block
		w := 1 + h.Intn(32)
		sh := h.Intn(33 - w)
		return uint32((uint64(1)<<w - 1) << sh)
	case 3: // sparse few bits
		var m uint32
		for i := 0; i < 1+h.Intn(4); i++ {
			m |= 1 << h.Intn(32)
		}
		return m
	case 4: // top bit involved
		return 0x80000000 | uint32(h.Rng.Uint32())
	case 5: // felix default-ish masks
		return rt.Pick(h, []uint32{0xffff0000, 0xff000000, 0xfff00000, 0x0000ffff, 0x1, 0x80000000})
	default:
		return h.Rng.Uint32()
	}
}

func genCase(h *rt.H) []string {
	mask := genMask(h)
	pc := bits.OnesCount32(mask)
	ops := []string{fmt.Sprintf("new %d", mask)}
	n := 4 + h.Intn(40)
	for i := 0; i < n; i++ {
		switch h.Intn(10) {
		case 0, 1, 2:
			ops = append(ops, "single")
		case 3:
			if h.Intn(12) == 0 {
				ops = append(ops, fmt.Sprintf("block %d", -1-h.Intn(5)))
			} else {
				ops = append(ops, fmt.Sprintf("block %d", h.Intn(pc+3)))
			}
		case 4, 5, 6:
			var k int64
			switch h.Intn(6) {
			case 0:
				k = int64(1)<<pc - 1
			case 1:
				k = int64(1) << pc
			case 2:
				k = h.Rng.Int63n(int64(1)<<pc + 1)
			case 3:
				k = int64(h.Rng.Uint32())
			case 4:
				k = -h.Rng.Int63n(5) // negative ints wrap through uint32(n)
			default:
				k = int64(1)<<32 + h.Rng.Int63n(1<<uint(pc+1)) // truncated by uint32(n)
			}
			ops = append(ops, fmt.Sprintf("n2m %d", k))
		case 7, 8:
			var mk uint32
			if h.Bool() {
				mk = h.Rng.Uint32() & mask
			} else {
				mk = h.Rng.Uint32()
			}
			ops = append(ops, fmt.Sprintf("m2n %d", mk))
		default:
			ops = append(ops, rt.Pick(h, []string{"free", "avail"}))
		}
	}
	return ops
}

func main() {
	h := rt.New()
	defer h.Close()
	h.Rule = "case = one mask (zero/full/contiguous/sparse/top-bit/felix-like/random) + 4..43 ops over {single, block, n2m, m2n, free, avail}; " +
		"distinct = distinct (mask, op-sequence); non-trivial = mask has >=1 bit and the case contains an allocation reaching exhaustion or an n2m at/around 2^popcount"
	run := func(ops []string, tag string) {
		h.Case(tag)
		s := &state{}
		nontriv := false
		for _, op := range ops {
			out := exec(h, s, op)
			h.Op(op, out)
			h.Count("op:" + strings.Fields(op)[0])
			if out == "err" {
				h.Count("err:" + strings.Fields(op)[0])
				nontriv = true
			}
		}
		h.Count(fmt.Sprintf("popcount:%02d", bits.OnesCount32(s.mask)/8*8))
		if nontriv && s.mask != 0 {
			h.Nontrivial(strings.Join(ops, ";"))
		}
		h.Sample()
	}
	if h.Replay != "" {
		run(h.ReplayLines(), "replay")
		return
	}
	for i := 0; i < h.N; i++ {
		run(genCase(h), "gen")
	}
}
