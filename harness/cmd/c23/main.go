// C23 correspondence harness: drives the real kube-controllers IPAMController
// (IPAM garbage collector) synchronously through the verif export hook, with a
// recording IPAM client, fake Calico node client, a fake Kubernetes clientset
// (the "API") and pod/node indexers (the informer "cache").
//
// Time: the hook's VerifAdvanceClock(d) moves every timestamp the collector has
// stored back by d, which is observationally the wall clock advancing by d.
package main

import (
	"context"
	"fmt"
	"sort"
	"strconv"
	"strings"
	"time"

	v1 "k8s.io/api/core/v1"
	metav1 "k8s.io/apimachinery/pkg/apis/meta/v1"
	"k8s.io/client-go/kubernetes/fake"
	"k8s.io/client-go/tools/cache"

	"github.com/projectcalico/calico/kube-controllers/pkg/config"
	"github.com/projectcalico/calico/kube-controllers/pkg/controllers/node"
	"github.com/projectcalico/calico/libcalico-go/lib/apis/internalapi"
	bapi "github.com/projectcalico/calico/libcalico-go/lib/backend/api"
	"github.com/projectcalico/calico/libcalico-go/lib/backend/model"
	clientv3 "github.com/projectcalico/calico/libcalico-go/lib/clientv3"
	cerrors "github.com/projectcalico/calico/libcalico-go/lib/errors"
	"github.com/projectcalico/calico/libcalico-go/lib/ipam"
	"github.com/projectcalico/calico/libcalico-go/lib/kubevirt"
	cnet "github.com/projectcalico/calico/libcalico-go/lib/net"
	"github.com/projectcalico/calico/libcalico-go/lib/options"
	"github.com/projectcalico/calico/libcalico-go/lib/watch"

	"verif/harness/rt"
)

const winresHandle = 99
const blockSize = 8

// ---- fakes -------------------------------------------------------------------

type relItem struct{ b, o, h, seq int }

type recIPAM struct {
	ipam.Interface
	failNext bool // the next ReleaseIPs call returns an error and releases nothing
	rel      [][]relItem
	rba      [][2]int
	rha      []int
}

func (r *recIPAM) ReleaseIPs(ctx context.Context, opts ...ipam.ReleaseOptions) ([]cnet.IP, []ipam.ReleaseOptions, error) {
	var batch []relItem
	for _, o := range opts {
		b, ord := ipNum(o.Address)
		seq := -1
		if o.SequenceNumber != nil {
			seq = int(*o.SequenceNumber)
		}
		batch = append(batch, relItem{b, ord, handleNum(o.Handle), seq})
	}
	r.rel = append(r.rel, batch)
	if r.failNext {
		r.failNext = false
		return nil, nil, fmt.Errorf("injected datastore error")
	}
	return nil, opts, nil
}
func (r *recIPAM) ReleaseBlockAffinity(ctx context.Context, block *model.AllocationBlock, mustBeEmpty bool) error {
	b, _ := ipNum(block.CIDR.IP.String())
	r.rba = append(r.rba, [2]int{b, num(strings.TrimPrefix(*block.Affinity, "host:"), "n")})
	return nil
}
func (r *recIPAM) ReleaseHostAffinities(ctx context.Context, cfg ipam.AffinityConfig, mustBeEmpty bool) error {
	r.rha = append(r.rha, num(cfg.Host, "n"))
	return nil
}

type fakeNodes struct{ nodes map[string]*internalapi.Node }

func (f *fakeNodes) Create(ctx context.Context, res *internalapi.Node, opts options.SetOptions) (*internalapi.Node, error) {
	f.nodes[res.Name] = res
	return res, nil
}
func (f *fakeNodes) Update(ctx context.Context, res *internalapi.Node, opts options.SetOptions) (*internalapi.Node, error) {
	f.nodes[res.Name] = res
	return res, nil
}
func (f *fakeNodes) Delete(ctx context.Context, name string, opts options.DeleteOptions) (*internalapi.Node, error) {
	n := f.nodes[name]
	delete(f.nodes, name)
	return n, nil
}
func (f *fakeNodes) Get(ctx context.Context, name string, opts options.GetOptions) (*internalapi.Node, error) {
	if n, ok := f.nodes[name]; ok {
		return n, nil
	}
	return nil, cerrors.ErrorResourceDoesNotExist{Identifier: name}
}
func (f *fakeNodes) List(ctx context.Context, opts options.ListOptions) (*internalapi.NodeList, error) {
	panic("not used")
}
func (f *fakeNodes) Watch(ctx context.Context, opts options.ListOptions) (watch.Interface, error) {
	panic("not used")
}

type recClient struct {
	*node.FakeCalicoClient
	ipam  *recIPAM
	nodes *fakeNodes
}

func (r *recClient) IPAM() ipam.Interface          { return r.ipam }
func (r *recClient) Nodes() clientv3.NodeInterface { return r.nodes }

// ---- naming ----------------------------------------------------------------------

func num(s, prefix string) int {
	if !strings.HasPrefix(s, prefix) {
		return -1
	}
	n, err := strconv.Atoi(s[len(prefix):])
	if err != nil {
		return -1
	}
	return n
}
func nodeName(k int) string { return fmt.Sprintf("n%d", k) }
func handleName(h int) string {
	if h == winresHandle {
		return ipam.WindowsReservedHandle
	}
	return fmt.Sprintf("h%d", h)
}
func handleNum(s string) int {
	if s == ipam.WindowsReservedHandle {
		return winresHandle
	}
	return num(s, "h")
}
func ipStr(b, o int) string { return fmt.Sprintf("10.0.%d.%d", b, o) }
func ipNum(s string) (int, int) {
	p := strings.Split(s, ".")
	if len(p) != 4 {
		return -1, -1
	}
	b, _ := strconv.Atoi(p[2])
	o, _ := strconv.Atoi(p[3])
	return b, o
}
func podName(p int) string { return fmt.Sprintf("pod%d", p) }

// ---- op language -------------------------------------------------------------------

type entry struct {
	ord, handle int // handle -1 = none
	kind        string
	node, pod   int
	seq         int
}

func parseEntries(s string) []entry {
	if s == "-" {
		return nil
	}
	var out []entry
	for _, e := range strings.Split(s, ";") {
		f := strings.Split(e, ":")
		a := func(i int) int { n, _ := strconv.Atoi(f[i]); return n }
		h := -1
		if f[1] != "-" {
			h = a(1)
		}
		out = append(out, entry{a(0), h, f[2], a(3), a(4), a(5)})
	}
	return out
}
func showEntries(es []entry) string {
	if len(es) == 0 {
		return "-"
	}
	var ss []string
	for _, e := range es {
		h := "-"
		if e.handle >= 0 {
			h = strconv.Itoa(e.handle)
		}
		ss = append(ss, fmt.Sprintf("%d:%s:%s:%d:%d:%d", e.ord, h, e.kind, e.node, e.pod, e.seq))
	}
	return strings.Join(ss, ";")
}
func optInt(s string) int {
	if s == "-" {
		return -1
	}
	if s == "v" {
		return -2 // a non-host affinity (virtual:...)
	}
	n, _ := strconv.Atoi(s)
	return n
}
func showOpt(n int) string {
	if n == -2 {
		return "v"
	}
	if n < 0 {
		return "-"
	}
	return strconv.Itoa(n)
}
func parseIPs(s string) [][2]int {
	if s == "-" {
		return nil
	}
	var out [][2]int
	for _, x := range strings.Split(s, ",") {
		b, o, _ := strings.Cut(x, ".")
		bi, _ := strconv.Atoi(b)
		oi, _ := strconv.Atoi(o)
		out = append(out, [2]int{bi, oi})
	}
	return out
}
func showIPs(ips [][2]int) string {
	if len(ips) == 0 {
		return "-"
	}
	var ss []string
	for _, x := range ips {
		ss = append(ss, fmt.Sprintf("%d.%d", x[0], x[1]))
	}
	return strings.Join(ss, ",")
}
func joinOr(ss []string, sep string) string {
	if len(ss) == 0 {
		return "-"
	}
	return strings.Join(ss, sep)
}

func buildBlock(b int, aff int, es []entry) model.KVPair {
	cidr := cnet.MustParseCIDR(fmt.Sprintf("10.0.%d.0/29", b))
	blk := &model.AllocationBlock{CIDR: cidr, Allocations: make([]*int, blockSize), SequenceNumberForAllocation: map[string]uint64{}}
	if aff >= 0 {
		a := "host:" + nodeName(aff)
		blk.Affinity = &a
	} else if aff == -2 {
		a := "virtual:load-balancer"
		blk.Affinity = &a
	}
	used := map[int]bool{}
	for _, e := range es {
		attrs := map[string]string{}
		if e.node != 0 {
			attrs[ipam.AttributeNode] = nodeName(e.node)
		}
		switch e.kind {
		case "p":
			attrs[ipam.AttributePod] = podName(e.pod)
			attrs[ipam.AttributeNamespace] = "ns"
		case "t":
			attrs[ipam.AttributeType] = ipam.AttributeTypeIPIP
		}
		at := model.AllocationAttribute{ActiveOwnerAttrs: attrs}
		if e.handle >= 0 {
			h := handleName(e.handle)
			at.HandleID = &h
		}
		idx := len(blk.Attributes)
		blk.Attributes = append(blk.Attributes, at)
		blk.Allocations[e.ord] = &idx
		blk.SequenceNumberForAllocation[strconv.Itoa(e.ord)] = uint64(e.seq)
		used[e.ord] = true
	}
	for o := 0; o < blockSize; o++ {
		if !used[o] {
			blk.Unallocated = append(blk.Unallocated, o)
		}
	}
	return model.KVPair{Key: model.BlockKey{CIDR: model.PrefixFromIPNet(cidr)}, Value: blk}
}

// ---- the facts (ground truth) the oracle judges against ------------------------------

type podT struct {
	node    int
	evicted bool
	ips     [][2]int
}
type blockT struct {
	aff int
	es  []entry
}
type facts struct {
	grace    int // minutes; -1 = nil
	now      int
	knodes   map[int]bool
	cnodes   map[int]int // -1 = no orchRef
	cache    map[int]podT
	api      map[int]podT
	blocks   map[int]blockT
	since    map[string]int  // id -> time it was first seen as a leak candidate (continuously since)
	confGone map[string]bool // id -> its node was gone (per the ground truth) at the sync that confirmed it as a leak
	insync   bool
}

func newFacts(grace int) *facts {
	return &facts{grace: grace, knodes: map[int]bool{}, cnodes: map[int]int{}, cache: map[int]podT{}, api: map[int]podT{}, blocks: map[int]blockT{}, since: map[string]int{}, confGone: map[string]bool{}}
}

// ownerJustifies: does the owner of this allocation (per the API = the truth) still justify it?
func (f *facts) ownerJustifies(e entry, b int) bool { return f.justifiedBy(f.api, e, b) }

// justifiedBy: same judgement against an arbitrary pod source (API = the truth, or the informer cache)
func (f *facts) justifiedBy(pods map[int]podT, e entry, b int) bool {
	switch e.kind {
	case "t":
		// a tunnel address is justified while its node exists
		k, ok := f.cnodes[e.node]
		return ok && k >= 0 && f.knodes[k]
	case "p":
		p, ok := pods[e.pod]
		if !ok {
			return false
		}
		if k, ok := f.cnodes[e.node]; ok && k >= 0 && p.node != 0 && p.node != k {
			return false // rescheduled to another node
		}
		if len(p.ips) == 0 {
			return true
		}
		if p.evicted {
			return false
		}
		for _, ip := range p.ips {
			if ip == [2]int{b, e.ord} {
				return true
			}
		}
		return false
	}
	return true
}

// ---- exec on the REAL controller -------------------------------------------------------

type state struct {
	c       *node.IPAMController
	cli     *recClient
	cs      *fake.Clientset
	podIdx  cache.Indexer
	nodeIdx cache.Indexer
	f       *facts
	history []string
	failed  map[string]bool
}

func newState(grace int) *state {
	s := &state{f: newFacts(grace), failed: map[string]bool{}}
	s.cs = fake.NewClientset()
	base := node.NewFakeCalicoClient()
	s.cli = &recClient{FakeCalicoClient: base, ipam: &recIPAM{Interface: base.IPAM()}, nodes: &fakeNodes{nodes: map[string]*internalapi.Node{}}}
	s.podIdx = cache.NewIndexer(cache.MetaNamespaceKeyFunc, cache.Indexers{cache.NamespaceIndex: cache.MetaNamespaceIndexFunc})
	s.nodeIdx = cache.NewIndexer(cache.MetaNamespaceKeyFunc, cache.Indexers{})
	cfg := config.NodeControllerConfig{}
	if grace >= 0 {
		cfg.LeakGracePeriod = &metav1.Duration{Duration: time.Duration(grace) * time.Minute}
	}
	di := kubevirt.NewDeferredInformersWithIndexers(cache.NewIndexer(cache.MetaNamespaceKeyFunc, cache.Indexers{}), cache.NewIndexer(cache.MetaNamespaceKeyFunc, cache.Indexers{}))
	s.c = node.NewIPAMController(cfg, s.cli, s.cs, s.podIdx, s.nodeIdx, di)
	return s
}

func mkPod(id int, p podT) *v1.Pod {
	pod := &v1.Pod{ObjectMeta: metav1.ObjectMeta{Name: podName(id), Namespace: "ns"}, Spec: v1.PodSpec{}}
	if p.node != 0 {
		pod.Spec.NodeName = nodeName(p.node)
	}
	for _, ip := range p.ips {
		pod.Status.PodIPs = append(pod.Status.PodIPs, v1.PodIP{IP: ipStr(ip[0], ip[1])})
	}
	if len(p.ips) > 0 {
		pod.Status.PodIP = ipStr(p.ips[0][0], p.ips[0][1])
	}
	pod.Status.Phase = v1.PodRunning
	if p.evicted {
		pod.Status.Phase = v1.PodFailed
		pod.Status.Reason = "Evicted"
	}
	return pod
}

func b01(x bool) string {
	if x {
		return "1"
	}
	return "0"
}

func exec(h *rt.H, s *state, op string) string {
	w := strings.Fields(op)
	a := func(i int) int { n, _ := strconv.Atoi(w[i]); return n }
	fail := func(sig, desc string) {
		if s.failed[sig] {
			return
		}
		s.failed[sig] = true
		h.OracleFail(sig, desc, map[string]any{"history": append([]string(nil), s.history...)})
	}
	if w[0] == "new" {
		*s = *newState(optInt(w[1]))
		s.history = []string{op}
		return "ok"
	}
	s.history = append(s.history, op)
	f := s.f
	ctx := context.Background()
	switch w[0] {
	case "insync":
		s.c.VerifHandleUpdate(bapi.InSync)
		f.insync = true
	case "block":
		es := parseEntries(w[3])
		s.c.VerifHandleUpdate(buildBlock(a(1), optInt(w[2]), es))
		f.blocks[a(1)] = blockT{aff: optInt(w[2]), es: es}
	case "blockdel":
		cidr := cnet.MustParseCIDR(fmt.Sprintf("10.0.%d.0/29", a(1)))
		s.c.VerifHandleUpdate(model.KVPair{Key: model.BlockKey{CIDR: model.PrefixFromIPNet(cidr)}})
		delete(f.blocks, a(1))
	case "cnode":
		n := &internalapi.Node{ObjectMeta: metav1.ObjectMeta{Name: nodeName(a(1))}}
		k := optInt(w[2])
		if k >= 0 {
			n.Spec.OrchRefs = []internalapi.OrchRef{{NodeName: nodeName(k), Orchestrator: "k8s"}}
		}
		s.cli.nodes.nodes[n.Name] = n
		s.c.VerifHandleUpdate(model.KVPair{Key: model.ResourceKey{Kind: internalapi.KindNode, Name: n.Name}, Value: n})
		f.cnodes[a(1)] = k
	case "cnodedel":
		delete(s.cli.nodes.nodes, nodeName(a(1)))
		s.c.VerifHandleUpdate(model.KVPair{Key: model.ResourceKey{Kind: internalapi.KindNode, Name: nodeName(a(1))}})
		delete(f.cnodes, a(1))
	case "knode":
		n := &v1.Node{ObjectMeta: metav1.ObjectMeta{Name: nodeName(a(1))}}
		if a(2) == 1 {
			_ = s.nodeIdx.Add(n)
			f.knodes[a(1)] = true
		} else {
			_ = s.nodeIdx.Delete(n)
			delete(f.knodes, a(1))
		}
	case "pod":
		p := podT{node: a(4), evicted: a(5) == 1, ips: parseIPs(w[6])}
		pod := mkPod(a(1), p)
		if a(2) == 1 {
			_ = s.podIdx.Add(pod)
			f.cache[a(1)] = p
		}
		if a(3) == 1 {
			_ = s.cs.Tracker().Delete(v1.SchemeGroupVersion.WithResource("pods"), "ns", pod.Name)
			_ = s.cs.Tracker().Add(pod)
			f.api[a(1)] = p
		}
	case "poddel":
		pod := mkPod(a(1), podT{})
		if a(2) == 1 {
			_ = s.podIdx.Delete(pod)
			delete(f.cache, a(1))
		}
		if a(3) == 1 {
			_ = s.cs.CoreV1().Pods("ns").Delete(ctx, pod.Name, metav1.DeleteOptions{})
			delete(f.api, a(1))
		}
	case "dirty":
		if a(1) != 0 {
			s.c.VerifMarkDirty(nodeName(a(1)))
		}
	case "failrel":
		s.cli.ipam.failNext = true
	case "tick":
		s.c.VerifAdvanceClock(time.Duration(a(1)) * time.Minute)
		f.now += a(1)
	case "dump":
		return dump(h, s, fail)
	case "sync":
		return doSync(h, s, a(1) == 1, fail)
	default:
		panic("unknown op " + op)
	}
	return "ok"
}

func idStr(h, b, o int) string { return fmt.Sprintf("%d/%d.%d", h, b, o) }

func doSync(h *rt.H, s *state, full bool, fail func(string, string)) string {
	f := s.f
	rec := s.cli.ipam
	rec.rel, rec.rba, rec.rha = nil, nil, nil
	before := s.c.VerifState()
	err := s.c.VerifSync(full)
	after := s.c.VerifState()

	// --- the property's oracle, on the real code's calls ---
	tracked := map[string]node.VerifAlloc{}
	byHandle := map[int][]string{}
	for _, al := range before.ByBlock {
		b, o := ipNum(al.IP)
		id := idStr(handleNum(al.Handle), b, o)
		tracked[id] = al
		byHandle[handleNum(al.Handle)] = append(byHandle[handleNum(al.Handle)], id)
	}
	for _, batch := range rec.rel {
		inBatch := map[string]bool{}
		for _, r := range batch {
			inBatch[idStr(r.h, r.b, r.o)] = true
		}
		for _, r := range batch {
			id := idStr(r.h, r.b, r.o)
			h.Count("released")
			// find the allocation in the latest block the collector has seen
			var ent *entry
			if blk, ok := f.blocks[r.b]; ok {
				for i := range blk.es {
					if blk.es[i].ord == r.o && blk.es[i].handle == r.h {
						ent = &blk.es[i]
					}
				}
			}
			if ent == nil {
				fail("release-unknown", "released an address that is not allocated (with that handle) in the latest block seen: "+id)
				continue
			}
			if ent.seq != r.seq {
				fail("release-seq", fmt.Sprintf("released %s with sequence number %d, the allocation seen has %d", id, r.seq, ent.seq))
			}
			if f.ownerJustifies(*ent, r.b) {
				sig := "release-in-use"
				if k, ok := f.cnodes[ent.node]; (!ok || k < 0 || !f.knodes[k]) && !f.justifiedBy(f.cache, *ent, r.b) {
					// the hosting node is gone/unknown AND the informer cache has lost the pod the API still has:
					// the final check used the stale cache, no grace period (known trade-off).  When cache and API
					// AGREE that the pod exists with this address, this stays a plain release-in-use alarm.
					sig = "release-in-use-node-gone-stale-cache"
				}
				fail(sig, "released an address whose owner still justifies it at the time of release: "+id)
			}
			// grace: only needed while the hosting Kubernetes node still exists
			// (an allocation confirmed in an EARLIER sync while its node was gone needed no grace period then)
			if k, ok := f.cnodes[ent.node]; ok && k >= 0 && f.knodes[k] && !f.confGone[id] {
				t0, seen := f.since[id]
				if f.grace <= 0 || !seen || f.now-t0 <= f.grace {
					fail("release-before-grace", fmt.Sprintf("released %s on an existing node before the grace period elapsed (grace=%d now=%d candidateSince=%d seen=%v)", id, f.grace, f.now, t0, seen))
				}
			}
			for _, other := range byHandle[r.h] {
				if !inBatch[other] {
					fail("handle-split", fmt.Sprintf("released %s but not %s which shares its handle", id, other))
				}
			}
		}
	}
	for _, x := range rec.rba {
		h.Count("block-affinity-released")
		b, n := x[0], x[1]
		others := 0
		for ob, blk := range f.blocks {
			if ob != b && blk.aff == n {
				others++
			}
		}
		if others == 0 {
			// did the collector's own index (before this sync) list >= 2 blocks for the node? then the guard passed on a stale entry
			idx := 0
			for _, x := range before.BlocksByNode {
				if strings.HasPrefix(x, nodeName(n)+"|") {
					idx++
				}
			}
			sig := "last-block"
			if idx >= 2 {
				sig = "last-block-stale-index"
			}
			fail(sig, fmt.Sprintf("released the affinity of block %d, the last block of node %d (blocksByNode listed %d blocks for it)", b, n, idx))
		}
		if blk, ok := f.blocks[b]; !ok || len(blk.es) != 0 {
			h.Count("obs:nonempty-block-affinity-released") // outside C23's statement (C22's concern): counted, not an alarm
		}
		delete(f.blocks, b) // the collector forgets it (the datastore deletes an empty block whose affinity is released)
	}
	for range rec.rha {
		h.Count("host-affinities-released")
	}
	// candidate bookkeeping for the grace oracle
	live := map[string]bool{}
	for _, al := range after.ByBlock {
		b, o := ipNum(al.IP)
		id := idStr(handleNum(al.Handle), b, o)
		if al.Candidate || al.Confirmed {
			live[id] = true
			if _, ok := f.since[id]; !ok {
				f.since[id] = f.now
			}
			if _, ok := f.confGone[id]; al.Confirmed && !ok {
				nd := num(al.Node, "n")
				k, known := f.cnodes[nd]
				f.confGone[id] = !(known && k >= 0 && f.knodes[k])
			}
		}
	}
	for id := range f.since {
		if !live[id] {
			delete(f.since, id)
			delete(f.confGone, id)
		}
	}

	// --- canonical output ---
	var rel, rba, rha []string
	var all []relItem
	for _, batch := range rec.rel {
		all = append(all, batch...)
	}
	sort.Slice(all, func(i, j int) bool {
		x, y := all[i], all[j]
		if x.h != y.h {
			return x.h < y.h
		}
		if x.b != y.b {
			return x.b < y.b
		}
		return x.o < y.o
	})
	for _, r := range all {
		rel = append(rel, fmt.Sprintf("%d.%d/%d/%d", r.b, r.o, r.h, r.seq))
	}
	sort.Slice(rec.rba, func(i, j int) bool { return rec.rba[i][0] < rec.rba[j][0] })
	for _, x := range rec.rba {
		rba = append(rba, fmt.Sprintf("%d/%d", x[0], x[1]))
	}
	sort.Ints(rec.rha)
	for _, n := range rec.rha {
		rha = append(rha, strconv.Itoa(n))
	}
	res := "ok"
	if err != nil {
		res = "work"
	}
	return fmt.Sprintf("rel=%s rba=%s rha=%s %s", joinOr(rel, ","), joinOr(rba, ","), joinOr(rha, ","), res)
}

func dump(h *rt.H, s *state, fail func(string, string)) string {
	v := s.c.VerifState()
	type al struct {
		h, b, o int
		s       string
	}
	var als []al
	ids := map[string]bool{}
	var wantNode, wantHandle []string
	for _, x := range v.ByBlock {
		b, o := ipNum(x.IP)
		kn := "-"
		if x.KNode != "" {
			kn = strconv.Itoa(num(x.KNode, "n"))
		}
		nd := 0
		if x.Node != "" {
			nd = num(x.Node, "n")
			wantNode = append(wantNode, x.Node+"|"+x.ID)
		}
		wantHandle = append(wantHandle, x.Handle+"|"+x.ID)
		ids[x.ID] = true
		als = append(als, al{handleNum(x.Handle), b, o, fmt.Sprintf("%d/%d.%d:%d:%s:%d:%s:%s", handleNum(x.Handle), b, o, nd, kn, x.Seq, b01(x.Candidate), b01(x.Confirmed))})
	}
	sort.Slice(als, func(i, j int) bool {
		x, y := als[i], als[j]
		if x.h != y.h {
			return x.h < y.h
		}
		if x.b != y.b {
			return x.b < y.b
		}
		return x.o < y.o
	})
	// bookkeeping oracle: the collector's indexes agree with each other and with the blocks it has seen
	sort.Strings(wantNode)
	sort.Strings(wantHandle)
	if strings.Join(wantNode, ",") != strings.Join(v.ByNode, ",") {
		fail("index-by-node", fmt.Sprintf("allocationState.allocationsByNode %v disagrees with allocationsByBlock %v", v.ByNode, wantNode))
	}
	if strings.Join(wantHandle, ",") != strings.Join(v.ByHandle, ",") {
		fail("index-by-handle", fmt.Sprintf("handleTracker %v disagrees with allocationsByBlock %v", v.ByHandle, wantHandle))
	}
	for _, id := range v.ConfirmedLeaks {
		if !ids[id] {
			fail("leak-not-tracked", "confirmedLeaks holds an allocation that is no longer tracked: "+id)
		}
	}
	for _, x := range v.ByBlock {
		b, o := ipNum(x.IP)
		found := false
		if blk, ok := s.f.blocks[b]; ok {
			for _, e := range blk.es {
				if e.ord == o && e.handle == handleNum(x.Handle) {
					found = true
				}
			}
		}
		if !found {
			fail("tracked-not-in-block", "the collector tracks an allocation that is not in the latest block it has seen: "+x.ID)
		}
	}
	var allocs, leaks []string
	for _, x := range als {
		allocs = append(allocs, x.s)
	}
	var lk []al
	for _, id := range v.ConfirmedLeaks {
		hs, ip, _ := strings.Cut(id, "/")
		b, o := ipNum(ip)
		lk = append(lk, al{handleNum(hs), b, o, idStr(handleNum(hs), b, o)})
	}
	sort.Slice(lk, func(i, j int) bool {
		x, y := lk[i], lk[j]
		if x.h != y.h {
			return x.h < y.h
		}
		if x.b != y.b {
			return x.b < y.b
		}
		return x.o < y.o
	})
	for _, x := range lk {
		leaks = append(leaks, x.s)
	}
	nums := func(ss []string, f func(string) int) []string {
		var xs []int
		for _, x := range ss {
			xs = append(xs, f(x))
		}
		sort.Ints(xs)
		var out []string
		for _, x := range xs {
			out = append(out, strconv.Itoa(x))
		}
		return out
	}
	blockOf := func(cidr string) int { b, _ := ipNum(strings.Split(cidr, "/")[0]); return b }
	nodeOf := func(n string) int { return num(n, "n") }
	kvs := func(ss []string, fk, fv func(string) int) []string {
		type kv struct{ k, v int }
		var xs []kv
		for _, x := range ss {
			k, val, _ := strings.Cut(x, "|")
			vv := -1
			if val != "" {
				vv = fv(val)
			}
			xs = append(xs, kv{fk(k), vv})
		}
		sort.Slice(xs, func(i, j int) bool { return xs[i].k < xs[j].k })
		var out []string
		for _, x := range xs {
			out = append(out, fmt.Sprintf("%d>%s", x.k, showOpt(x.v)))
		}
		return out
	}
	bbn := map[int][]int{}
	for _, x := range v.BlocksByNode {
		n, b, _ := strings.Cut(x, "|")
		bbn[nodeOf(n)] = append(bbn[nodeOf(n)], blockOf(b))
	}
	var bbnKeys []int
	for k := range bbn {
		bbnKeys = append(bbnKeys, k)
	}
	sort.Ints(bbnKeys)
	var bbnS []string
	for _, k := range bbnKeys {
		sort.Ints(bbn[k])
		var bs []string
		for _, b := range bbn[k] {
			bs = append(bs, strconv.Itoa(b))
		}
		bbnS = append(bbnS, fmt.Sprintf("%d>%s", k, strings.Join(bs, ".")))
	}
	return fmt.Sprintf("allocs=%s leaks=%s dirty=%s nbb=%s bbn=%s empty=%s trk=%s blocks=%s cn=%s full=%s",
		joinOr(allocs, ","), joinOr(leaks, ","), joinOr(nums(v.DirtyNodes, nodeOf), ","), joinOr(kvs(v.NodesByBlock, blockOf, nodeOf), ","),
		joinOr(bbnS, ","), joinOr(kvs(v.EmptyBlocks, blockOf, nodeOf), ","), joinOr(nums(v.ReleaseTracked, blockOf), ","),
		joinOr(nums(v.AllBlocks, blockOf), ","), joinOr(kvs(v.KNodes, nodeOf, nodeOf), ","), b01(v.FullSync))
}

// ---- generator -----------------------------------------------------------------------------

const nNodes, nBlocks = 3, 5

// every handle determines its owner (as in reality: a handle belongs to one sandbox / one tunnel device)
type owner struct {
	kind      string
	node, pod int
}

func ownerOf(hd int) owner {
	switch {
	case hd >= 1 && hd <= 6:
		return owner{"p", 1 + hd%nNodes, hd}
	case hd == 7 || hd == 8:
		return owner{"t", hd - 6, 0}
	case hd == 9:
		return owner{"u", 1, 0}
	case hd == 10:
		return owner{"p", 0, 10} // pod address without a node attribute
	case hd == winresHandle:
		return owner{"w", 2, 0}
	}
	return owner{"u", 0, 0}
}

type gen struct {
	h      *rt.H
	ops    []string
	blocks map[int]*blockT
	seq    int
	pods   map[int]bool
	knodes map[int]bool
	cnodes map[int]bool
}

func (g *gen) emit(op string) { g.ops = append(g.ops, op) }

func (g *gen) handleIPs(hd int) [][2]int {
	var out [][2]int
	for b := 1; b <= nBlocks; b++ {
		if blk, ok := g.blocks[b]; ok {
			for _, e := range blk.es {
				if e.handle == hd {
					out = append(out, [2]int{b, e.ord})
				}
			}
		}
	}
	return out
}

// emptyAffine counts the empty blocks affine to node n (other than `except`).
func (g *gen) emptyAffine(n, except int) int {
	c := 0
	for b, blk := range g.blocks {
		if b != except && blk.aff == n && len(blk.es) == 0 {
			c++
		}
	}
	return c
}

func (g *gen) emitBlock(b int) {
	blk := g.blocks[b]
	sort.Slice(blk.es, func(i, j int) bool { return blk.es[i].ord < blk.es[j].ord })
	g.emit(fmt.Sprintf("block %d %s %s", b, showOpt(blk.aff), showEntries(blk.es)))
}

// refreshPod keeps "a pod reports all of its handle's addresses or none of them"
func (g *gen) refreshPod(hd int) {
	o := ownerOf(hd)
	if o.kind == "p" && g.pods[o.pod] {
		g.emitPod(o.pod, true, true)
	}
}

func (g *gen) emitPod(p int, inCache, inAPI bool) {
	h := g.h
	o := ownerOf(p)
	nodeN := o.node
	ips := g.handleIPs(p)
	evicted := false
	switch h.Intn(12) {
	case 0:
		ips = nil // no IP reported yet
	case 1:
		ips = [][2]int{{9, 1}} // reports some other address
	case 2:
		evicted = true
	case 3:
		nodeN = 1 + (o.node % nNodes) // rescheduled elsewhere
	case 4:
		nodeN = 0
	}
	g.emit(fmt.Sprintf("pod %d %s %s %d %s %s", p, b01(inCache), b01(inAPI), nodeN, b01(evicted), showIPs(ips)))
	g.pods[p] = true
}

// genStaleCache: the scenario the final API re-check exists for (design/ipam/ipam-gc.md): the informer cache has
// lost a pod that the API still has; the allocation becomes a candidate, the grace period passes, and the
// collector must NOT release it.  Random unrelated noise is interleaved.
func genStaleCache(h *rt.H) []string {
	p := 1 + h.Intn(6)
	o := ownerOf(p)
	b := 1 + h.Intn(nBlocks)
	ord := h.Intn(blockSize)
	ops := []string{"new 60", "insync"}
	for n := 1; n <= nNodes; n++ {
		ops = append(ops, fmt.Sprintf("cnode %d %d", n, n), fmt.Sprintf("knode %d 1", n))
	}
	noise := func() {
		for k := h.Intn(3); k > 0; k-- {
			switch h.Intn(4) {
			case 0:
				ops = append(ops, fmt.Sprintf("dirty %d", 1+h.Intn(nNodes)))
			case 1:
				ops = append(ops, "sync "+b01(h.Bool()))
			case 2:
				ops = append(ops, "dump")
			default:
				q := 1 + (p % 6)
				ops = append(ops, fmt.Sprintf("pod %d 1 1 %d 0 -", q, ownerOf(q).node))
			}
		}
	}
	ops = append(ops, fmt.Sprintf("block %d %d %d:%d:p:%d:%d:7", b, o.node, ord, p, o.node, o.pod))
	ops = append(ops, fmt.Sprintf("pod %d 1 1 %d 0 %d.%d", p, o.node, b, ord))
	noise()
	ops = append(ops, "sync 1")
	ops = append(ops, fmt.Sprintf("poddel %d 1 0", p)) // the cache loses the pod, the API keeps it
	if h.Bool() {
		ops = append(ops, fmt.Sprintf("dirty %d", o.node))
	}
	noise()
	ops = append(ops, "sync "+b01(h.Bool()), "tick "+rt.Pick(h, []string{"40", "70"}))
	noise()
	ops = append(ops, "sync 1", "tick 70", "sync "+b01(h.Bool()), "dump")
	if h.Bool() { // the pod really goes away afterwards: now it must be collected
		ops = append(ops, fmt.Sprintf("poddel %d 0 1", p), fmt.Sprintf("dirty %d", o.node), "sync 0", "tick 70", "sync 1", "dump")
	}
	return ops
}

// genStaleCacheNodeGone: the informer cache has lost a pod the API still has AND the pod's Calico node resource is
// deleted (etcd mode: `calicoctl delete node`; KDD: node object gone while the pod object lingers): the collector
// skips the grace period and its final check prefers the cache.
func genStaleCacheNodeGone(h *rt.H) []string {
	p := 1 + h.Intn(6)
	o := ownerOf(p)
	b := 1 + h.Intn(nBlocks)
	ord := h.Intn(blockSize)
	ops := []string{"new " + rt.Pick(h, []string{"60", "0", "-"}), "insync"}
	for n := 1; n <= nNodes; n++ {
		ops = append(ops, fmt.Sprintf("cnode %d %d", n, n), fmt.Sprintf("knode %d 1", n))
	}
	ops = append(ops, fmt.Sprintf("block %d %d %d:%d:p:%d:%d:7", b, o.node, ord, p, o.node, o.pod))
	ops = append(ops, fmt.Sprintf("pod %d 1 1 %d 0 %d.%d", p, o.node, b, ord), "sync 1")
	ops = append(ops, fmt.Sprintf("poddel %d 1 0", p), fmt.Sprintf("cnodedel %d", o.node))
	if h.Bool() {
		ops = append(ops, fmt.Sprintf("knode %d 0", o.node))
	}
	ops = append(ops, fmt.Sprintf("dirty %d", o.node), "sync "+b01(h.Bool()), "dump")
	return ops
}

// genNodeGoneBeforePods: the Kubernetes Node and the Calico Node of a node are deleted while its pod still exists
// (cache and API agree) with Spec.NodeName = that node and still reports the address: nothing may be released.
func genNodeGoneBeforePods(h *rt.H) []string {
	p := 1 + h.Intn(6)
	o := ownerOf(p)
	b := 1 + h.Intn(nBlocks)
	ord := h.Intn(blockSize)
	ops := []string{"new " + rt.Pick(h, []string{"60", "60", "0", "-"}), "insync"}
	for n := 1; n <= nNodes; n++ {
		ops = append(ops, fmt.Sprintf("cnode %d %d", n, n), fmt.Sprintf("knode %d 1", n))
	}
	ops = append(ops, fmt.Sprintf("block %d %d %d:%d:p:%d:%d:7", b, o.node, ord, p, o.node, o.pod))
	ops = append(ops, fmt.Sprintf("pod %d 1 1 %d 0 %d.%d", p, o.node, b, ord), "sync "+b01(h.Bool()))
	del := []string{fmt.Sprintf("knode %d 0", o.node), fmt.Sprintf("cnodedel %d", o.node)}
	switch h.Intn(4) {
	case 0:
		del = del[:1] // only the Kubernetes Node object
	case 1:
		del = del[1:] // only the Calico Node resource
	case 2:
		del[0], del[1] = del[1], del[0]
	}
	ops = append(ops, del...)
	if h.Bool() {
		ops = append(ops, fmt.Sprintf("dirty %d", o.node))
	}
	ops = append(ops, "sync 1", "tick 70", "sync "+b01(h.Bool()), "dump")
	return ops
}

// genReassign: an address the collector already tracks is released and assigned again under the SAME handle id to
// a DIFFERENT pod (an IPAM user with stable per-workload handles), with a higher sequence number; the old pod is
// deleted, the new pod runs with the address.  The collector must validate against the NEW owner.
func genReassign(h *rt.H) []string {
	hd := 1 + h.Intn(6)
	o := ownerOf(hd)
	b := 1 + h.Intn(nBlocks)
	ord := h.Intn(blockSize)
	podA, podB := hd, hd+10
	ops := []string{"new " + rt.Pick(h, []string{"60", "60", "60", "0", "-"}), "insync"}
	for n := 1; n <= nNodes; n++ {
		ops = append(ops, fmt.Sprintf("cnode %d %d", n, n), fmt.Sprintf("knode %d 1", n))
	}
	ops = append(ops, fmt.Sprintf("block %d %d %d:%d:p:%d:%d:3", b, o.node, ord, hd, o.node, podA))
	ops = append(ops, fmt.Sprintf("pod %d 1 1 %d 0 %d.%d", podA, o.node, b, ord), "sync "+b01(h.Bool()))
	// re-assignment seen in one block update: same handle + address, new owner, new sequence number
	steps := []string{
		fmt.Sprintf("block %d %d %d:%d:p:%d:%d:9", b, o.node, ord, hd, o.node, podB),
		fmt.Sprintf("pod %d 1 1 %d 0 %d.%d", podB, o.node, b, ord),
		fmt.Sprintf("poddel %d 1 1", podA),
	}
	if h.Bool() {
		steps[0], steps[2] = steps[2], steps[0]
	}
	ops = append(ops, steps...)
	ops = append(ops, fmt.Sprintf("dirty %d", o.node), "sync "+b01(h.Bool()), "tick 70", "sync 1", "dump")
	if h.Bool() {
		ops = append(ops, "tick 70", "sync "+b01(h.Bool()))
	}
	if h.Bool() { // the new owner goes away too: now the address must be collected, with the NEW sequence number
		ops = append(ops, fmt.Sprintf("poddel %d 1 1", podB), fmt.Sprintf("dirty %d", o.node), "sync 0", "tick 70", "sync 1", "dump")
	}
	return ops
}

// genReleaseFails: a ReleaseIPs call fails (datastore error); the collector must retry later and stay consistent.
func genReleaseFails(h *rt.H) []string {
	n := 1 + h.Intn(nNodes)
	b := 1 + h.Intn(nBlocks)
	ops := []string{"new 60", "insync"}
	for k := 1; k <= nNodes; k++ {
		ops = append(ops, fmt.Sprintf("cnode %d %d", k, k), fmt.Sprintf("knode %d 1", k))
	}
	// a tunnel address of node n and a pod address whose pod is gone
	hd := rt.Pick(h, []int{1, 2, 3, 4, 5, 6})
	o := ownerOf(hd)
	ops = append(ops, fmt.Sprintf("block %d %d 0:%d:t:%d:0:1;1:%d:p:%d:%d:2", b, n, 6+n%2+1, n, hd, o.node, o.pod), "sync 1")
	switch h.Intn(3) {
	case 0: // node deleted, release fails, node re-created before the retry
		ops = append(ops, fmt.Sprintf("knode %d 0", n), fmt.Sprintf("cnodedel %d", n), "failrel", "sync "+b01(h.Bool()),
			fmt.Sprintf("cnode %d %d", n, n), fmt.Sprintf("knode %d 1", n), "sync 0", "dump", "sync 1")
	case 1: // leak on an existing node, release fails, retried
		ops = append(ops, "tick 70", "failrel", "sync 1", "sync 0", "dump", "sync 1")
	default:
		ops = append(ops, "failrel", "tick 70", "sync 1", fmt.Sprintf("pod %d 1 1 %d 0 %d.1", o.pod, o.node, b), "sync 0", "sync 1")
	}
	ops = append(ops, "dump")
	return ops
}

func genCase(h *rt.H) []string {
	if h.Chance(0.08) {
		return genStaleCache(h)
	}
	if h.Chance(0.05) {
		return genReassign(h)
	}
	if h.Chance(0.03) {
		return genReleaseFails(h)
	}
	if h.Chance(0.04) {
		return genNodeGoneBeforePods(h)
	}
	if h.Chance(0.02) {
		return genStaleCacheNodeGone(h)
	}
	g := &gen{h: h, blocks: map[int]*blockT{}, pods: map[int]bool{}, knodes: map[int]bool{}, cnodes: map[int]bool{}}
	grace := rt.Pick(h, []string{"60", "60", "60", "60", "60", "60", "0", "-"})
	g.emit("new " + grace)
	if !h.Chance(0.05) {
		g.emit("insync")
	}
	// a plausible start: nodes exist in both worlds
	for n := 1; n <= nNodes; n++ {
		if h.Chance(0.85) {
			g.emit(fmt.Sprintf("cnode %d %d", n, n))
			g.cnodes[n] = true
		}
		if h.Chance(0.85) {
			g.emit(fmt.Sprintf("knode %d 1", n))
			g.knodes[n] = true
		}
	}
	n := 10 + h.Intn(45)
	if h.Tier == "thorough" {
		n = 10 + h.Intn(100)
	}
	for i := 0; i < n; i++ {
		r := h.Intn(100)
		switch {
		case r < 30: // change a block: allocate / release / reallocate / affinity
			b := 1 + h.Intn(nBlocks)
			blk, ok := g.blocks[b]
			if !ok {
				aff := -1
				if h.Chance(0.85) {
					aff = 1 + h.Intn(nNodes)
				} else if h.Bool() {
					aff = -2
				}
				blk = &blockT{aff: aff}
				if aff >= 0 && g.emptyAffine(aff, b) >= 1 {
					// keep at most one empty block per node (which empty block survives is Go-map-order dependent otherwise)
					g.seq++
					hd := rt.Pick(h, []int{1, 2, 3, 4, 5, 6})
					o := ownerOf(hd)
					blk.es = append(blk.es, entry{h.Intn(blockSize), hd, o.kind, o.node, o.pod, g.seq})
				}
				g.blocks[b] = blk
				g.emitBlock(b)
				if len(blk.es) > 0 {
					g.refreshPod(blk.es[0].handle)
				}
				continue
			}
			touched := -1
			switch h.Intn(10) {
			case 0, 1, 2, 3: // allocate
				ord := h.Intn(blockSize)
				free := true
				for _, e := range blk.es {
					if e.ord == ord {
						free = false
					}
				}
				if !free {
					continue
				}
				hd := rt.Pick(h, []int{1, 2, 3, 4, 5, 6, 1, 2, 3, 7, 8, 9, 10, winresHandle, -1})
				o := ownerOf(hd)
				if hd == -1 {
					o = owner{"p", 1, 1}
				}
				g.seq++
				blk.es = append(blk.es, entry{ord, hd, o.kind, o.node, o.pod, g.seq})
				touched = hd
			case 4, 5, 6: // release one
				if len(blk.es) == 0 {
					continue
				}
				if blk.aff >= 0 && len(blk.es) == 1 && g.emptyAffine(blk.aff, b) >= 1 {
					continue
				}
				k := h.Intn(len(blk.es))
				touched = blk.es[k].handle
				blk.es = append(blk.es[:k], blk.es[k+1:]...)
			case 7: // reallocated: same handle and address, new sequence number
				if len(blk.es) == 0 {
					continue
				}
				g.seq++
				blk.es[h.Intn(len(blk.es))].seq = g.seq
			case 8: // affinity released / claimed (possibly straight from one host to another: a resync only shows the latest state)
				na := -1
				switch h.Intn(5) {
				case 0, 1:
					na = 1 + h.Intn(nNodes)
				case 2:
					na = -2 // a non-host (virtual:) affinity
				}
				if na >= 0 && len(blk.es) == 0 && g.emptyAffine(na, b) >= 1 {
					continue
				}
				blk.aff = na
			default: // everything released
				if blk.aff >= 0 && g.emptyAffine(blk.aff, b) >= 1 {
					continue
				}
				var hs []int
				for _, e := range blk.es {
					hs = append(hs, e.handle)
				}
				blk.es = nil
				g.emitBlock(b)
				for _, hd := range hs {
					g.refreshPod(hd)
				}
				continue
			}
			g.emitBlock(b)
			if touched >= 0 {
				g.refreshPod(touched)
			}
		case r < 33:
			b := 1 + h.Intn(nBlocks)
			if blk, ok := g.blocks[b]; ok {
				var hs []int
				for _, e := range blk.es {
					hs = append(hs, e.handle)
				}
				delete(g.blocks, b)
				g.emit(fmt.Sprintf("blockdel %d", b))
				for _, hd := range hs {
					g.refreshPod(hd)
				}
			}
		case r < 45: // pod appears / changes (cache and API agree)
			g.emitPod(rt.Pick(h, []int{1, 2, 3, 4, 5, 6, 10}), true, true)
		case r < 53: // pod deleted (cache and API agree)
			p := rt.Pick(h, []int{1, 2, 3, 4, 5, 6, 10})
			g.emit(fmt.Sprintf("poddel %d 1 1", p))
			delete(g.pods, p)
			if h.Chance(0.7) {
				g.emit(fmt.Sprintf("dirty %d", ownerOf(p).node))
			}
		case r < 56: // stale cache: the informer has lost a pod the API still has (single-address handles on existing nodes only)
			p := rt.Pick(h, []int{1, 2, 3, 4, 5, 6})
			if g.pods[p] && len(g.handleIPs(p)) <= 1 && g.knodes[ownerOf(p).node] && g.cnodes[ownerOf(p).node] {
				g.emit(fmt.Sprintf("poddel %d 1 0", p))
			}
		case r < 60: // Kubernetes node deleted / re-created
			nd := 1 + h.Intn(nNodes)
			if g.knodes[nd] {
				// usually a deleted node takes its pods with it; sometimes the Node object goes first and the pods linger
				keepPods := h.Chance(0.35)
				for _, p := range []int{1, 2, 3, 4, 5, 6} {
					if !keepPods && ownerOf(p).node == nd && g.pods[p] {
						g.emit(fmt.Sprintf("poddel %d 1 1", p))
						delete(g.pods, p)
					}
				}
				g.emit(fmt.Sprintf("knode %d 0", nd))
				delete(g.knodes, nd)
			} else {
				g.emit(fmt.Sprintf("knode %d 1", nd))
				g.knodes[nd] = true
			}
		case r < 64: // Calico node resource deleted / re-created / not a Kubernetes node
			nd := 1 + h.Intn(nNodes)
			if g.cnodes[nd] {
				keepPods := h.Chance(0.35)
				for _, p := range []int{1, 2, 3, 4, 5, 6} {
					if !keepPods && ownerOf(p).node == nd && g.pods[p] {
						g.emit(fmt.Sprintf("poddel %d 1 1", p))
						delete(g.pods, p)
					}
				}
				g.emit(fmt.Sprintf("cnodedel %d", nd))
				delete(g.cnodes, nd)
			} else if h.Chance(0.2) {
				g.emit(fmt.Sprintf("cnode %d -", nd))
			} else {
				g.emit(fmt.Sprintf("cnode %d %d", nd, nd))
				g.cnodes[nd] = true
			}
		case r < 68:
			g.emit(fmt.Sprintf("dirty %d", 1+h.Intn(nNodes)))
		case r < 80:
			g.emit(fmt.Sprintf("tick %d", rt.Pick(h, []int{25, 40, 70})))
		case r < 96:
			g.emit(fmt.Sprintf("sync %s", b01(h.Chance(0.4))))
		default:
			g.emit("dump")
		}
	}
	g.emit("sync 1")
	g.emit("dump")
	return g.ops
}

// probeHandleSplit: ORDER-PARAMETRIC probe of "all of a handle's addresses together or none".
// garbageCollectKnownLeaks ranges over the Go map confirmedLeaks; when one allocation of a handle is
// resurrected by the final API check in the same pass, whether its handle-mate is released depends on
// which of the two the map yields first.  Go map order cannot be chosen, so the scenario is run on many
// fresh controllers; the property's oracle (handle-split) fires in doSync for the runs that split.
// The scenario is not part of the op stream (its outcome is not a function of the ops).
func probeHandleSplit(h *rt.H) {
	scenario := []string{"new 60", "insync", "cnode 1 1", "knode 1 1",
		"block 1 1 0:4:p:1:4:1;1:4:p:1:4:2",
		"pod 4 0 1 1 0 1.1", // informer cache has lost the pod; the API has it, reporting only address 1.1
		"sync 0", "tick 70", "sync 1"}
	split, atomic := 0, 0
	for i := 0; i < 64; i++ {
		s := newState(-1)
		last := ""
		for _, op := range scenario {
			if split > 0 {
				s.failed["handle-split"] = true // one concrete record is enough
			}
			last = exec(h, s, op)
		}
		if strings.HasPrefix(last, "rel=1.0/4/1 ") {
			split++
		} else if strings.HasPrefix(last, "rel=- ") {
			atomic++
		} else {
			h.OracleFail("probe-unexpected", "handle-split probe: unexpected outcome "+last, map[string]any{"history": scenario})
		}
	}
	h.Extra["probe_handle_split"] = map[string]int{"runs": 64, "released_one_of_two": split, "released_none": atomic}
	h.Case("probe")
	h.Op("probe handle-split", "ok")
}

func main() {
	h := rt.New()
	defer h.Close()
	h.Rule = "case = `new GRACE` (60 min / 0 / unset) + 3 Calico+Kubernetes nodes + 10..54 ops (thorough ..109) over {block update (allocate, release, re-allocate with a new sequence number (also to a different pod under the same handle), injected ReleaseIPs failure, " +
		"affinity change incl. host->host and host->virtual, clear), block delete, pod add/change/delete (missing IPs, other IP, evicted, rescheduled, unscheduled), stale informer cache (also together with a deleted Calico node), Kubernetes node delete/create (with or before its pods), " +
		"Calico node delete/create/non-k8s, dirty mark, tick 25/40/70 min, sync (dirty/full), dump} on 5 blocks of 8 addresses and 11 handles (pod, tunnel, unknown-source, windows-reserved, no handle, no node attribute); " +
		"generator keeps outcomes independent of Go map order (<=1 empty block per node; a pod reports all or none of its handle's addresses; cache/API disagree only for single-address handles on existing nodes); " +
		"distinct = distinct op sequence; non-trivial = the case issued at least one ReleaseIPs / ReleaseBlockAffinity / ReleaseHostAffinities call"
	run := func(ops []string, tag string) {
		h.Case(tag)
		s := newState(-1)
		nontriv := false
		for _, op := range ops {
			out := exec(h, s, op)
			h.Op(op, out)
			k := strings.Fields(op)[0]
			h.Count("op:" + k)
			if k == "sync" {
				if !strings.HasPrefix(out, "rel=- rba=- rha=- ") {
					nontriv = true
				}
				for _, p := range []string{"rel=-", "rba=-", "rha=-"} {
					if !strings.Contains(out, p) {
						h.Count("sync-with:" + p[:3])
					}
				}
				if strings.HasSuffix(out, "work") {
					h.Count("sync:work-remaining")
				}
			}
		}
		if nontriv {
			h.Nontrivial(strings.Join(ops, ";"))
		}
		h.Sample()
	}
	if h.Replay != "" {
		run(h.ReplayLines(), "replay")
		return
	}
	probeHandleSplit(h)
	for i := 0; i < h.N; i++ {
		run(genCase(h), "gen")
	}
}
