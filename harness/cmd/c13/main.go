// C13 harness: the Go side of the shared BPF data structures.
//
// Two modes:
//
//	-dump     print, as JSON, every (structure, C field path, offset, size) that Felix's Go code uses,
//	          measured on the REAL code: exported offset constants, reflect offsets of mirror structs,
//	          and — where encoders/decoders use literal slice indices — by probing the real
//	          encoders (differential encoding) and accessors (one-hot bytes).  Used by the translator
//	          (translate/c13/gen.py) to generate the Lean tables.
//	(default) correspondence run: one op per table row (`off <ver> <struct> <path>`, `size <ver> <struct>`)
//	          answered from the real code; the Lean driver answers from the C layout computed by the
//	          proved layout algorithm.  Plus randomised byte-level ops (`enc …`) for the encoders.
//
// The mapping "Go accessor/constant -> C field path" is hand-written below (trusted, stated in
// checks/C13.json); everything else is measured.
package main

import (
	"bytes"
	"encoding/hex"
	"encoding/json"
	"fmt"
	"net"
	"os"
	"path/filepath"
	"reflect"
	"sort"
	"strings"

	"github.com/projectcalico/calico/felix/bpf/arp"
	"github.com/projectcalico/calico/felix/bpf/conntrack/cleanupv1"
	"github.com/projectcalico/calico/felix/bpf/events"
	conntrack "github.com/projectcalico/calico/felix/bpf/conntrack/v4"
	"github.com/projectcalico/calico/felix/bpf/failsafes"
	"github.com/projectcalico/calico/felix/bpf/ifstate"
	"github.com/projectcalico/calico/felix/bpf/ipsets"
	"github.com/projectcalico/calico/felix/bpf/nat"
	"github.com/projectcalico/calico/felix/bpf/routes"
	"github.com/projectcalico/calico/felix/bpf/state"
	"github.com/projectcalico/calico/felix/ip"

	"verif/harness/rt"
)

// Row is one Go-side fact. Mode "exact": offset and size must equal the C field's.
// Mode "within": the bytes Go touches start at the C field's offset and lie inside it (a small
// value stored in / read from a wider little-endian C scalar).
type Row struct {
	Ver    string `json:"ver"` // "4" | "6"
	Struct string `json:"struct"`
	Path   string `json:"path"` // "" = whole structure (Size = total size)
	Off    int    `json:"off"`
	Size   int    `json:"size"`
	Mode   string `json:"mode"`
	Go     string `json:"go"` // where the number comes from
}

var rows []Row

func add(ver, st, path string, off, size int, mode, src string) {
	rows = append(rows, Row{ver, st, path, off, size, mode, src})
}

// diffRange: the contiguous byte range in which a and b differ.
func diffRange(a, b []byte, what string) (int, int) {
	if len(a) != len(b) {
		panic("length mismatch probing " + what)
	}
	lo, hi := -1, -1
	for i := range a {
		if a[i] != b[i] {
			if lo < 0 {
				lo = i
			}
			hi = i
		}
	}
	if lo < 0 {
		panic("probe of " + what + " changed nothing")
	}
	for i := lo; i <= hi; i++ {
		if a[i] == b[i] {
			panic(fmt.Sprintf("probe of %s is not contiguous: %x vs %x", what, a, b))
		}
	}
	return lo, hi - lo + 1
}

// oneHot: the byte range an accessor depends on.
func oneHot(size int, get func(b []byte) string, what string) (int, int) {
	base := get(make([]byte, size))
	lo, hi := -1, -1
	for i := 0; i < size; i++ {
		b := make([]byte, size)
		b[i] = 0xff
		if get(b) != base {
			if lo < 0 {
				lo = i
			}
			hi = i
		}
	}
	if lo < 0 {
		panic("accessor " + what + " depends on no byte")
	}
	for i := lo; i <= hi; i++ {
		b := make([]byte, size)
		b[i] = 0xff
		if get(b) == base {
			panic("accessor " + what + " range is not contiguous")
		}
	}
	return lo, hi - lo + 1
}

var (
	z4  = net.IPv4(0, 0, 0, 0).To4()
	p4  = net.IPv4(1, 2, 3, 4).To4()
	z6  = net.IP(make([]byte, 16))
	p6  = net.IP([]byte{1, 2, 3, 4, 5, 6, 7, 8, 9, 10, 11, 12, 13, 14, 15, 16})
	c40 = ip.MustParseCIDROrIP("0.0.0.0/32").(ip.V4CIDR)
	c4p = ip.MustParseCIDROrIP("1.2.3.4/32").(ip.V4CIDR)
	c60 = ip.MustParseCIDROrIP("::/128").(ip.V6CIDR)
	c6p = ip.MustParseCIDROrIP("102:304:506:708:90a:b0c:d0e:f10/128").(ip.V6CIDR)
)

func buildRows() {
	rows = nil
	// ---- conntrack key --------------------------------------------------------------------
	{
		k0 := conntrack.NewKey(0, z4, 0, z4, 0).AsBytes()
		add("4", "calico_ct_key", "", 0, len(k0), "exact", "conntrack.KeySize")
		if conntrack.KeySize != len(k0) {
			panic("KeySize")
		}
		o, n := diffRange(k0, conntrack.NewKey(0xff, z4, 0, z4, 0).AsBytes(), "ct key proto")
		add("4", "calico_ct_key", "protocol", o, n, "within", "conntrack.NewKey(proto)")
		o, n = diffRange(k0, conntrack.NewKey(0, p4, 0, z4, 0).AsBytes(), "ct key ipA")
		add("4", "calico_ct_key", "addr_a", o, n, "exact", "conntrack.NewKey(ipA)")
		o, n = diffRange(k0, conntrack.NewKey(0, z4, 0x0102, z4, 0).AsBytes(), "ct key portA")
		add("4", "calico_ct_key", "port_a", o, n, "exact", "conntrack.NewKey(portA)")
		o, n = diffRange(k0, conntrack.NewKey(0, z4, 0, p4, 0).AsBytes(), "ct key ipB")
		add("4", "calico_ct_key", "addr_b", o, n, "exact", "conntrack.NewKey(ipB)")
		o, n = diffRange(k0, conntrack.NewKey(0, z4, 0, z4, 0x0102).AsBytes(), "ct key portB")
		add("4", "calico_ct_key", "port_b", o, n, "exact", "conntrack.NewKey(portB)")
		// accessors
		get := func(f func(k conntrack.Key) string) func(b []byte) string {
			return func(b []byte) string { var k conntrack.Key; copy(k[:], b); return f(k) }
		}
		o, n = oneHot(len(k0), get(func(k conntrack.Key) string { return fmt.Sprint(k.Proto()) }), "Key.Proto")
		add("4", "calico_ct_key", "protocol", o, n, "within", "conntrack.Key.Proto()")
		o, n = oneHot(len(k0), get(func(k conntrack.Key) string { return k.AddrA().String() }), "Key.AddrA")
		add("4", "calico_ct_key", "addr_a", o, n, "exact", "conntrack.Key.AddrA()")
		o, n = oneHot(len(k0), get(func(k conntrack.Key) string { return k.AddrB().String() }), "Key.AddrB")
		add("4", "calico_ct_key", "addr_b", o, n, "exact", "conntrack.Key.AddrB()")
		o, n = oneHot(len(k0), get(func(k conntrack.Key) string { return fmt.Sprint(k.PortA()) }), "Key.PortA")
		add("4", "calico_ct_key", "port_a", o, n, "exact", "conntrack.Key.PortA()")
		o, n = oneHot(len(k0), get(func(k conntrack.Key) string { return fmt.Sprint(k.PortB()) }), "Key.PortB")
		add("4", "calico_ct_key", "port_b", o, n, "exact", "conntrack.Key.PortB()")
	}
	{
		k0 := conntrack.NewKeyV6(0, z6, 0, z6, 0).AsBytes()
		add("6", "calico_ct_key", "", 0, len(k0), "exact", "conntrack.KeyV6Size")
		if conntrack.KeyV6Size != len(k0) {
			panic("KeyV6Size")
		}
		o, n := diffRange(k0, conntrack.NewKeyV6(0xff, z6, 0, z6, 0).AsBytes(), "ct key6 proto")
		add("6", "calico_ct_key", "protocol", o, n, "within", "conntrack.NewKeyV6(proto)")
		o, n = diffRange(k0, conntrack.NewKeyV6(0, p6, 0, z6, 0).AsBytes(), "ct key6 ipA")
		add("6", "calico_ct_key", "addr_a", o, n, "exact", "conntrack.NewKeyV6(ipA)")
		o, n = diffRange(k0, conntrack.NewKeyV6(0, z6, 0x0102, z6, 0).AsBytes(), "ct key6 portA")
		add("6", "calico_ct_key", "port_a", o, n, "exact", "conntrack.NewKeyV6(portA)")
		o, n = diffRange(k0, conntrack.NewKeyV6(0, z6, 0, p6, 0).AsBytes(), "ct key6 ipB")
		add("6", "calico_ct_key", "addr_b", o, n, "exact", "conntrack.NewKeyV6(ipB)")
		o, n = diffRange(k0, conntrack.NewKeyV6(0, z6, 0, z6, 0x0102).AsBytes(), "ct key6 portB")
		add("6", "calico_ct_key", "port_b", o, n, "exact", "conntrack.NewKeyV6(portB)")
	}
	// ---- conntrack value: exported offset constants --------------------------------------------
	add("4", "calico_ct_value", "", 0, conntrack.ValueSize, "exact", "conntrack.ValueSize")
	add("6", "calico_ct_value", "", 0, conntrack.ValueV6Size, "exact", "conntrack.ValueV6Size")
	type vo struct {
		path       string
		o4, o6, n4 int
		n6         int
		name       string
	}
	for _, v := range []vo{
		{"rst_seen", conntrack.VoRSTSeen, conntrack.VoRSTSeenV6, 8, 8, "VoRSTSeen"},
		{"last_seen", conntrack.VoLastSeen, conntrack.VoLastSeenV6, 8, 8, "VoLastSeen"},
		{"type", conntrack.VoType, conntrack.VoTypeV6, 1, 1, "VoType"},
		{"flags", conntrack.VoFlags, conntrack.VoFlagsV6, 1, 1, "VoFlags"},
		{"flags3", conntrack.VoFlags3, conntrack.VoFlags3V6, 1, 1, "VoFlags3"},
		{"flags4", conntrack.VoFlags4, conntrack.VoFlags4V6, 1, 1, "VoFlags4"},
		{"flags2", conntrack.VoFlags2, conntrack.VoFlags2V6, 1, 1, "VoFlags2"},
		{"nat_rev_key", conntrack.VoRevKey, conntrack.VoRevKeyV6, conntrack.KeySize, conntrack.KeyV6Size, "VoRevKey"},
		{"a_to_b", conntrack.VoLegAB, conntrack.VoLegABV6, 24, 24, "VoLegAB"},
		{"b_to_a", conntrack.VoLegBA, conntrack.VoLegBAV6, 24, 24, "VoLegBA"},
		{"tun_ip", conntrack.VoTunIP, conntrack.VoTunIPV6, 4, 16, "VoTunIP"},
		{"orig_ip", conntrack.VoOrigIP, conntrack.VoOrigIPV6, 4, 16, "VoOrigIP"},
		{"orig_port", conntrack.VoOrigPort, conntrack.VoOrigPortV6, 2, 2, "VoOrigPort"},
		{"orig_sport", conntrack.VoOrigSPort, conntrack.VoOrigSPortV6, 2, 2, "VoOrigSPort"},
		{"orig_sip", conntrack.VoOrigSIP, conntrack.VoOrigSIPV6, 4, 16, "VoOrigSIP"},
		{"nat_sport", conntrack.VoNATSPort, conntrack.VoNATSPortV6, 2, 2, "VoNATSPort"},
	} {
		add("4", "calico_ct_value", v.path, v.o4, v.n4, "exact", "conntrack."+v.name)
		add("6", "calico_ct_value", v.path, v.o6, v.n6, "exact", "conntrack."+v.name+"V6")
	}
	// value accessors (sizes measured)
	{
		get := func(f func(v conntrack.Value) string) func(b []byte) string {
			return func(b []byte) string { var v conntrack.Value; copy(v[:], b); return f(v) }
		}
		type acc struct {
			path string
			f    func(v conntrack.Value) string
		}
		for _, a := range []acc{
			{"rst_seen", func(v conntrack.Value) string { return fmt.Sprint(v.RSTSeen()) }},
			{"last_seen", func(v conntrack.Value) string { return fmt.Sprint(v.LastSeen()) }},
			{"type", func(v conntrack.Value) string { return fmt.Sprint(v.Type()) }},
			{"orig_ip", func(v conntrack.Value) string { return v.OrigIP().String() }},
			{"orig_port", func(v conntrack.Value) string { return fmt.Sprint(v.OrigPort()) }},
			{"orig_sport", func(v conntrack.Value) string { return fmt.Sprint(v.OrigSPort()) }},
			{"nat_sport", func(v conntrack.Value) string { return fmt.Sprint(v.NATSPort()) }},
			{"orig_sip", func(v conntrack.Value) string { return v.OrigSrcIP().String() }},
			{"nat_rev_key", func(v conntrack.Value) string { return hex.EncodeToString(v.ReverseNATKey().AsBytes()) }},
		} {
			o, n := oneHot(conntrack.ValueSize, get(a.f), "Value."+a.path)
			add("4", "calico_ct_value", a.path, o, n, "exact", "conntrack.Value accessor of "+a.path)
		}
		get6 := func(f func(v conntrack.ValueV6) string) func(b []byte) string {
			return func(b []byte) string { var v conntrack.ValueV6; copy(v[:], b); return f(v) }
		}
		type acc6 struct {
			path string
			f    func(v conntrack.ValueV6) string
		}
		for _, a := range []acc6{
			{"rst_seen", func(v conntrack.ValueV6) string { return fmt.Sprint(v.RSTSeen()) }},
			{"last_seen", func(v conntrack.ValueV6) string { return fmt.Sprint(v.LastSeen()) }},
			{"type", func(v conntrack.ValueV6) string { return fmt.Sprint(v.Type()) }},
			{"orig_ip", func(v conntrack.ValueV6) string { return v.OrigIP().String() }},
			{"orig_port", func(v conntrack.ValueV6) string { return fmt.Sprint(v.OrigPort()) }},
			{"orig_sport", func(v conntrack.ValueV6) string { return fmt.Sprint(v.OrigSPort()) }},
			{"nat_sport", func(v conntrack.ValueV6) string { return fmt.Sprint(v.NATSPort()) }},
			{"orig_sip", func(v conntrack.ValueV6) string { return v.OrigSrcIP().String() }},
			{"nat_rev_key", func(v conntrack.ValueV6) string { return hex.EncodeToString(v.ReverseNATKey().AsBytes()) }},
		} {
			o, n := oneHot(conntrack.ValueV6Size, get6(a.f), "ValueV6."+a.path)
			add("6", "calico_ct_value", a.path, o, n, "exact", "conntrack.ValueV6 accessor of "+a.path)
		}
	}
	// ---- conntrack leg ---------------------------------------------------------------------
	{
		l0 := conntrack.Leg{}.AsBytes()
		for _, ver := range []string{"4", "6"} {
			add(ver, "calico_ct_leg", "", 0, len(l0), "exact", "len(conntrack.Leg.AsBytes())")
			o, n := diffRange(l0, conntrack.Leg{Bytes: 0x0102030405060708}.AsBytes(), "leg bytes")
			add(ver, "calico_ct_leg", "bytes", o, n, "exact", "conntrack.Leg.Bytes")
			o, n = diffRange(l0, conntrack.Leg{Packets: 0x01020304}.AsBytes(), "leg packets")
			add(ver, "calico_ct_leg", "packets", o, n, "exact", "conntrack.Leg.Packets")
			o, n = diffRange(l0, conntrack.Leg{Seqno: 0x01020304}.AsBytes(), "leg seqno")
			add(ver, "calico_ct_leg", "seqno", o, n, "exact", "conntrack.Leg.Seqno")
			o, n = diffRange(l0, conntrack.Leg{Ifindex: 0x01020304}.AsBytes(), "leg ifindex")
			add(ver, "calico_ct_leg", "ifindex", o, n, "exact", "conntrack.Leg.Ifindex")
			// bit-fields: offset/size in BITS (mode "bit")
			for _, bf := range []struct {
				path string
				l    conntrack.Leg
			}{
				{"syn_seen", conntrack.Leg{SynSeen: true}}, {"ack_seen", conntrack.Leg{AckSeen: true}},
				{"fin_seen", conntrack.Leg{FinSeen: true}}, {"rst_seen", conntrack.Leg{RstSeen: true}},
				{"approved", conntrack.Leg{Approved: true}}, {"opener", conntrack.Leg{Opener: true}},
				{"workload", conntrack.Leg{Workload: true}},
			} {
				b := bf.l.AsBytes()
				o, n := diffRange(l0, b, "leg "+bf.path)
				if n != 1 {
					panic("bit-field probe spans bytes")
				}
				x := b[o] ^ l0[o]
				bit := 0
				for x > 1 {
					x >>= 1
					bit++
				}
				add(ver, "calico_ct_leg", bf.path, o*8+bit, 1, "bit", "conntrack.Leg."+bf.path)
			}
		}
	}
	// ---- ip sets ----------------------------------------------------------------------------
	{
		sz := ipsets.IPSetEntrySize
		add("4", "ip_set_key", "", 0, sz, "exact", "ipsets.IPSetEntrySize")
		get := func(f func(e ipsets.IPSetEntry) string) func(b []byte) string {
			return func(b []byte) string { var e ipsets.IPSetEntry; copy(e[:], b); return f(e) }
		}
		o, n := oneHot(sz, get(func(e ipsets.IPSetEntry) string { return fmt.Sprint(e.PrefixLen()) }), "IPSetEntry.PrefixLen")
		add("4", "ip_set_key", "mask", o, n, "exact", "ipsets.IPSetEntry.PrefixLen()")
		o, n = oneHot(sz, get(func(e ipsets.IPSetEntry) string { return fmt.Sprint(e.SetID()) }), "IPSetEntry.SetID")
		add("4", "ip_set_key", "set_id", o, n, "exact", "ipsets.IPSetEntry.SetID()")
		o, n = oneHot(sz, get(func(e ipsets.IPSetEntry) string { return e.Addr().String() }), "IPSetEntry.Addr")
		add("4", "ip_set_key", "addr", o, n, "exact", "ipsets.IPSetEntry.Addr()")
		o, n = oneHot(sz, get(func(e ipsets.IPSetEntry) string { return fmt.Sprint(e.Port()) }), "IPSetEntry.Port")
		add("4", "ip_set_key", "port", o, n, "exact", "ipsets.IPSetEntry.Port()")
		o, n = oneHot(sz, get(func(e ipsets.IPSetEntry) string { return fmt.Sprint(e.Protocol()) }), "IPSetEntry.Protocol")
		add("4", "ip_set_key", "protocol", o, n, "exact", "ipsets.IPSetEntry.Protocol()")
		e0 := ipsets.MakeBPFIPSetEntry(0, c40, 0, 6).AsBytes()
		o, n = diffRange(e0, ipsets.MakeBPFIPSetEntry(0x0102030405060708, c40, 0, 6).AsBytes(), "ipset id")
		add("4", "ip_set_key", "set_id", o, n, "exact", "ipsets.MakeBPFIPSetEntry(setID)")
		o, n = diffRange(e0, ipsets.MakeBPFIPSetEntry(0, c4p, 0, 6).AsBytes(), "ipset addr")
		add("4", "ip_set_key", "addr", o, n, "exact", "ipsets.MakeBPFIPSetEntry(cidr)")
		o, n = diffRange(e0, ipsets.MakeBPFIPSetEntry(0, c40, 0x0102, 6).AsBytes(), "ipset port")
		add("4", "ip_set_key", "port", o, n, "exact", "ipsets.MakeBPFIPSetEntry(port)")
		o, n = diffRange(e0, ipsets.MakeBPFIPSetEntry(0, c40, 0, 0xf9).AsBytes(), "ipset proto")
		add("4", "ip_set_key", "protocol", o, n, "exact", "ipsets.MakeBPFIPSetEntry(proto)")
	}
	{
		sz := ipsets.IPSetEntryV6Size
		add("6", "ip_set_key", "", 0, sz, "exact", "ipsets.IPSetEntryV6Size")
		get := func(f func(e ipsets.IPSetEntryV6) string) func(b []byte) string {
			return func(b []byte) string { var e ipsets.IPSetEntryV6; copy(e[:], b); return f(e) }
		}
		o, n := oneHot(sz, get(func(e ipsets.IPSetEntryV6) string { return fmt.Sprint(e.PrefixLen()) }), "IPSetEntryV6.PrefixLen")
		add("6", "ip_set_key", "mask", o, n, "exact", "ipsets.IPSetEntryV6.PrefixLen()")
		o, n = oneHot(sz, get(func(e ipsets.IPSetEntryV6) string { return fmt.Sprint(e.SetID()) }), "IPSetEntryV6.SetID")
		add("6", "ip_set_key", "set_id", o, n, "exact", "ipsets.IPSetEntryV6.SetID()")
		o, n = oneHot(sz, get(func(e ipsets.IPSetEntryV6) string { return e.Addr().String() }), "IPSetEntryV6.Addr")
		add("6", "ip_set_key", "addr", o, n, "exact", "ipsets.IPSetEntryV6.Addr()")
		o, n = oneHot(sz, get(func(e ipsets.IPSetEntryV6) string { return fmt.Sprint(e.Port()) }), "IPSetEntryV6.Port")
		add("6", "ip_set_key", "port", o, n, "exact", "ipsets.IPSetEntryV6.Port()")
		o, n = oneHot(sz, get(func(e ipsets.IPSetEntryV6) string { return fmt.Sprint(e.Protocol()) }), "IPSetEntryV6.Protocol")
		add("6", "ip_set_key", "protocol", o, n, "exact", "ipsets.IPSetEntryV6.Protocol()")
		e0 := ipsets.MakeBPFIPSetEntryV6(0, c60, 0, 6).AsBytes()
		o, n = diffRange(e0, ipsets.MakeBPFIPSetEntryV6(0x0102030405060708, c60, 0, 6).AsBytes(), "ipset6 id")
		add("6", "ip_set_key", "set_id", o, n, "exact", "ipsets.MakeBPFIPSetEntryV6(setID)")
		o, n = diffRange(e0, ipsets.MakeBPFIPSetEntryV6(0, c6p, 0, 6).AsBytes(), "ipset6 addr")
		add("6", "ip_set_key", "addr", o, n, "exact", "ipsets.MakeBPFIPSetEntryV6(cidr)")
		o, n = diffRange(e0, ipsets.MakeBPFIPSetEntryV6(0, c60, 0x0102, 6).AsBytes(), "ipset6 port")
		add("6", "ip_set_key", "port", o, n, "exact", "ipsets.MakeBPFIPSetEntryV6(port)")
		o, n = diffRange(e0, ipsets.MakeBPFIPSetEntryV6(0, c60, 0, 0xf9).AsBytes(), "ipset6 proto")
		add("6", "ip_set_key", "protocol", o, n, "exact", "ipsets.MakeBPFIPSetEntryV6(proto)")
	}
	// ---- NAT frontend / backend / affinity / maglev ---------------------------------------------
	{
		k0 := nat.NewNATKeySrc(z4, 0, 0, c40).AsBytes()
		add("4", "calico_nat_key", "", 0, len(k0), "exact", "len(nat.FrontendKey)")
		o, n := diffRange(k0, nat.NewNATKeySrc(p4, 0, 0, c40).AsBytes(), "nat key addr")
		add("4", "calico_nat_key", "addr", o, n, "exact", "nat.NewNATKeySrc(addr)")
		o, n = diffRange(k0, nat.NewNATKeySrc(z4, 0x0102, 0, c40).AsBytes(), "nat key port")
		add("4", "calico_nat_key", "port", o, n, "exact", "nat.NewNATKeySrc(port)")
		o, n = diffRange(k0, nat.NewNATKeySrc(z4, 0, 0xff, c40).AsBytes(), "nat key proto")
		add("4", "calico_nat_key", "protocol", o, n, "exact", "nat.NewNATKeySrc(protocol)")
		o, n = diffRange(k0, nat.NewNATKeySrc(z4, 0, 0, c4p).AsBytes(), "nat key saddr")
		add("4", "calico_nat_key", "saddr", o, n, "exact", "nat.NewNATKeySrc(cidr)")
		get := func(f func(k nat.FrontendKey) string) func(b []byte) string {
			return func(b []byte) string { var k nat.FrontendKey; copy(k[:], b); return f(k) }
		}
		o, n = oneHot(len(k0), get(func(k nat.FrontendKey) string { return fmt.Sprint(k.PrefixLen()) }), "FrontendKey.PrefixLen")
		add("4", "calico_nat_key", "prefixlen", o, n, "exact", "nat.FrontendKey.PrefixLen()")
		o, n = oneHot(len(k0), get(func(k nat.FrontendKey) string { return k.Addr().String() }), "FrontendKey.Addr")
		add("4", "calico_nat_key", "addr", o, n, "exact", "nat.FrontendKey.Addr()")
		o, n = oneHot(len(k0), get(func(k nat.FrontendKey) string { return fmt.Sprint(k.Port()) }), "FrontendKey.Port")
		add("4", "calico_nat_key", "port", o, n, "exact", "nat.FrontendKey.Port()")
		o, n = oneHot(len(k0), get(func(k nat.FrontendKey) string { return fmt.Sprint(k.Proto()) }), "FrontendKey.Proto")
		add("4", "calico_nat_key", "protocol", o, n, "exact", "nat.FrontendKey.Proto()")

		v0 := nat.NewNATValueWithFlags(0, 0, 0, 0, 0).AsBytes()
		add("4", "calico_nat_value", "", 0, len(v0), "exact", "len(nat.FrontendValue)")
		add("6", "calico_nat_value", "", 0, len(nat.NewNATValueV6WithFlags(0, 0, 0, 0, 0).AsBytes()), "exact", "len(nat.FrontendValueV6)")
		for i, p := range []string{"id", "count", "local", "affinity_timeo", "flags"} {
			a := []uint32{0, 0, 0, 0, 0}
			a[i] = 0x01020304
			o, n = diffRange(v0, nat.NewNATValueWithFlags(a[0], a[1], a[2], a[3], a[4]).AsBytes(), "nat value "+p)
			add("4", "calico_nat_value", p, o, n, "exact", "nat.NewNATValueWithFlags("+p+")")
			o, n = diffRange(v0, nat.NewNATValueV6WithFlags(a[0], a[1], a[2], a[3], a[4]).AsBytes(), "nat value6 "+p)
			add("6", "calico_nat_value", p, o, n, "exact", "nat.NewNATValueV6WithFlags("+p+")")
		}
		b0 := nat.NewNATBackendKey(0, 0).AsBytes()
		add("4", "calico_nat_secondary_key", "", 0, len(b0), "exact", "len(nat.BackendKey)")
		o, n = diffRange(b0, nat.NewNATBackendKey(0x01020304, 0).AsBytes(), "be key id")
		add("4", "calico_nat_secondary_key", "id", o, n, "exact", "nat.NewNATBackendKey(id)")
		o, n = diffRange(b0, nat.NewNATBackendKey(0, 0x01020304).AsBytes(), "be key ordinal")
		add("4", "calico_nat_secondary_key", "ordinal", o, n, "exact", "nat.NewNATBackendKey(ordinal)")
		b60 := nat.NewNATBackendKeyV6(0, 0).AsBytes()
		add("6", "calico_nat_secondary_key", "", 0, len(b60), "exact", "len(nat.BackendKeyV6)")
		o, n = diffRange(b60, nat.NewNATBackendKeyV6(0x01020304, 0).AsBytes(), "be key6 id")
		add("6", "calico_nat_secondary_key", "id", o, n, "exact", "nat.NewNATBackendKeyV6(id)")
		o, n = diffRange(b60, nat.NewNATBackendKeyV6(0, 0x01020304).AsBytes(), "be key6 ordinal")
		add("6", "calico_nat_secondary_key", "ordinal", o, n, "exact", "nat.NewNATBackendKeyV6(ordinal)")

		d0 := nat.NewNATBackendValue(z4, 0).AsBytes()
		add("4", "calico_nat_dest", "", 0, len(d0), "exact", "len(nat.BackendValue)")
		o, n = diffRange(d0, nat.NewNATBackendValue(p4, 0).AsBytes(), "be val addr")
		add("4", "calico_nat_dest", "addr", o, n, "exact", "nat.NewNATBackendValue(addr)")
		o, n = diffRange(d0, nat.NewNATBackendValue(z4, 0x0102).AsBytes(), "be val port")
		add("4", "calico_nat_dest", "port", o, n, "exact", "nat.NewNATBackendValue(port)")
		d60 := nat.NewNATBackendValueV6(z6, 0).AsBytes()
		add("6", "calico_nat_dest", "", 0, len(d60), "exact", "len(nat.BackendValueV6)")
		o, n = diffRange(d60, nat.NewNATBackendValueV6(p6, 0).AsBytes(), "be val6 addr")
		add("6", "calico_nat_dest", "addr", o, n, "exact", "nat.NewNATBackendValueV6(addr)")
		o, n = diffRange(d60, nat.NewNATBackendValueV6(z6, 0x0102).AsBytes(), "be val6 port")
		add("6", "calico_nat_dest", "port", o, n, "exact", "nat.NewNATBackendValueV6(port)")

		m0 := nat.NewMaglevBackendKey(0, 0).AsBytes()
		add("4", "cali_maglev_key", "", 0, len(m0), "exact", "len(nat.MaglevBackendKey)")
		o, n = diffRange(m0, nat.NewMaglevBackendKey(0x01020304, 0).AsBytes(), "maglev sid")
		add("4", "cali_maglev_key", "sid", o, n, "exact", "nat.NewMaglevBackendKey(svcID)")
		o, n = diffRange(m0, nat.NewMaglevBackendKey(0, 0x01020304).AsBytes(), "maglev ordinal")
		add("4", "cali_maglev_key", "ordinal", o, n, "exact", "nat.NewMaglevBackendKey(ordinal)")

		// affinity: key = {struct calico_nat nat_key; client_ip; padding}, value = {nat_dest; ts}
		fk := nat.NewNATKey(z4, 0, 0)
		a0 := nat.NewAffinityKey(z4, fk).AsBytes()
		add("4", "calico_nat_affinity_key", "", 0, len(a0), "exact", "len(nat.AffinityKey)")
		o, n = diffRange(a0, nat.NewAffinityKey(p4, fk).AsBytes(), "aff key client")
		add("4", "calico_nat_affinity_key", "client_ip", o, n, "exact", "nat.NewAffinityKey(clientIP)")
		o, n = diffRange(a0, nat.NewAffinityKey(z4, nat.NewNATKey(p4, 0, 0)).AsBytes(), "aff key addr")
		add("4", "calico_nat_affinity_key", "nat_key.addr", o, n, "exact", "nat.NewAffinityKey(frontend addr)")
		o, n = diffRange(a0, nat.NewAffinityKey(z4, nat.NewNATKey(z4, 0x0102, 0)).AsBytes(), "aff key port")
		add("4", "calico_nat_affinity_key", "nat_key.port", o, n, "exact", "nat.NewAffinityKey(frontend port)")
		o, n = diffRange(a0, nat.NewAffinityKey(z4, nat.NewNATKey(z4, 0, 0xff)).AsBytes(), "aff key proto")
		add("4", "calico_nat_affinity_key", "nat_key.protocol", o, n, "exact", "nat.NewAffinityKey(frontend proto)")
		av0 := nat.NewAffinityValue(0, nat.NewNATBackendValue(z4, 0)).AsBytes()
		add("4", "calico_nat_affinity_val", "", 0, len(av0), "exact", "len(nat.AffinityValue)")
		o, n = diffRange(av0, nat.NewAffinityValue(0x0102030405060708, nat.NewNATBackendValue(z4, 0)).AsBytes(), "aff val ts")
		add("4", "calico_nat_affinity_val", "ts", o, n, "exact", "nat.NewAffinityValue(ts)")
		o, n = diffRange(av0, nat.NewAffinityValue(0, nat.NewNATBackendValue(p4, 0)).AsBytes(), "aff val addr")
		add("4", "calico_nat_affinity_val", "nat_dest.addr", o, n, "exact", "nat.NewAffinityValue(backend addr)")
		o, n = diffRange(av0, nat.NewAffinityValue(0, nat.NewNATBackendValue(z4, 0x0102)).AsBytes(), "aff val port")
		add("4", "calico_nat_affinity_val", "nat_dest.port", o, n, "exact", "nat.NewAffinityValue(backend port)")
	}
	{
		k0 := nat.NewNATKeyV6Src(z6, 0, 0, c60).AsBytes()
		add("6", "calico_nat_key", "", 0, len(k0), "exact", "len(nat.FrontendKeyV6)")
		o, n := diffRange(k0, nat.NewNATKeyV6Src(p6, 0, 0, c60).AsBytes(), "nat key6 addr")
		add("6", "calico_nat_key", "addr", o, n, "exact", "nat.NewNATKeyV6Src(addr)")
		o, n = diffRange(k0, nat.NewNATKeyV6Src(z6, 0x0102, 0, c60).AsBytes(), "nat key6 port")
		add("6", "calico_nat_key", "port", o, n, "exact", "nat.NewNATKeyV6Src(port)")
		o, n = diffRange(k0, nat.NewNATKeyV6Src(z6, 0, 0xff, c60).AsBytes(), "nat key6 proto")
		add("6", "calico_nat_key", "protocol", o, n, "exact", "nat.NewNATKeyV6Src(protocol)")
		o, n = diffRange(k0, nat.NewNATKeyV6Src(z6, 0, 0, c6p).AsBytes(), "nat key6 saddr")
		add("6", "calico_nat_key", "saddr", o, n, "exact", "nat.NewNATKeyV6Src(cidr)")
		get := func(f func(k nat.FrontendKeyV6) string) func(b []byte) string {
			return func(b []byte) string { var k nat.FrontendKeyV6; copy(k[:], b); return f(k) }
		}
		o, n = oneHot(len(k0), get(func(k nat.FrontendKeyV6) string { return fmt.Sprint(k.PrefixLen()) }), "FrontendKeyV6.PrefixLen")
		add("6", "calico_nat_key", "prefixlen", o, n, "exact", "nat.FrontendKeyV6.PrefixLen()")
		fk := nat.NewNATKeyV6(z6, 0, 0)
		a0 := nat.NewAffinityKeyV6(z6, fk).AsBytes()
		add("6", "calico_nat_affinity_key", "", 0, len(a0), "exact", "len(nat.AffinityKeyV6)")
		o, n = diffRange(a0, nat.NewAffinityKeyV6(p6, fk).AsBytes(), "aff key6 client")
		add("6", "calico_nat_affinity_key", "client_ip", o, n, "exact", "nat.NewAffinityKeyV6(clientIP)")
		o, n = diffRange(a0, nat.NewAffinityKeyV6(z6, nat.NewNATKeyV6(p6, 0, 0)).AsBytes(), "aff key6 addr")
		add("6", "calico_nat_affinity_key", "nat_key.addr", o, n, "exact", "nat.NewAffinityKeyV6(frontend addr)")
		o, n = diffRange(a0, nat.NewAffinityKeyV6(z6, nat.NewNATKeyV6(z6, 0x0102, 0)).AsBytes(), "aff key6 port")
		add("6", "calico_nat_affinity_key", "nat_key.port", o, n, "exact", "nat.NewAffinityKeyV6(frontend port)")
		o, n = diffRange(a0, nat.NewAffinityKeyV6(z6, nat.NewNATKeyV6(z6, 0, 0xff)).AsBytes(), "aff key6 proto")
		add("6", "calico_nat_affinity_key", "nat_key.protocol", o, n, "exact", "nat.NewAffinityKeyV6(frontend proto)")
		av0 := nat.NewAffinityValueV6(0, nat.NewNATBackendValueV6(z6, 0)).AsBytes()
		add("6", "calico_nat_affinity_val", "", 0, len(av0), "exact", "len(nat.AffinityValueV6)")
		o, n = diffRange(av0, nat.NewAffinityValueV6(0x0102030405060708, nat.NewNATBackendValueV6(z6, 0)).AsBytes(), "aff val6 ts")
		add("6", "calico_nat_affinity_val", "ts", o, n, "exact", "nat.NewAffinityValueV6(ts)")
		o, n = diffRange(av0, nat.NewAffinityValueV6(0, nat.NewNATBackendValueV6(p6, 0)).AsBytes(), "aff val6 addr")
		add("6", "calico_nat_affinity_val", "nat_dest.addr", o, n, "exact", "nat.NewAffinityValueV6(backend addr)")
		o, n = diffRange(av0, nat.NewAffinityValueV6(0, nat.NewNATBackendValueV6(z6, 0x0102)).AsBytes(), "aff val6 port")
		add("6", "calico_nat_affinity_val", "nat_dest.port", o, n, "exact", "nat.NewAffinityValueV6(backend port)")
		m0 := nat.NewMaglevBackendKeyV6(0, 0).AsBytes()
		add("6", "cali_maglev_key", "", 0, len(m0), "exact", "len(nat.MaglevBackendKeyV6)")
	}
	// ---- routes, interface state, ARP, failsafes ---------------------------------------------------
	{
		k0 := routes.NewKey(ip.MustParseCIDROrIP("0.0.0.0/0")).AsBytes()
		add("4", "cali_rt_key", "", 0, len(k0), "exact", "routes.KeySize")
		o, n := diffRange(k0, routes.NewKey(ip.MustParseCIDROrIP("0.0.0.0/32")).AsBytes(), "rt key prefix")
		add("4", "cali_rt_key", "prefixlen", o, n, "within", "routes.NewKey(prefix)")
		o, n = oneHot(len(k0), func(b []byte) string { var k routes.Key; copy(k[:], b); return fmt.Sprint(k.PrefixLen()) }, "routes.Key.PrefixLen")
		add("4", "cali_rt_key", "prefixlen", o, n, "exact", "routes.Key.PrefixLen()")
		o, n = diffRange(routes.NewKey(c40).AsBytes(), routes.NewKey(c4p).AsBytes(), "rt key addr")
		add("4", "cali_rt_key", "addr", o, n, "exact", "routes.NewKey(addr)")
		v0 := routes.NewValueWithNextHop(0, ip.FromNetIP(z4)).AsBytes()
		add("4", "cali_rt", "", 0, len(v0), "exact", "routes.ValueSize")
		o, n = diffRange(v0, routes.NewValueWithNextHop(0x01020304, ip.FromNetIP(z4)).AsBytes(), "rt flags")
		add("4", "cali_rt", "flags", o, n, "exact", "routes.NewValueWithNextHop(flags)")
		o, n = diffRange(v0, routes.NewValueWithNextHop(0, ip.FromNetIP(p4)).AsBytes(), "rt nexthop")
		add("4", "cali_rt", "next_hop", o, n, "exact", "routes.NewValueWithNextHop(nextHop)")
		o, n = diffRange(v0, routes.NewValueWithIfIndex(0, 0x01020304).AsBytes(), "rt ifindex")
		add("4", "cali_rt", "next_hop", o, n, "exact", "routes.NewValueWithIfIndex(ifIndex)")

		k60 := routes.NewKeyV6(ip.MustParseCIDROrIP("::/0")).AsBytes()
		add("6", "cali_rt_key", "", 0, len(k60), "exact", "routes.KeyV6Size")
		o, n = diffRange(k60, routes.NewKeyV6(ip.MustParseCIDROrIP("::/128")).AsBytes(), "rt key6 prefix")
		add("6", "cali_rt_key", "prefixlen", o, n, "within", "routes.NewKeyV6(prefix)")
		o, n = diffRange(routes.NewKeyV6(c60).AsBytes(), routes.NewKeyV6(c6p).AsBytes(), "rt key6 addr")
		add("6", "cali_rt_key", "addr", o, n, "exact", "routes.NewKeyV6(addr)")
		v60 := routes.NewValueV6WithNextHop(0, ip.FromNetIP(z6)).AsBytes()
		add("6", "cali_rt", "", 0, len(v60), "exact", "routes.ValueV6Size")
		o, n = diffRange(v60, routes.NewValueV6WithNextHop(0x01020304, ip.FromNetIP(z6)).AsBytes(), "rt6 flags")
		add("6", "cali_rt", "flags", o, n, "exact", "routes.NewValueV6WithNextHop(flags)")
		o, n = diffRange(v60, routes.NewValueV6WithNextHop(0, ip.FromNetIP(p6)).AsBytes(), "rt6 nexthop")
		add("6", "cali_rt", "next_hop", o, n, "exact", "routes.NewValueV6WithNextHop(nextHop)")
		o, n = diffRange(v60, routes.NewValueV6WithIfIndex(0, 0x01020304).AsBytes(), "rt6 ifindex")
		add("6", "cali_rt", "next_hop", o, n, "within", "routes.NewValueV6WithIfIndex(ifIndex)")

		// conntrack cleanup queue value
		cq0 := cleanupv1.NewValue(make([]byte, conntrack.KeySize), 0, 0).AsBytes()
		add("4", "cali_ccq_value", "", 0, len(cq0), "exact", "cleanupv1.ValueSize")
		kk := make([]byte, conntrack.KeySize)
		for i := range kk {
			kk[i] = byte(i + 1)
		}
		o, n = diffRange(cq0, cleanupv1.NewValue(kk, 0, 0).AsBytes(), "ccq key")
		add("4", "cali_ccq_value", "rev_key", o, n, "exact", "cleanupv1.NewValue(key)")
		o, n = diffRange(cq0, cleanupv1.NewValue(make([]byte, conntrack.KeySize), 0x0102030405060708, 0).AsBytes(), "ccq ts")
		add("4", "cali_ccq_value", "last_seen", o, n, "exact", "cleanupv1.NewValue(ts)")
		o, n = diffRange(cq0, cleanupv1.NewValue(make([]byte, conntrack.KeySize), 0, 0x0102030405060708).AsBytes(), "ccq rev ts")
		add("4", "cali_ccq_value", "rev_last_seen", o, n, "exact", "cleanupv1.NewValue(rev_ts)")
		cq60 := cleanupv1.NewValueV6(make([]byte, conntrack.KeyV6Size), 0, 0).AsBytes()
		add("6", "cali_ccq_value", "", 0, len(cq60), "exact", "cleanupv1.ValueV6Size")
		kk6 := make([]byte, conntrack.KeyV6Size)
		for i := range kk6 {
			kk6[i] = byte(i + 1)
		}
		o, n = diffRange(cq60, cleanupv1.NewValueV6(kk6, 0, 0).AsBytes(), "ccq6 key")
		add("6", "cali_ccq_value", "rev_key", o, n, "exact", "cleanupv1.NewValueV6(key)")
		o, n = diffRange(cq60, cleanupv1.NewValueV6(make([]byte, conntrack.KeyV6Size), 0x0102030405060708, 0).AsBytes(), "ccq6 ts")
		add("6", "cali_ccq_value", "last_seen", o, n, "exact", "cleanupv1.NewValueV6(ts)")
		o, n = diffRange(cq60, cleanupv1.NewValueV6(make([]byte, conntrack.KeyV6Size), 0, 0x0102030405060708).AsBytes(), "ccq6 rev ts")
		add("6", "cali_ccq_value", "rev_last_seen", o, n, "exact", "cleanupv1.NewValueV6(rev_ts)")

		i0 := ifstate.NewValue(0, "", 0, 0, 0, 0, 0, 0, 0, 0).AsBytes()
		names := []string{"xdp_policy_v4", "ingress_policy_v4", "egress_policy_v4", "xdp_policy_v6", "ingress_policy_v6", "egress_policy_v6", "tc_filter_ingress", "tc_filter_egress"}
		for _, ver := range []string{"4", "6"} {
			add(ver, "ifstate_val", "", 0, len(i0), "exact", "ifstate.ValueSize")
			o, n = diffRange(i0, ifstate.NewValue(0x01020304, "", 0, 0, 0, 0, 0, 0, 0, 0).AsBytes(), "ifstate flags")
			add(ver, "ifstate_val", "flags", o, n, "exact", "ifstate.NewValue(flags)")
			o, n = diffRange(i0, ifstate.NewValue(0, "abcdefghijklmnopqrst", 0, 0, 0, 0, 0, 0, 0, 0).AsBytes(), "ifstate name")
			add(ver, "ifstate_val", "name", o, n, "within", "ifstate.NewValue(name)")
			for i, nm := range names {
				a := make([]int, 8)
				a[i] = 0x01020304
				o, n = diffRange(i0, ifstate.NewValue(0, "", a[0], a[1], a[2], a[3], a[4], a[5], a[6], a[7]).AsBytes(), "ifstate "+nm)
				add(ver, "ifstate_val", nm, o, n, "exact", "ifstate.NewValue("+nm+")")
			}
		}

		a0 := arp.NewKey(z4, 0).AsBytes()
		add("4", "arp_key", "", 0, len(a0), "exact", "arp.KeySize")
		o, n = diffRange(a0, arp.NewKey(p4, 0).AsBytes(), "arp key ip")
		add("4", "arp_key", "ip", o, n, "exact", "arp.NewKey(ip)")
		o, n = diffRange(a0, arp.NewKey(z4, 0x01020304).AsBytes(), "arp key ifindex")
		add("4", "arp_key", "ifindex", o, n, "exact", "arp.NewKey(ifIndex)")
		a60 := arp.NewKeyV6(z6, 0).AsBytes()
		add("6", "arp_key", "", 0, len(a60), "exact", "arp.KeyV6Size")
		o, n = diffRange(a60, arp.NewKeyV6(p6, 0).AsBytes(), "arp key6 ip")
		add("6", "arp_key", "ip", o, n, "exact", "arp.NewKeyV6(ip)")
		o, n = diffRange(a60, arp.NewKeyV6(z6, 0x01020304).AsBytes(), "arp key6 ifindex")
		add("6", "arp_key", "ifindex", o, n, "exact", "arp.NewKeyV6(ifIndex)")
		m0 := net.HardwareAddr{0, 0, 0, 0, 0, 0}
		m1 := net.HardwareAddr{1, 2, 3, 4, 5, 6}
		av0 := arp.NewValue(m0, m0).AsBytes()
		for _, ver := range []string{"4", "6"} {
			add(ver, "arp_value", "", 0, len(av0), "exact", "arp.ValueSize")
			o, n = diffRange(av0, arp.NewValue(m1, m0).AsBytes(), "arp val src")
			add(ver, "arp_value", "mac_src", o, n, "exact", "arp.NewValue(macSrc)")
			o, n = diffRange(av0, arp.NewValue(m0, m1).AsBytes(), "arp val dst")
			add(ver, "arp_value", "mac_dst", o, n, "exact", "arp.NewValue(macDst)")
		}

		f0 := failsafes.MakeKey(0, 0, false, "0.0.0.0", 32).ToSlice()
		add("4", "failsafe_key", "", 0, len(f0), "exact", "failsafes.KeySize")
		o, n = diffRange(f0, failsafes.MakeKey(0xff, 0, false, "0.0.0.0", 32).ToSlice(), "fs proto")
		add("4", "failsafe_key", "ip_proto", o, n, "exact", "failsafes.MakeKey(ipProto)")
		o, n = diffRange(f0, failsafes.MakeKey(0, 0x0102, false, "0.0.0.0", 32).ToSlice(), "fs port")
		add("4", "failsafe_key", "port", o, n, "exact", "failsafes.MakeKey(port)")
		o, n = diffRange(f0, failsafes.MakeKey(0, 0, true, "0.0.0.0", 32).ToSlice(), "fs flags")
		add("4", "failsafe_key", "flags", o, n, "exact", "failsafes.MakeKey(outbound)")
		o, n = diffRange(f0, failsafes.MakeKey(0, 0, false, "1.2.3.4", 32).ToSlice(), "fs addr")
		add("4", "failsafe_key", "addr", o, n, "exact", "failsafes.MakeKey(ip)")
		o, n = diffRange(f0, failsafes.MakeKey(0, 0, false, "0.0.0.0", 0).ToSlice(), "fs prefixlen")
		add("4", "failsafe_key", "prefixlen", o, n, "within", "failsafes.MakeKey(mask)")
		f60 := failsafes.MakeKeyV6(0, 0, false, "::", 128).ToSlice()
		add("6", "failsafe_key", "", 0, len(f60), "exact", "failsafes.KeyV6Size")
		o, n = diffRange(f60, failsafes.MakeKeyV6(0xff, 0, false, "::", 128).ToSlice(), "fs6 proto")
		add("6", "failsafe_key", "ip_proto", o, n, "exact", "failsafes.MakeKeyV6(ipProto)")
		o, n = diffRange(f60, failsafes.MakeKeyV6(0, 0x0102, false, "::", 128).ToSlice(), "fs6 port")
		add("6", "failsafe_key", "port", o, n, "exact", "failsafes.MakeKeyV6(port)")
		o, n = diffRange(f60, failsafes.MakeKeyV6(0, 0, false, "102:304:506:708:90a:b0c:d0e:f10", 128).ToSlice(), "fs6 addr")
		add("6", "failsafe_key", "addr", o, n, "exact", "failsafes.MakeKeyV6(ip)")
	}
	// ---- policy-verdict events: production parser of cali_tc_state (after the 8-byte event header) ----
	{
		const hdr = 8
		size := 104 + 8*state.MaxRuleIDs
		probe := func(v6 bool, get func(pv events.PolicyVerdict) string, what string) (int, int) {
			mk := func() []byte {
				b := make([]byte, size)
				b[100] = state.MaxRuleIDs // rules_hit: makes the parser read all rule ids
				return b
			}
			base := get(events.ParsePolicyVerdict(mk(), v6))
			lo, hi := -1, -1
			for i := 0; i < size; i++ {
				b := mk()
				b[i] ^= 0xff
				if get(events.ParsePolicyVerdict(b, v6)) != base {
					if lo < 0 {
						lo = i
					}
					hi = i
				}
			}
			if lo < 0 {
				panic("ParsePolicyVerdict: " + what + " depends on no byte")
			}
			return lo + hdr, hi - lo + 1
		}
		for _, v6 := range []bool{false, true} {
			ver := "4"
			if v6 {
				ver = "6"
			}
			for _, f := range []struct {
				path string
				get  func(pv events.PolicyVerdict) string
			}{
				{"ip_src", func(pv events.PolicyVerdict) string { return pv.SrcAddr.String() }},
				{"pre_nat_ip_dst", func(pv events.PolicyVerdict) string { return pv.DstAddr.String() }},
				{"post_nat_ip_dst", func(pv events.PolicyVerdict) string { return pv.PostNATDstAddr.String() }},
				{"tun_ip", func(pv events.PolicyVerdict) string { return pv.NATTunSrcAddr.String() }},
				{"pol_rc", func(pv events.PolicyVerdict) string { return fmt.Sprint(pv.PolicyRC) }},
				{"sport", func(pv events.PolicyVerdict) string { return fmt.Sprint(pv.SrcPort) }},
				{"pre_nat_dport", func(pv events.PolicyVerdict) string { return fmt.Sprint(pv.DstPort) }},
				{"post_nat_dport", func(pv events.PolicyVerdict) string { return fmt.Sprint(pv.PostNATDstPort) }},
				{"ip_proto", func(pv events.PolicyVerdict) string { return fmt.Sprint(pv.IPProto) }},
				{"ip_size", func(pv events.PolicyVerdict) string { return fmt.Sprint(pv.IPSize) }},
				{"rule_ids", func(pv events.PolicyVerdict) string { return fmt.Sprint(pv.RuleIDs) }},
			} {
				o, n := probe(v6, f.get, f.path)
				add(ver, "cali_tc_state", f.path, o, n, "exact", "events.ParsePolicyVerdict -> "+f.path)
			}
		}
	}
	// ---- per-packet state: Go mirror struct (reflect offsets) ------------------------------------
	{
		t := reflect.TypeOf(state.State{})
		m := map[string]string{
			"eventHeader": "eventhdr", "ihl": "ihl", "PolicyRC": "pol_rc", "SrcPort": "sport", "DstPort": "dport",
			"PreNATDstPort": "pre_nat_dport", "PostNATDstPort": "post_nat_dport", "IPProto": "ip_proto", "pad": "__pad",
			"IPSize": "ip_size", "RulesHit": "rules_hit", "RuleIDs": "rule_ids", "Flags": "flags",
			"ConntrackFlags": "ct_result.flags", "NATData": "nat_dest", "ProgStartTime": "prog_start_time",
			"NATSvcID": "nat_svc_id",
		}
		for goName, c := range map[string]string{"SrcAddr": "ip_src", "DstAddr": "ip_dst", "PreNATDstAddr": "pre_nat_ip_dst",
			"PostNATDstAddr": "post_nat_ip_dst", "TunIP": "tun_ip", "SrcAddrMasq": "ip_src_masq"} {
			m[goName] = c
			m[goName+"1"] = "__pad" + c + ".b"
			m[goName+"2"] = "__pad" + c + ".c"
			m[goName+"3"] = "__pad" + c + ".d"
		}
		for i := 0; i < t.NumField(); i++ {
			f := t.Field(i)
			if c, ok := m[f.Name]; ok {
				add("4", "cali_tc_state", c, int(f.Offset), int(f.Type.Size()), "exact", "reflect: state.State."+f.Name)
				delete(m, f.Name)
			}
		}
		if len(m) != 0 {
			panic(fmt.Sprintf("state.State lost fields: %v", m))
		}
		// map value size must hold the larger (IPv6) state; the Go mirror's own size is reported
		// separately (mode "mirror-size").
		add("6", "cali_tc_state", "", 0, state.MapParameters.ValueSize, "exact", "state.MapParameters.ValueSize")
		add("4", "cali_tc_state", "", 0, state.MapParameters.ValueSize, "atmost", "state.MapParameters.ValueSize")
		add("4", "cali_tc_state", "", 0, int(t.Size()), "mirror-size", "unsafe.Sizeof(state.State{})")
	}
	sort.SliceStable(rows, func(i, j int) bool {
		if rows[i].Ver != rows[j].Ver {
			return rows[i].Ver < rows[j].Ver
		}
		return rows[i].Struct < rows[j].Struct
	})
}

// sizeof of the C records as clang computes them, written by the translator next to the harness binary.
var cSizes map[string]map[string]int

// clang's offset / size (bits) / big-endian flag of every member path, per version and structure.
var cLayout struct {
	V4 map[string]map[string][]any `json:"4"`
	V6 map[string]map[string][]any `json:"6"`
}

func cMember(ver, st, path string) (off, size int, ok bool) {
	m := cLayout.V4
	if ver == "6" {
		m = cLayout.V6
	}
	e, ok := m[st][path]
	if !ok || len(e) < 2 {
		return 0, 0, false
	}
	return int(e[0].(float64)), int(e[1].(float64)), true
}

// oracle: the property itself on the real code — the bytes Go touches vs clang's layout of the real headers.
func oracleRow(h *rt.H, r Row) {
	if r.Path == "" {
		c, ok := cSizes[r.Ver][r.Struct]
		switch {
		case !ok:
			h.OracleFail("unknown-struct", "no C structure "+r.Struct, r)
		case r.Mode == "exact" && c != r.Size:
			h.OracleFail("size-mismatch", fmt.Sprintf("IPv%s %s: Go uses %d bytes (%s), sizeof in C is %d", r.Ver, r.Struct, r.Size, r.Go, c), r)
		case r.Mode == "atmost" && c > r.Size:
			h.OracleFail("size-mismatch", fmt.Sprintf("IPv%s %s: Go reserves %d bytes (%s), sizeof in C is %d", r.Ver, r.Struct, r.Size, r.Go, c), r)
		}
		return
	}
	co, cn, ok := cMember(r.Ver, r.Struct, r.Path)
	if !ok {
		h.OracleFail("unknown-member", fmt.Sprintf("IPv%s %s has no member %s (%s)", r.Ver, r.Struct, r.Path, r.Go), r)
		return
	}
	bad := false
	switch r.Mode {
	case "exact":
		bad = co != 8*r.Off || cn != 8*r.Size
	case "bit":
		bad = co != r.Off || cn != r.Size
	case "within":
		bad = co != 8*r.Off || 8*r.Size > cn
	case "inside":
		bad = co > 8*r.Off || 8*r.Off+8*r.Size > co+cn
	case "offset":
		bad = co != 8*r.Off
	}
	if bad {
		h.OracleFail("layout-mismatch", fmt.Sprintf("IPv%s %s.%s: Go (%s) uses offset %d size %d [%s]; C has bit offset %d, bit size %d", r.Ver, r.Struct, r.Path, r.Go, r.Off, r.Size, r.Mode, co, cn), r)
	}
}

func loadCSizes() {
	exe, err := os.Executable()
	if err != nil {
		panic(err)
	}
	b, err := os.ReadFile(filepath.Join(filepath.Dir(exe), "c13-csizes.json"))
	if err != nil {
		panic(err)
	}
	if err := json.Unmarshal(b, &cSizes); err != nil {
		panic(err)
	}
	b, err = os.ReadFile(filepath.Join(filepath.Dir(exe), "c13-clayout.json"))
	if err != nil {
		panic(err)
	}
	if err := json.Unmarshal(b, &cLayout); err != nil {
		panic(err)
	}
	var pp struct {
		P map[string][]Row `json:"polprog"`
	}
	if err := json.Unmarshal(b, &pp); err != nil {
		panic(err)
	}
	for ver, rs := range pp.P {
		for _, r := range rs {
			r.Ver = ver
			polprogRows = append(polprogRows, r)
		}
	}
}

// rows for the unexported policy-program builder constants (read from the source by the translator)
var polprogRows []Row

func main() {
	if len(os.Args) > 1 && os.Args[1] == "-dump" {
		buildRows()
		scen, all := builderFacts()
		b, _ := json.MarshalIndent(map[string]any{"rows": rows, "scenarios": scen, "accesses": all}, "", " ")
		os.Stdout.Write(append(b, '\n'))
		return
	}
	h := rt.New()
	defer h.Close()
	loadCSizes()
	buildRows()
	h.Rule = "finite table: every (IP version, shared structure, field) fact measured on the real Go code (exported offset constants, reflect offsets of the mirror struct, " +
		"differential probing of encoders, one-hot probing of accessors) is one op; the model answers from the C layout computed by the Lean layout algorithm on the translated headers. " +
		"Then randomised byte-level ops: real encoders on random field values vs the model writing the same values at the C offsets"
	h.Case("table")
	sort.SliceStable(polprogRows, func(i, j int) bool { return polprogRows[i].Ver+polprogRows[i].Go < polprogRows[j].Ver+polprogRows[j].Go })
	for _, r := range append(append([]Row{}, rows...), polprogRows...) {
		if r.Mode != "mirror-size" {
			oracleRow(h, r)
		}
		var op, out string
		switch {
		case r.Path == "" && r.Mode == "exact":
			op, out = fmt.Sprintf("size %s %s", r.Ver, r.Struct), fmt.Sprint(r.Size)
		case r.Path == "" && r.Mode == "atmost":
			op, out = fmt.Sprintf("sizeatmost %s %s %d", r.Ver, r.Struct, r.Size), "ok"
		case r.Path == "" && r.Mode == "mirror-size":
			// the Go mirror of cali_tc_state (used by the BPF unit tests only) is neither the v4 nor the v6 size
			if c, ok := cSizes[r.Ver][r.Struct]; !ok {
				panic("no C size for " + r.Struct + " (translator output .build/c13-csizes.json missing)")
			} else if r.Size != c {
				h.OracleFail("state-mirror-size", fmt.Sprintf("unsafe.Sizeof(state.State{}) = %d is not sizeof(struct cali_tc_state) = %d (IPv4 build) which it mirrors", r.Size, c), r)
			}
			continue
		case r.Mode == "exact":
			op, out = fmt.Sprintf("off %s %s %s", r.Ver, r.Struct, r.Path), fmt.Sprintf("%d %d", r.Off*8, r.Size*8)
		case r.Mode == "bit":
			op, out = fmt.Sprintf("off %s %s %s", r.Ver, r.Struct, r.Path), fmt.Sprintf("%d %d", r.Off, r.Size)
		case r.Mode == "within":
			op, out = fmt.Sprintf("within %s %s %s %d %d", r.Ver, r.Struct, r.Path, r.Off*8, r.Size*8), "ok"
		case r.Mode == "inside":
			op, out = fmt.Sprintf("inside %s %s %s %d %d", r.Ver, r.Struct, r.Path, r.Off*8, r.Size*8), "ok"
		case r.Mode == "offset":
			op, out = fmt.Sprintf("within %s %s %s %d 0", r.Ver, r.Struct, r.Path, r.Off*8), "ok"
		default:
			panic("mode " + r.Mode)
		}
		h.Op(op, out)
		h.Count("rows:v" + r.Ver + ":" + r.Struct)
		h.Count("mode:" + r.Mode)
		h.Nontrivial(op + "|" + r.Go)
	}
	h.Sample()
	// the policy-program builder's view of cali_tc_state, from REAL programs
	h.Case("builder")
	scen, all := builderFacts()
	for _, ver := range []string{"4", "6"} {
		for _, a := range all[ver] {
			co, cn, ok := cMember(ver, "cali_tc_state", a.Field)
			if !ok || co > 8*a.Off || 8*a.Off+a.Bits > co+cn {
				h.OracleFail("polprog-state-access-outside-field", fmt.Sprintf("IPv%s policy program: %d-bit access at state+%d is annotated state->%s by the builder but lies outside that member (C: bit offset %d, %d bits)", ver, a.Bits, a.Off, a.Field, co, cn), a)
			}
			f := a.Field
			if f == "" {
				f = "?"
			}
			h.Op(fmt.Sprintf("inside %s cali_tc_state %s %d %d", ver, f, a.Off*8, a.Bits), "ok")
			h.Count("builder-access:v" + ver)
		}
	}
	for _, sc := range scen {
		exp, repeat, ok := expectedAccesses(sc.Ver, sc)
		if !ok || !sameAccesses(sc.Acc, exp, repeat) {
			h.OracleFail("polprog-state-access-wrong-word", fmt.Sprintf("IPv%s %s: the %s match must read %s of state->%s but the emitted program reads %s (offset:bits from the state pointer)", sc.Ver, sc.Spec, sc.Kind, showAcc(exp), sc.Field, showAcc(sc.Acc)), sc)
		}
		got := sc.Acc
		if repeat && len(got) > 0 && sameAccesses(got, got[:1], true) {
			got = got[:1]
		}
		h.Op(fmt.Sprintf("match %s %s %s %d", sc.Ver, sc.Kind, sc.Field, sc.Prefix), showAcc(got))
		h.Count("builder-scenario:v" + sc.Ver + ":" + sc.Kind)
		h.Nontrivial("scenario|" + sc.Ver + sc.Spec)
	}
	// randomised byte-level ops
	n := h.N
	for i := 0; i < n; i++ {
		h.Case("enc")
		switch h.Intn(7) {
		case 4:
			id := h.Rng.Uint64()
			a := rnd(h, 4)
			port, proto := uint16(h.Intn(65536)), uint8(1+h.Intn(255))
			e := ipsets.MakeBPFIPSetEntry(id, ip.CIDRFromAddrAndPrefix(ip.FromNetIP(net.IP(a)), 32).(ip.V4CIDR), port, proto)
			h.Op(fmt.Sprintf("enc 4 ip_set_key mask=num:%d set_id=num:%d addr=raw:%x port=num:%d protocol=num:%d", 64+32+16+8, id, a, port, proto), hex.EncodeToString(e.AsBytes()))
			if e.SetID() != id || e.Port() != port || e.Protocol() != proto || !bytes.Equal(e.Addr(), a) {
				h.OracleFail("ipset-roundtrip", "IP set entry accessors do not read what MakeBPFIPSetEntry wrote", fmt.Sprintf("%x", e.AsBytes()))
			}
			h.Count("enc:ipset4")
		case 5:
			id := h.Rng.Uint64()
			a := rnd(h, 16)
			port, proto := uint16(h.Intn(65536)), uint8(1+h.Intn(255))
			e := ipsets.MakeBPFIPSetEntryV6(id, ip.CIDRFromAddrAndPrefix(ip.FromNetIP(net.IP(a)), 128).(ip.V6CIDR), port, proto)
			h.Op(fmt.Sprintf("enc 6 ip_set_key mask=num:%d set_id=num:%d addr=raw:%x port=num:%d protocol=num:%d", 64+128+16+8, id, a, port, proto), hex.EncodeToString(e.AsBytes()))
			h.Count("enc:ipset6")
		case 6:
			a, sa := rnd(h, 4), rnd(h, 4)
			port, proto := uint16(h.Intn(65536)), uint8(h.Intn(256))
			k := nat.NewNATKeySrc(net.IP(a), port, proto, ip.CIDRFromAddrAndPrefix(ip.FromNetIP(net.IP(sa)), 32).(ip.V4CIDR))
			h.Op(fmt.Sprintf("enc 4 calico_nat_key prefixlen=num:%d addr=raw:%x port=num:%d protocol=num:%d saddr=raw:%x", k.PrefixLen(), a, port, proto, sa), hex.EncodeToString(k.AsBytes()))
			h.Count("enc:natkey4")
		case 0:
			proto, pa, pb := uint8(h.Intn(256)), uint16(h.Intn(65536)), uint16(h.Intn(65536))
			a, b := rnd(h, 4), rnd(h, 4)
			k := conntrack.NewKey(proto, net.IP(a), pa, net.IP(b), pb)
			h.Op(fmt.Sprintf("enc 4 calico_ct_key protocol=le:%d addr_a=raw:%x port_a=le:%d addr_b=raw:%x port_b=le:%d", proto, a, pa, b, pb), hex.EncodeToString(k.AsBytes()))
			if k.Proto() != proto || !bytes.Equal(k.AddrA(), a) || k.PortA() != pa || !bytes.Equal(k.AddrB(), b) || k.PortB() != pb {
				h.OracleFail("ctkey-roundtrip", "conntrack key accessors do not read what NewKey wrote", fmt.Sprintf("%x", k.AsBytes()))
			}
			h.Count("enc:ctkey4")
		case 1:
			proto, pa, pb := uint8(h.Intn(256)), uint16(h.Intn(65536)), uint16(h.Intn(65536))
			a, b := rnd(h, 16), rnd(h, 16)
			k := conntrack.NewKeyV6(proto, net.IP(a), pa, net.IP(b), pb)
			h.Op(fmt.Sprintf("enc 6 calico_ct_key protocol=le:%d addr_a=raw:%x port_a=le:%d addr_b=raw:%x port_b=le:%d", proto, a, pa, b, pb), hex.EncodeToString(k.AsBytes()))
			h.Count("enc:ctkey6")
		case 2:
			id, ord := h.Rng.Uint32(), h.Rng.Uint32()
			h.Op(fmt.Sprintf("enc 4 calico_nat_secondary_key id=le:%d ordinal=le:%d", id, ord), hex.EncodeToString(nat.NewNATBackendKey(id, ord).AsBytes()))
			h.Count("enc:natbe4")
		case 3:
			a := rnd(h, 4)
			port := uint16(h.Intn(65536))
			h.Op(fmt.Sprintf("enc 4 calico_nat_dest addr=raw:%x port=le:%d", a, port), hex.EncodeToString(nat.NewNATBackendValue(net.IP(a), port).AsBytes()))
			h.Count("enc:natdest4")
		}
	}
	_ = strings.Join
}

func rnd(h *rt.H, n int) []byte {
	b := make([]byte, n)
	for i := range b {
		b[i] = byte(1 + h.Intn(255))
	}
	return b
}
