// C13, policy-program builder view of struct cali_tc_state: build REAL programs with the REAL
// polprog.Builder for single-match rules (CIDRs of every prefix-length class, IP sets, ports,
// protocol; source / destination / pre-DNAT destination legs; IPv4 and IPv6), decode the emitted
// instructions and collect every load/store relative to the state pointer R9.
package main

import (
	"fmt"
	"regexp"
	"sort"

	"github.com/projectcalico/calico/felix/bpf/asm"
	"github.com/projectcalico/calico/felix/bpf/maps"
	"github.com/projectcalico/calico/felix/bpf/polprog"
	"github.com/projectcalico/calico/felix/proto"
)

// Access is one memory access relative to R9 (the cali_tc_state pointer).
type Access struct {
	Off   int    `json:"off"`  // bytes from the start of cali_tc_state
	Bits  int    `json:"bits"` // access width
	Store bool   `json:"store"`
	Field string `json:"field"` // member named by the builder's own annotation ("state->x"), debug builds only
}

// Scenario is one single-match rule and what the builder emitted for the match.
type Scenario struct {
	Ver    string   `json:"ver"`
	Kind   string   `json:"kind"`   // cidr | ipset | port | proto
	Field  string   `json:"field"`  // C member the rule's leg reads (from the rule's position, not from the builder)
	Prefix int      `json:"prefix"` // cidr only
	Spec   string   `json:"spec"`   // human readable: which rule
	Acc    []Access `json:"acc"`    // accesses the match adds to the program, in program order
}

type setIDs struct{}

func (setIDs) GetNoAlloc(name string) uint64 { return 0x1122334455667788 }

var annRe = regexp.MustCompile(`/\* state->([\w.]+) \*/`)

func stateAccesses(progs []asm.Insns) []Access {
	var out []Access
	for _, prog := range progs {
		for _, in := range prog {
			op := uint8(in.OpCode())
			class := op & 0x07
			if op&0xe0 != 0x60 { // not MemOpModeMem
				continue
			}
			var bits int
			switch op & 0x18 {
			case 0x00:
				bits = 32
			case 0x08:
				bits = 16
			case 0x10:
				bits = 8
			case 0x18:
				bits = 64
			}
			a := Access{Off: int(in.Off()), Bits: bits}
			switch {
			case class == 0x1 && in.Src() == asm.R9:
			case (class == 0x3 || class == 0x2) && in.Dst() == asm.R9:
				a.Store = true
			default:
				continue
			}
			if m := annRe.FindStringSubmatch(in.Annotation); m != nil {
				a.Field = m[1]
			}
			out = append(out, a)
		}
	}
	return out
}

type placement struct {
	name    string
	hostPre bool // rule sits in HostPreDnatTiers of a host interface (leg = pre-DNAT destination)
}

func buildProg(v6, debug bool, pl placement, r *proto.Rule) []Access {
	opts := []polprog.Option{}
	if v6 {
		opts = append(opts, polprog.WithIPv6())
	}
	if debug {
		opts = append(opts, polprog.WithPolicyDebugEnabled())
	}
	b := polprog.NewBuilder(setIDs{}, maps.FD(11), maps.FD(12), maps.FD(13), maps.FD(14), opts...)
	tiers := []polprog.Tier{{Name: "default", EndAction: polprog.TierEndDeny, Policies: []polprog.Policy{{Name: "p", Rules: []polprog.Rule{{Rule: r, MatchID: 7}}}}}}
	rules := polprog.Rules{Tiers: tiers}
	if pl.hostPre {
		rules = polprog.Rules{ForHostInterface: true, HostPreDnatTiers: tiers}
	}
	progs, err := b.Instructions(rules)
	if err != nil {
		panic(fmt.Sprintf("builder failed for %v: %v", r, err))
	}
	return stateAccesses(progs)
}

// added = accesses of `with` that are not accounted for by `base` (multiset difference, program order).
func added(with, base []Access) []Access {
	cnt := map[Access]int{}
	for _, a := range base {
		cnt[a]++
	}
	var out []Access
	for _, a := range with {
		if cnt[a] > 0 {
			cnt[a]--
			continue
		}
		if a.Store {
			// a rule that always matches makes the code after it unreachable (the assembler drops it),
			// so the baseline can lack trailing verdict stores; a match itself only loads
			continue
		}
		out = append(out, a)
	}
	return out
}

func cidrOf(v6 bool, prefix int) string {
	if v6 {
		return fmt.Sprintf("2001:db8:a5a5:5a5a:c3c3:3c3c:9696:6969/%d", prefix)
	}
	return fmt.Sprintf("203.171.85.149/%d", prefix)
}

// builderFacts returns the scenarios and the set of all distinct annotated accesses seen.
func builderFacts() (scen []Scenario, all map[string][]Access) {
	all = map[string][]Access{"4": nil, "6": nil}
	seen := map[string]map[Access]bool{"4": {}, "6": {}}
	for _, v6 := range []bool{false, true} {
		ver := "4"
		prefixes := []int{0, 1, 8, 24, 31, 32}
		if v6 {
			ver = "6"
			prefixes = []int{0, 1, 31, 32, 33, 63, 64, 65, 95, 96, 97, 127, 128}
		}
		for _, pl := range []placement{{"workload-tier", false}, {"host-preDNAT-tier", true}} {
			base := buildProg(v6, false, pl, &proto.Rule{Action: "allow"})
			dstIP, dstPort := "post_nat_ip_dst", "post_nat_dport"
			if pl.hostPre {
				dstIP, dstPort = "pre_nat_ip_dst", "pre_nat_dport"
			}
			run := func(kind, field string, prefix int, spec string, r *proto.Rule) {
				acc := added(buildProg(v6, false, pl, r), base)
				scen = append(scen, Scenario{Ver: ver, Kind: kind, Field: field, Prefix: prefix, Spec: pl.name + " " + spec, Acc: acc})
				for _, a := range buildProg(v6, true, pl, r) {
					if !seen[ver][a] {
						seen[ver][a] = true
						all[ver] = append(all[ver], a)
					}
				}
			}
			for _, p := range prefixes {
				c := cidrOf(v6, p)
				run("cidr", "ip_src", p, "SrcNet="+c, &proto.Rule{Action: "allow", SrcNet: []string{c}})
				run("cidr", "ip_src", p, "NotSrcNet="+c, &proto.Rule{Action: "allow", NotSrcNet: []string{c}})
				run("cidr", dstIP, p, "DstNet="+c, &proto.Rule{Action: "allow", DstNet: []string{c}})
				run("cidr", dstIP, p, "NotDstNet="+c, &proto.Rule{Action: "allow", NotDstNet: []string{c}})
			}
			run("ipset", "ip_src", 0, "SrcIpSetIds=[s]", &proto.Rule{Action: "allow", SrcIpSetIds: []string{"s"}})
			run("ipset", "ip_src", 0, "NotSrcIpSetIds=[s]", &proto.Rule{Action: "allow", NotSrcIpSetIds: []string{"s"}})
			run("ipset", dstIP, 0, "DstIpSetIds=[s]", &proto.Rule{Action: "allow", DstIpSetIds: []string{"s"}})
			run("ipset", dstIP, 0, "NotDstIpSetIds=[s]", &proto.Rule{Action: "allow", NotDstIpSetIds: []string{"s"}})
			pr := []*proto.PortRange{{First: 80, Last: 81}}
			run("port", "sport", 0, "SrcPorts=80:81", &proto.Rule{Action: "allow", SrcPorts: pr})
			run("port", dstPort, 0, "DstPorts=80:81", &proto.Rule{Action: "allow", DstPorts: pr})
			run("port", "sport", 0, "NotSrcPorts=80:81", &proto.Rule{Action: "allow", NotSrcPorts: pr})
			run("port", dstPort, 0, "NotDstPorts=80:81", &proto.Rule{Action: "allow", NotDstPorts: pr})
			run("proto", "ip_proto", 0, "Protocol=6", &proto.Rule{Action: "allow", Protocol: &proto.Protocol{NumberOrName: &proto.Protocol_Number{Number: 6}}})
			run("proto", "ip_proto", 0, "NotProtocol=17", &proto.Rule{Action: "allow", NotProtocol: &proto.Protocol{NumberOrName: &proto.Protocol_Number{Number: 17}}})
		}
	}
	for _, ver := range []string{"4", "6"} {
		xs := all[ver]
		sort.Slice(xs, func(i, j int) bool {
			if xs[i].Off != xs[j].Off {
				return xs[i].Off < xs[j].Off
			}
			if xs[i].Bits != xs[j].Bits {
				return xs[i].Bits < xs[j].Bits
			}
			return !xs[i].Store && xs[j].Store
		})
	}
	return scen, all
}

// expectedAccesses: what the match must read, given clang's layout of cali_tc_state (bit offsets).
// cidr: word k of the address at field+4k for k < max(1, ceil(prefix/32)) (IPv4: the one word);
// ipset: the whole address (IPv4 one 32-bit load, IPv6 two 64-bit loads), then the leg's port (16) and
// ip_proto (8); port / proto: the member itself, as often as the builder likes.
func expectedAccesses(ver string, s Scenario) (exp []Access, repeat bool, ok bool) {
	o, _, ok := cMember(ver, "cali_tc_state", s.Field)
	if !ok {
		return nil, false, false
	}
	switch s.Kind {
	case "cidr":
		n := 1
		if ver == "6" {
			n = (s.Prefix + 31) / 32
			if n < 1 {
				n = 1
			}
		}
		for k := 0; k < n; k++ {
			exp = append(exp, Access{Off: o/8 + 4*k, Bits: 32})
		}
		return exp, false, true
	case "ipset":
		if ver == "6" {
			exp = append(exp, Access{Off: o / 8, Bits: 64}, Access{Off: o/8 + 8, Bits: 64})
		} else {
			exp = append(exp, Access{Off: o / 8, Bits: 32})
		}
		portField := map[string]string{"ip_src": "sport", "post_nat_ip_dst": "post_nat_dport", "pre_nat_ip_dst": "pre_nat_dport"}[s.Field]
		po, _, ok1 := cMember(ver, "cali_tc_state", portField)
		pr, _, ok2 := cMember(ver, "cali_tc_state", "ip_proto")
		if !ok1 || !ok2 {
			return nil, false, false
		}
		exp = append(exp, Access{Off: po / 8, Bits: 16}, Access{Off: pr / 8, Bits: 8})
		return exp, false, true
	default:
		_, n, _ := cMember(ver, "cali_tc_state", s.Field)
		return []Access{{Off: o / 8, Bits: n}}, true, true
	}
}

func sameAccesses(got, exp []Access, repeat bool) bool {
	if repeat {
		if len(got) == 0 {
			return false
		}
		for _, g := range got {
			if g.Off != exp[0].Off || g.Bits != exp[0].Bits || g.Store {
				return false
			}
		}
		return true
	}
	if len(got) != len(exp) {
		return false
	}
	for i := range got {
		if got[i].Off != exp[i].Off || got[i].Bits != exp[i].Bits || got[i].Store {
			return false
		}
	}
	return true
}

func showAcc(as []Access) string {
	s := ""
	for i, a := range as {
		if i > 0 {
			s += ","
		}
		s += fmt.Sprintf("%d:%d", a.Off, a.Bits)
	}
	if s == "" {
		return "-"
	}
	return s
}
