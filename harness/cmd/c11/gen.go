package main

// Generator: structured, boundary-directed policy configurations and packets.

import (
	"fmt"
	"math/big"
	"strings"

	"github.com/projectcalico/calico/felix/bpf/maps"

	"verif/harness/rt"
)

func fdOf(i int) maps.FD { return maps.FD(uint32(i)) }

var v4Addrs = []uint32{0x0a000001, 0x0a000002, 0x0a0000ff, 0x0a000100, 0x0a010203, 0xc0a80101, 0, 0xffffffff, 0x7f000001, 0x0affffff, 0x0b000000, 0x80000000, 0x01020304}

var v6Hi = []string{"fd00000000000000", "fe80000000000000", "20010db800000000", "20010db8ffffffff", "ffffffffffffffff", "8000000000000000"}
var v6Lo = []string{"0000000000000001", "0000000000000002", "00000000ffffffff", "0000000100000000", "ffffffffffffffff", "8000000000000000", "0000000000000000"}

func genV6Addr(h *rt.H) *big.Int {
	s := rt.Pick(h, v6Hi) + rt.Pick(h, v6Lo)
	v, _ := new(big.Int).SetString(s, 16)
	return v
}

func genNet(h *rt.H, v6 bool) gNet {
	if v6 {
		p := rt.Pick(h, []int{0, 1, 7, 16, 31, 32, 33, 48, 63, 64, 65, 95, 96, 97, 120, 127, 128})
		if h.Chance(0.2) {
			p = h.Intn(129)
		}
		return gNet{V6: true, Addr: genV6Addr(h), Pfx: p}
	}
	p := rt.Pick(h, []int{0, 1, 7, 8, 9, 16, 23, 24, 25, 30, 31, 32, 32, 32})
	a := rt.Pick(h, v4Addrs)
	if h.Chance(0.2) {
		a = h.Rng.Uint32()
	}
	return gNet{Addr: new(big.Int).SetUint64(uint64(a)), Pfx: p}
}

func genNets(h *rt.H, v6 bool, negated bool) []gNet {
	n := 1 + h.Intn(3)
	var out []gNet
	for i := 0; i < n; i++ {
		// mostly the builder's own family, sometimes the other one (filtered out / filters the rule out)
		fam := v6
		if h.Chance(0.12) {
			fam = !fam
		}
		x := genNet(h, fam)
		if negated && x.Pfx == 0 && !h.Chance(0.15) {
			x.Pfx = 8 // negated catch-all drops the whole rule; keep it rare
		}
		out = append(out, x)
	}
	return out
}

var portPool = []int32{0, 1, 79, 80, 81, 443, 1023, 1024, 8080, 32767, 32768, 65534, 65535}

func genPorts(h *rt.H) []gPorts {
	n := 1 + h.Intn(3)
	var out []gPorts
	for i := 0; i < n; i++ {
		a := rt.Pick(h, portPool)
		switch h.Intn(5) {
		case 0, 1:
			out = append(out, gPorts{a, a})
		case 2:
			out = append(out, gPorts{0, a})
		default:
			b := rt.Pick(h, portPool)
			if b < a {
				a, b = b, a
			}
			out = append(out, gPorts{a, b})
		}
	}
	return out
}

var setPool = []uint64{1, 2, 0x1234, 0xfeedbeefdeadcafe, 0xffffffffffffffff, 0x100000000, 0x80000000, 0xff00000000000000}

func genSets(h *rt.H, n int, bad float64) []uint64 {
	var out []uint64
	for i := 0; i < n; i++ {
		id := rt.Pick(h, setPool)
		if h.Chance(bad) {
			id = 0
		}
		out = append(out, id)
	}
	return out
}

func genProto(h *rt.H, odd float64) *gProto {
	if h.Chance(odd) {
		return &gProto{IsName: true, Name: rt.Pick(h, []string{"icmpv6", "udplite", "ICMPv6", "UDPLite"})}
	}
	if h.Bool() {
		return &gProto{IsName: true, Name: rt.Pick(h, []string{"tcp", "udp", "icmp", "sctp", "TCP", "Udp", "SCTP"})}
	}
	return &gProto{Num: rt.Pick(h, []int32{6, 17, 1, 132, 58, 136, 255, 2, 47})}
}

func genIcmp(h *rt.H) gIcmp {
	t := rt.Pick(h, []int32{0, 3, 8, 11, 80, 255})
	if h.Bool() {
		return gIcmp{Kind: 1, T: t}
	}
	return gIcmp{Kind: 2, T: t, C: rt.Pick(h, []int32{0, 1, 3, 255, 31})}
}

type genKnobs struct {
	badAction, badSet, oddProto, profileLog, multiDst float64
}

func genRule(h *rt.H, c *gCfg, k genKnobs, inProfile bool, id *uint64) gRule {
	*id++
	r := gRule{MatchID: *id * 0x100000001}
	acts := []string{"allow", "deny", "allow", "deny", "pass", "next-tier", "log", "Allow", "DENY"}
	if inProfile {
		acts = []string{"allow", "deny", "allow", "deny", "Allow"}
		if h.Chance(0.08) {
			acts = []string{"pass", "next-tier"}
		}
		if h.Chance(k.profileLog) {
			acts = []string{"log"}
		}
	}
	r.Action = rt.Pick(h, acts)
	if h.Chance(k.badAction) {
		r.Action = rt.Pick(h, []string{"bogus", "", "accept"})
	}
	if r.Action == "" {
		r.Action = "x"
	}
	switch h.Intn(8) {
	case 0:
		r.IPVer = 4
	case 1:
		r.IPVer = 6
	}
	nm := h.Intn(4)
	if h.Chance(0.1) {
		nm = 4 + h.Intn(5)
	}
	for i := 0; i < nm; i++ {
		switch h.Intn(22) {
		case 0, 1:
			r.Proto = genProto(h, k.oddProto)
		case 2:
			r.NotProto = genProto(h, k.oddProto)
		case 3, 4:
			r.SrcNet = genNets(h, c.V6, false)
		case 5:
			r.NotSrcNet = genNets(h, c.V6, true)
		case 6, 7:
			r.DstNet = genNets(h, c.V6, false)
		case 8:
			r.NotDstNet = genNets(h, c.V6, true)
		case 9:
			r.SrcSets = genSets(h, 1+h.Intn(2), k.badSet)
		case 10:
			r.NotSrcSets = genSets(h, 1+h.Intn(2), k.badSet)
		case 11:
			n := 1
			if h.Chance(k.multiDst) {
				n = 2
			}
			r.DstSets = genSets(h, n, k.badSet)
		case 12:
			r.NotDstSets = genSets(h, 1+h.Intn(2), k.badSet)
		case 13:
			r.DstPortSets = genSets(h, 1+h.Intn(2), k.badSet)
		case 14:
			r.SrcPorts = genPorts(h)
			if h.Chance(0.3) {
				r.SrcNamed = genSets(h, 1, k.badSet)
			}
		case 15:
			r.NotSrcPorts = genPorts(h)
		case 16, 17:
			r.DstPorts = genPorts(h)
			if h.Chance(0.3) {
				r.DstNamed = genSets(h, 1+h.Intn(2), k.badSet)
			}
		case 18:
			r.NotDstPorts = genPorts(h)
			if h.Chance(0.3) {
				r.NotDstNamed = genSets(h, 1, k.badSet)
			}
		case 19:
			r.DstNamed = genSets(h, 1, k.badSet)
		case 20:
			r.Icmp = genIcmp(h)
		case 21:
			r.NotIcmp = genIcmp(h)
		}
	}
	return r
}

func genPolicy(h *rt.H, c *gCfg, k genKnobs, inProfile bool, id *uint64, maxRules int) gPolicy {
	var p gPolicy
	n := h.Intn(maxRules + 1)
	for i := 0; i < n; i++ {
		p.Rules = append(p.Rules, genRule(h, c, k, inProfile, id))
	}
	return p
}

func genTiers(h *rt.H, c *gCfg, k genKnobs, id *uint64, maxTiers, maxRules int) []gTier {
	var out []gTier
	n := h.Intn(maxTiers + 1)
	for i := 0; i < n; i++ {
		*id++
		t := gTier{End: rt.Pick(h, []string{"d", "d", "p", "u"}), EndID: *id}
		np := 1 + h.Intn(2)
		for j := 0; j < np; j++ {
			t.Policies = append(t.Policies, genPolicy(h, c, k, false, id, maxRules))
		}
		out = append(out, t)
	}
	return out
}

func genProfiles(h *rt.H, c *gCfg, k genKnobs, id *uint64, maxRules int) []gPolicy {
	var out []gPolicy
	n := h.Intn(3)
	for i := 0; i < n; i++ {
		out = append(out, genPolicy(h, c, k, true, id, maxRules))
	}
	return out
}

func genCfg(h *rt.H, caseNo int) *gCfg {
	c := &gCfg{FDs: [4]int{11, 12, 13, 14}, MaxJumps: 7992, TrampStride: 0}
	k := genKnobs{}
	// a small fraction of cases probes the builder's panics / known findings
	switch h.Intn(40) {
	case 0:
		k.badAction = 0.2
	case 1:
		k.badSet = 0.2
	case 2:
		k.oddProto = 0.5
	case 3:
		k.profileLog = 0.3
	case 4:
		k.multiDst = 0.5
	}
	c.V6 = h.Chance(0.3)
	c.FlowLogs = h.Chance(0.3)
	c.Debug = h.Chance(0.1)
	c.UseJmps = h.Chance(0.7)
	c.AllowJmp, c.DenyJmp = 3+h.Intn(5), 9+h.Intn(5)
	if h.Chance(0.6) {
		c.PolIdx, c.PolStride = h.Intn(50), rt.Pick(h, []int{100, 10000})
	}
	if h.Chance(0.3) {
		c.FDs = [4]int{3 + h.Intn(3), 20 + h.Intn(3), 40 + h.Intn(3), 60 + h.Intn(3)}
	}
	maxTiers, maxRules := 2, 3
	// splitting: lower the jump limit so that small policies split (needs the verif hook)
	if caseNo >= 5 && c.PolStride != 0 && h.Chance(0.35) {
		c.MaxJumps = rt.Pick(h, []int{12, 20, 33, 60})
		maxTiers, maxRules = 3, 5
	}
	if caseNo >= 5 && h.Chance(0.1) {
		c.TrampStride = rt.Pick(h, []int{20, 37, 64, 150})
		maxTiers, maxRules = 3, 5
	}
	var id uint64 = 100
	c.NoProfileID = 99
	switch h.Intn(10) {
	case 0: // XDP: untracked policy on a host interface
		c.XDP, c.HostIface = true, true
		c.Suppress = h.Chance(0.1)
		c.HN = genTiers(h, c, k, &id, 1, maxRules+1)
	case 1, 2, 3: // host interface
		c.HostIface = true
		c.Suppress = h.Chance(0.2)
		c.HP = genTiers(h, c, k, &id, maxTiers, maxRules)
		c.HF = genTiers(h, c, k, &id, maxTiers, maxRules)
		c.HN = genTiers(h, c, k, &id, maxTiers, maxRules)
		c.HPR = genProfiles(h, c, k, &id, maxRules)
	default: // workload interface, sometimes with host-* policy
		c.Suppress = h.Chance(0.5)
		if h.Chance(0.3) {
			c.HP = genTiers(h, c, k, &id, 1, maxRules)
			c.HF = genTiers(h, c, k, &id, 1, maxRules)
			c.HN = genTiers(h, c, k, &id, 1, maxRules)
		}
		c.T = genTiers(h, c, k, &id, maxTiers+1, maxRules)
		c.P = genProfiles(h, c, k, &id, maxRules)
	}
	return c
}

// ---- packets directed at the configuration ---------------------------------

type pools struct {
	addrs  []*big.Int
	ports  []uint16
	protos []uint8
	icmp   []uint16
	sets   []uint64
}

func (c *gCfg) pools() *pools {
	p := &pools{}
	nbits := uint(32)
	if c.V6 {
		nbits = 128
	}
	max := new(big.Int).Sub(new(big.Int).Lsh(big.NewInt(1), nbits), big.NewInt(1))
	addAddr := func(a *big.Int) {
		if a.Sign() >= 0 && a.Cmp(max) <= 0 {
			p.addrs = append(p.addrs, a)
		}
	}
	rule := func(r *gRule) {
		for _, ns := range [][]gNet{r.SrcNet, r.NotSrcNet, r.DstNet, r.NotDstNet} {
			for _, n := range ns {
				if n.V6 != c.V6 || n.Pfx > int(nbits) {
					continue
				}
				sh := nbits - uint(n.Pfx)
				lo := new(big.Int).Lsh(new(big.Int).Rsh(n.Addr, sh), sh)
				hi := new(big.Int).Add(lo, new(big.Int).Sub(new(big.Int).Lsh(big.NewInt(1), sh), big.NewInt(1)))
				addAddr(n.Addr)
				addAddr(lo)
				addAddr(hi)
				addAddr(new(big.Int).Sub(lo, big.NewInt(1)))
				addAddr(new(big.Int).Add(hi, big.NewInt(1)))
			}
		}
		for _, ps := range [][]gPorts{r.SrcPorts, r.NotSrcPorts, r.DstPorts, r.NotDstPorts} {
			for _, q := range ps {
				for _, v := range []int32{q.First - 1, q.First, q.Last, q.Last + 1} {
					if v >= 0 && v <= 65535 {
						p.ports = append(p.ports, uint16(v))
					}
				}
			}
		}
		for _, pr := range []*gProto{r.Proto, r.NotProto} {
			if pr != nil {
				if n, ok := protoNumberRef(pr); ok {
					p.protos = append(p.protos, uint8(n))
				}
				p.protos = append(p.protos, 0)
			}
		}
		for _, ic := range []gIcmp{r.Icmp, r.NotIcmp} {
			if ic.Kind == 1 {
				p.icmp = append(p.icmp, uint16(mod256(ic.T)), uint16(mod256(ic.T))|0x0300)
			} else if ic.Kind == 2 {
				p.icmp = append(p.icmp, uint16(mod256(ic.T))|uint16(mod256(ic.C))<<8, uint16(mod256(ic.T)))
			}
		}
		for _, ids := range [][]uint64{r.SrcSets, r.NotSrcSets, r.DstSets, r.NotDstSets, r.DstPortSets, r.SrcNamed, r.NotSrcNamed, r.DstNamed, r.NotDstNamed} {
			p.sets = append(p.sets, ids...)
		}
	}
	for _, ts := range [][]gTier{c.T, c.HP, c.HF, c.HN} {
		for i := range ts {
			for j := range ts[i].Policies {
				for k := range ts[i].Policies[j].Rules {
					rule(&ts[i].Policies[j].Rules[k])
				}
			}
		}
	}
	for _, ps := range [][]gPolicy{c.P, c.HPR} {
		for j := range ps {
			for k := range ps[j].Rules {
				rule(&ps[j].Rules[k])
			}
		}
	}
	return p
}

func genPktLine(h *rt.H, c *gCfg, po *pools) string {
	addr := func() *big.Int {
		var a *big.Int
		if len(po.addrs) > 0 && h.Chance(0.75) {
			a = rt.Pick(h, po.addrs)
		} else if c.V6 {
			a = genV6Addr(h)
		} else {
			a = new(big.Int).SetUint64(uint64(rt.Pick(h, v4Addrs)))
		}
		if !c.V6 {
			// IPv4 lives in the first 4 of the 16 address bytes; the rest is normally zero,
			// sometimes garbage (must be ignored by an IPv4 program)
			a = new(big.Int).Lsh(a, 96)
			if h.Chance(0.1) {
				a.Or(a, new(big.Int).SetUint64(h.Rng.Uint64()))
			}
		}
		return a
	}
	port := func() uint16 {
		if len(po.ports) > 0 && h.Chance(0.75) {
			return rt.Pick(h, po.ports)
		}
		return uint16(rt.Pick(h, portPool))
	}
	src, pre, post := addr(), addr(), addr()
	if h.Chance(0.5) {
		pre = post
	}
	sport, pdp, qdp := port(), port(), port()
	if h.Chance(0.5) {
		pdp = qdp
	}
	dport := qdp
	if len(po.icmp) > 0 && h.Chance(0.7) {
		dport = rt.Pick(h, po.icmp)
	}
	proto := rt.Pick(h, []uint8{6, 17, 1, 132, 58, 0})
	if len(po.protos) > 0 && h.Chance(0.7) {
		proto = rt.Pick(h, po.protos)
	}
	flags := rt.Pick(h, []uint64{0, 0, 0, 4, 8, 12, 1024, 0xffffffffffffffff, 0xfffffffffffffff3, 3})
	rc := rt.Pick(h, []uint32{0, 0, 0, 1, 2, 7})
	hits := rt.Pick(h, []uint8{0, 0, 0, 1, 30, 31, 32, 33, 255})
	envs := "111"
	switch h.Intn(14) {
	case 0:
		envs = "011"
	case 1:
		envs = "101"
	case 2:
		envs = "110"
	}
	// memberships: hits and near-misses for the sets the configuration names
	var mem []string
	kaddr := func(a *big.Int) *big.Int {
		if c.V6 {
			return a
		}
		return new(big.Int).Rsh(a, 96)
	}
	for _, id := range po.sets {
		if id == 0 {
			continue
		}
		for _, l := range []struct {
			a *big.Int
			p uint16
		}{{src, sport}, {pre, pdp}, {post, qdp}} {
			switch h.Intn(6) {
			case 0, 1:
				mem = append(mem, fmt.Sprintf("%d:%s:%d:%d", id, kaddr(l.a).String(), l.p, proto))
			case 2: // near miss
				mem = append(mem, fmt.Sprintf("%d:%s:%d:%d", id, kaddr(l.a).String(), l.p^1, proto))
			}
		}
	}
	if len(mem) > 24 {
		mem = mem[:24]
	}
	ms := "-"
	if len(mem) > 0 {
		ms = strings.Join(mem, ",")
	}
	return fmt.Sprintf("pkt %s %s %s %d %d %d %d %d %d %d %d %d %d %s %s", src, pre, post, sport, dport, pdp, qdp, proto, flags, rc, hits,
		100+h.Intn(3), 200+h.Intn(3), envs, ms)
}

func genCase(h *rt.H, caseNo int) []string {
	c := genCfg(h, caseNo)
	line := c.line()
	ops := []string{line}
	progs, res := build(parseCfgLine(line))
	if res != "ok" {
		return ops
	}
	ops = append(ops, "real "+showProgs(progs))
	po := c.pools()
	n := 4 + h.Intn(9)
	for i := 0; i < n; i++ {
		ops = append(ops, genPktLine(h, c, po))
	}
	return ops
}
