package main

import (
	"fmt"

	"github.com/projectcalico/calico/felix/bpf/polprog"
	"github.com/projectcalico/calico/felix/proto"
)

type idp struct{}

func (idp) GetNoAlloc(s string) uint64 { return 0x1234 }

func main() {
	b := polprog.NewBuilder(idp{}, 1, 2, 3, 4, polprog.WithAllowDenyJumps(7, 8))
	insns, err := b.Instructions(polprog.Rules{Tiers: []polprog.Tier{{Name: "t", Policies: []polprog.Policy{{Name: "p", Rules: []polprog.Rule{{Rule: &proto.Rule{Action: "allow", SrcNet: []string{"10.0.0.1/8"}}}}}}}}})
	fmt.Println(err)
	for _, p := range insns {
		for i, in := range p {
			fmt.Println(i, in)
		}
	}
}
