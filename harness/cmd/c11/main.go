// C11 correspondence harness: drives the REAL felix/bpf/polprog.Builder.
//
// Per case: one generated policy configuration is compiled by the real builder;
// the assembled instructions (opcode, regs, offset, immediate of every slot)
// are the canonical output of the `prog` line and must equal the Lean model's
// instruction list exactly.  The real instructions are then handed to the Lean
// interpreter (`real` line) and both interpreters (Lean, and the Go twin in
// interp.go) run them on generated packet states (`pkt` lines).
//
// Property oracle (on the real code): the real builder must not panic / fail on
// a valid configuration, and the real instructions, interpreted, must reach the
// reference verdict (ref.go) on every packet.
package main

import (
	"fmt"
	"math/big"
	"strconv"
	"strings"

	"github.com/projectcalico/calico/felix/bpf/asm"
	"github.com/projectcalico/calico/felix/bpf/polprog"

	"verif/harness/rt"
)

type idProvider struct{}

// IP set names are "s:<id>"; id 0 means "unknown set" (GetNoAlloc returns 0).
func (idProvider) GetNoAlloc(name string) uint64 {
	v, err := strconv.ParseUint(strings.TrimPrefix(name, "s:"), 10, 64)
	if err != nil {
		return 0
	}
	return v
}

type state struct {
	cfg   *gCfg
	progs []asm.Insns
}

func showProgs(progs []asm.Insns) string {
	var sb strings.Builder
	for i, p := range progs {
		if i > 0 {
			sb.WriteByte('|')
		}
		for j, in := range p {
			if j > 0 {
				sb.WriteByte(',')
			}
			fmt.Fprintf(&sb, "%d.%d.%d.%d.%d", uint8(in.OpCode()), int(in.Dst()), int(in.Src()), in.Off(), in.Imm())
		}
	}
	return sb.String()
}

func parseProgs(txt string) []asm.Insns {
	var out []asm.Insns
	for _, p := range strings.Split(txt, "|") {
		var prog asm.Insns
		if p != "" {
			for _, t := range strings.Split(p, ",") {
				f := strings.Split(t, ".")
				if len(f) != 5 {
					return nil
				}
				prog = append(prog, asm.MakeInsn(asm.OpCode(atoi(f[0])), asm.Reg(atoi(f[1])), asm.Reg(atoi(f[2])), int16(atoi(f[3])), int32(atoi(f[4]))))
			}
		}
		out = append(out, prog)
	}
	return out
}

// build runs the REAL builder.
func build(c *gCfg) (progs []asm.Insns, res string) {
	defer func() {
		if r := recover(); r != nil {
			progs, res = nil, "panic"
		}
	}()
	opts := []polprog.Option{}
	if c.V6 {
		opts = append(opts, polprog.WithIPv6())
	}
	if c.FlowLogs {
		opts = append(opts, polprog.WithFlowLogs())
	}
	if c.Debug {
		opts = append(opts, polprog.WithPolicyDebugEnabled())
	}
	if c.UseJmps {
		opts = append(opts, polprog.WithAllowDenyJumps(c.AllowJmp, c.DenyJmp))
	}
	if c.PolStride != 0 || c.PolIdx != 0 {
		opts = append(opts, polprog.WithPolicyMapIndexAndStride(c.PolIdx, c.PolStride))
	}
	opts = append(opts, polprog.WithTrampolineStride(c.TrampStride))
	opts = append(opts, polprog.VerifWithMaxJumpsPerProgram(c.MaxJumps))
	b := polprog.NewBuilder(idProvider{}, fdOf(c.FDs[0]), fdOf(c.FDs[1]), fdOf(c.FDs[2]), fdOf(c.FDs[3]), opts...)
	insns, err := b.Instructions(c.realRules())
	if err != nil {
		return nil, "err"
	}
	return insns, "ok"
}

// ---- validity (what "a configuration Felix can hand to the BPF dataplane" means here) ----

func actionKnown(a string) bool {
	switch strings.ToLower(a) {
	case "allow", "deny", "log", "pass", "next-tier":
		return true
	}
	return false
}

type cfgFacts struct {
	valid        bool // every rule has an API-valid action, known IP sets, <=1 dst IP set, known protocol names
	profilePass  bool // some profile rule has action pass/next-tier
}

func (c *gCfg) facts() cfgFacts {
	f := cfgFacts{valid: true}
	rule := func(r *gRule, inProfile bool) {
		if !actionKnown(r.Action) {
			f.valid = false
		}
		a := strings.ToLower(r.Action)
		if inProfile && (a == "pass" || a == "next-tier") {
			f.profilePass = true
		}
		fr := filterRule(c.V6, r)
		if fr != nil {
			if len(fr.DstSets) > 1 {
				f.valid = false
			}
			for _, ids := range [][]uint64{fr.SrcSets, fr.NotSrcSets, fr.DstSets, fr.NotDstSets, fr.DstPortSets, fr.SrcNamed, fr.NotSrcNamed, fr.DstNamed, fr.NotDstNamed} {
				for _, id := range ids {
					if id == 0 {
						f.valid = false
					}
				}
			}
		}
		for _, p := range []*gProto{r.Proto, r.NotProto} {
			if p == nil {
				continue
			}
			if _, ok := protoNumberRef(p); !ok {
				f.valid = false
			}
		}
	}
	tiers := func(ts []gTier) {
		for i := range ts {
			for j := range ts[i].Policies {
				for k := range ts[i].Policies[j].Rules {
					rule(&ts[i].Policies[j].Rules[k], false)
				}
			}
		}
	}
	profs := func(ps []gPolicy) {
		for j := range ps {
			for k := range ps[j].Rules {
				rule(&ps[j].Rules[k], true)
			}
		}
	}
	// only the parts Instructions() actually looks at
	if c.XDP {
		if !c.Suppress {
			tiers(c.HN)
		}
	} else {
		tiers(c.HP)
		tiers(c.HF)
		if !c.Suppress {
			tiers(c.HN)
			profs(c.HPR)
		}
	}
	if !c.HostIface {
		tiers(c.T)
		profs(c.P)
	}
	return f
}

// ---- packets --------------------------------------------------------------------

func be16(x *big.Int) [16]byte {
	var b [16]byte
	x.FillBytes(b[:])
	return b
}

func parsePkt(w []string, c *gCfg) (*pkt, *env, bool) {
	if len(w) != 16 {
		return nil, nil, false
	}
	bi := func(s string) *big.Int {
		v, ok := new(big.Int).SetString(s, 10)
		if !ok {
			panic("bad number " + s)
		}
		return v
	}
	u := func(s string) uint64 {
		v, err := strconv.ParseUint(s, 10, 64)
		if err != nil {
			panic("bad number " + s)
		}
		return v
	}
	p := &pkt{Src: be16(bi(w[1])), Pre: be16(bi(w[2])), Post: be16(bi(w[3])), Sport: uint16(u(w[4])), Dport: uint16(u(w[5])),
		PreDport: uint16(u(w[6])), PostDport: uint16(u(w[7])), Proto: uint8(u(w[8])), Flags: u(w[9]), RC: uint32(u(w[10])), Hits: uint8(u(w[11]))}
	e := &env{c: c, cb0: uint32(u(w[12])), cb1: uint32(u(w[13])), stateOK: w[14][0] == '1', tailOK: w[14][1] == '1', polTailOK: w[14][2] == '1'}
	if w[15] != "-" {
		for _, t := range strings.Split(w[15], ",") {
			f := strings.Split(t, ":")
			m := member{ID: u(f[0]), Port: uint16(u(f[2])), Proto: uint8(u(f[3]))}
			a := bi(f[1])
			if c.V6 {
				a.FillBytes(m.Addr[:])
			} else {
				a.FillBytes(m.Addr[:4])
			}
			e.members = append(e.members, m)
		}
	}
	return p, e, true
}

func mkState(p *pkt) []byte {
	st := make([]byte, stateSize)
	copy(st[8:], p.Src[:])
	copy(st[40:], p.Pre[:])
	copy(st[56:], p.Post[:])
	put := func(off, n int, v uint64) {
		for k := 0; k < n; k++ {
			st[off+k] = byte(v >> (8 * k))
		}
	}
	put(92, 4, uint64(p.RC))
	put(96, 2, uint64(p.Sport))
	put(98, 2, uint64(p.Dport))
	put(100, 2, uint64(p.PreDport))
	put(102, 2, uint64(p.PostDport))
	put(104, 1, uint64(p.Proto))
	put(108, 1, uint64(p.Hits))
	put(368, 8, p.Flags)
	return st
}


func matches(o outcome, ex obs) bool {
	if o.kind != ex.kind || o.target != ex.target {
		return false
	}
	if ex.rc >= 0 && int64(le(o.st[92:96])) != ex.rc {
		return false
	}
	return true
}

func exec(h *rt.H, s *state, op string) string {
	w := strings.Fields(op)
	switch w[0] {
	case "prog":
		s.cfg = parseCfgLine(op)
		progs, res := build(s.cfg)
		s.progs = progs
		f := s.cfg.facts()
		h.Count("build:" + res)
		if res != "ok" {
			// oracle: compiling a valid configuration never fails or crashes
			if f.valid {
				sig := "compile-" + res
				h.OracleFail(sig, "the real polprog.Builder "+res+"s on a valid policy configuration", map[string]any{"prog": op})
			}
			return res
		}
		if len(progs) > 1 {
			h.Count(fmt.Sprintf("split:%d", len(progs)))
		}
		return "ok " + showProgs(progs)
	case "real":
		if len(w) != 2 || s.cfg == nil {
			return "bad-op"
		}
		p := parseProgs(w[1])
		if p == nil {
			return "bad-op"
		}
		s.progs = p
		return fmt.Sprintf("ok %d", len(p))
	case "pkt":
		if s.cfg == nil || s.progs == nil {
			return "bad-op"
		}
		p, e, ok := parsePkt(w, s.cfg)
		if !ok {
			return "bad-op"
		}
		o := runChain(e, s.progs, mkState(p))
		ref := verdict(e, p)
		h.Count("ref:" + ref)
		good := false
		if o.kind != "fault" {
			if !e.stateOK {
				shot := uint64(2)
				if s.cfg.XDP {
					shot = 1
				}
				good = o.kind == "exit" && o.target == shot
			} else {
				good = matches(o, expectedObs(e, ref))
				// a failing tail call into the NEXT sub-program of a split build drops the packet
				if !good && !e.polTailOK && len(s.progs) > 1 {
					shot := uint64(2)
					if s.cfg.XDP {
						shot = 1
					}
					good = o.kind == "exit" && o.target == shot
				}
			}
		}
		f := s.cfg.facts()
		if !good && f.valid {
			sig := "verdict-mismatch"
			h.OracleFail(sig, "the real builder's instructions, interpreted, do not reach the reference verdict ("+ref+")",
				map[string]any{"prog": s.cfg.line(), "pkt": op, "got": fmt.Sprintf("%s %d", o.kind, o.target)})
		}
		exp := "BAD"
		if good {
			exp = "ok"
		}
		if o.kind == "fault" {
			h.Count("out:fault")
			return "fault ref=" + ref + " exp=BAD"
		}
		h.Count("out:" + o.kind)
		nh := int(o.st[108])
		var ids []string
		for j := 0; j < nh && j < 32; j++ {
			ids = append(ids, strconv.FormatUint(le(o.st[112+8*j:120+8*j]), 10))
		}
		rc := strconv.FormatUint(le(o.st[92:96]), 10)
		return fmt.Sprintf("%s %d rc=%s fl=%d h=%d:%s ref=%s exp=%s", o.kind, o.target, rc, le(o.st[368:376]), nh, strings.Join(ids, ","), ref, exp)
	}
	return "bad-op"
}

func main() {
	h := rt.New()
	defer h.Close()
	h.Rule = "case = one policy configuration (builder options × host/workload/XDP shape × tiers/policies/profiles × rules over " +
		"protocol, CIDR, IP-set, port, named-port, ICMP matches and negations; boundary-directed) compiled by the REAL builder, then 4..12 " +
		"packet states directed at the rules' boundaries (addresses at/around CIDR edges, ports at/around range edges, IP-set hits/near-misses, " +
		"host flags, tail-call/state-lookup failures); distinct = distinct configuration line; non-trivial = the configuration has >=1 rule with " +
		">=1 match criterion and its packets reach >=2 different reference verdicts or exercise a split"
	runCase := func(ops []string, tag string) {
		h.Case(tag)
		s := &state{}
		refs := map[string]bool{}
		for _, op := range ops {
			out := exec(h, s, op)
			h.Op(op, out)
			h.Count("op:" + strings.Fields(op)[0])
			if i := strings.Index(out, "ref="); i >= 0 {
				refs[strings.Fields(out[i:])[0]] = true
			}
		}
		if s.cfg != nil && (len(refs) >= 2 || len(s.progs) > 1) {
			h.Nontrivial(ops[0])
		}
		h.Sample()
	}
	if h.Replay != "" {
		runCase(h.ReplayLines(), "replay")
		return
	}
	for i := 0; i < h.N; i++ {
		runCase(genCase(h, i), "gen")
	}
}
