// C36 correspondence harness: drives the real felix/ip.CIDRTrie and evaluates the
// property's own oracle (answers = direct computation over the stored prefixes,
// done with net/netip, an implementation independent of felix/ip).
package main

import (
	"fmt"
	"math/big"
	"net/netip"
	"sort"
	"strconv"
	"strings"

	"github.com/projectcalico/calico/felix/ip"

	"verif/harness/rt"
)

type state struct {
	w      int
	t      *ip.CIDRTrie
	stored map[string]int // canonical token -> value: the "plain" view of the trie's contents
}

// ---- tokens <-> CIDRs --------------------------------------------------------

func tokOf(c ip.CIDR) string {
	var b []byte
	switch a := c.Addr().(type) {
	case ip.V4Addr:
		b = a[:]
	case ip.V6Addr:
		b = a[:]
	}
	return fmt.Sprintf("%x/%d", new(big.Int).SetBytes(b), c.Prefix())
}

func bytesOf(w int, tok string) ([]byte, int) {
	parts := strings.SplitN(tok, "/", 2)
	n, ok := new(big.Int).SetString(parts[0], 16)
	if !ok {
		panic("bad token " + tok)
	}
	l, err := strconv.Atoi(parts[1])
	if err != nil {
		panic("bad token " + tok)
	}
	b := make([]byte, w/8)
	n.FillBytes(b)
	return b, l
}

// cidrOf builds the real ip.CIDR through the package's public, masking constructor.
func cidrOf(w int, tok string) ip.CIDR {
	b, l := bytesOf(w, tok)
	if w == 32 {
		var a ip.V4Addr
		copy(a[:], b)
		return ip.CIDRFromAddrAndPrefix(a, l)
	}
	var a ip.V6Addr
	copy(a[:], b)
	return ip.CIDRFromAddrAndPrefix(a, l)
}

// pfxOf is the independent (net/netip) reading of the same token.
func pfxOf(w int, tok string) netip.Prefix {
	b, l := bytesOf(w, tok)
	a, _ := netip.AddrFromSlice(b)
	return netip.PrefixFrom(a, l)
}

func covers(p, q netip.Prefix) bool { return p.Bits() <= q.Bits() && p.Contains(q.Addr()) }

func showEntries(es []ip.CIDRTrieEntry) string {
	if len(es) == 0 {
		return "-"
	}
	var s []string
	for _, e := range es {
		s = append(s, fmt.Sprintf("%s=%d", tokOf(e.CIDR), e.Data.(int)))
	}
	return strings.Join(s, ",")
}

func dump(n *ip.CIDRNode) string {
	if n == nil {
		return "-"
	}
	d := "*"
	if v := n.VerifData(); v != nil {
		d = strconv.Itoa(v.(int))
	}
	return "(" + tokOf(n.VerifCIDR()) + "=" + d + "," + dump(n.VerifChild(0)) + "," + dump(n.VerifChild(1)) + ")"
}

// descTerminates replays the control flow of CIDRTrie.ClosestDescendants through the read-only
// accessors (using the real Contains/NthBit) with a depth bound.
func descTerminates(t *ip.CIDRTrie, parent ip.CIDR, depth int) bool {
	if depth > 300 {
		return false
	}
	n := t.VerifRoot()
	for steps := 0; n != nil; steps++ {
		if steps > 300 {
			return false
		}
		if !n.VerifCIDR().Contains(parent.Addr()) {
			return true
		}
		if parent == n.VerifCIDR() {
			break
		}
		n = n.VerifChild(parent.Addr().NthBit(uint(n.VerifCIDR().Prefix() + 1)))
	}
	if n == nil {
		return true
	}
	for i := 0; i < 2; i++ {
		if c := n.VerifChild(i); c != nil && c.VerifData() == nil {
			if !descTerminates(t, c.VerifCIDR(), depth+1) {
				return false
			}
		}
	}
	return true
}

func b01(b bool) string {
	if b {
		return "1"
	}
	return "0"
}

func (s *state) input(op string) map[string]any {
	keys := make([]string, 0, len(s.stored))
	for k := range s.stored {
		keys = append(keys, k)
	}
	sort.Strings(keys)
	return map[string]any{"width": s.w, "stored": keys, "op": op}
}

// exec runs one protocol op on the REAL code and returns the canonical output.
func exec(h *rt.H, s *state, op string) (out string) {
	w := strings.Fields(op)
	defer func() {
		if r := recover(); r != nil {
			out = "panic"
			if !(w[0] == "cby" && len(s.stored) == 0) {
				h.OracleFail("panic-"+w[0], fmt.Sprintf("real code panicked: %v", r), s.input(op))
			}
		}
	}()
	switch w[0] {
	case "new":
		s.w, _ = strconv.Atoi(w[1])
		s.t = ip.NewCIDRTrie()
		s.stored = map[string]int{}
		return "ok"
	case "upd":
		v, _ := strconv.Atoi(w[2])
		s.t.Update(cidrOf(s.w, w[1]), v)
		s.stored[w[1]] = v
		s.checkContents(h, op)
		return "ok"
	case "del":
		s.t.Delete(cidrOf(s.w, w[1]))
		delete(s.stored, w[1])
		s.checkContents(h, op)
		return "ok"
	case "get":
		got := s.t.Get(cidrOf(s.w, w[1]))
		want, ok := s.stored[w[1]]
		if (got == nil) == ok || (ok && got.(int) != want) {
			h.OracleFail("get", "exact lookup differs from the stored prefixes", s.input(op))
		}
		if got == nil {
			return "nil"
		}
		return strconv.Itoa(got.(int))
	case "path":
		es := s.t.LookupPath(nil, cidrOf(s.w, w[1]))
		q := pfxOf(s.w, w[1])
		var want []string
		if _, ok := s.stored[w[1]]; ok {
			type kv struct {
				k string
				b int
			}
			var anc []kv
			for k := range s.stored {
				if p := pfxOf(s.w, k); covers(p, q) {
					anc = append(anc, kv{k, p.Bits()})
				}
			}
			sort.Slice(anc, func(i, j int) bool { return anc[i].b < anc[j].b })
			for _, a := range anc {
				want = append(want, fmt.Sprintf("%s=%d", a.k, s.stored[a.k]))
			}
		}
		o := showEntries(es)
		if len(want) == 0 {
			if o != "-" {
				h.OracleFail("path-unstored", "LookupPath of a CIDR that is not stored is not empty", s.input(op))
			}
		} else if o != strings.Join(want, ",") {
			h.OracleFail("path", "LookupPath differs from the stored enclosing prefixes by length", s.input(op))
		}
		return o
	case "lpm":
		c, d := s.t.LPM(cidrOf(s.w, w[1]))
		q := pfxOf(s.w, w[1])
		best, bestBits := "", -1
		for k := range s.stored {
			if p := pfxOf(s.w, k); covers(p, q) && p.Bits() > bestBits {
				best, bestBits = k, p.Bits()
			}
		}
		got := ""
		if d != nil {
			got = tokOf(c)
		}
		if got != best || (d != nil && d.(int) != s.stored[best]) {
			if q.Bits() == s.w {
				h.OracleFail("lpm-host", "LPM of a single address differs from the longest stored prefix containing it", s.input(op))
			} else if got != "" && !covers(pfxOf(s.w, got), q) {
				h.Count("finding:lpm-not-covering")
				h.OracleFail("lpm-cidr-not-covering", "LPM of a CIDR returned a stored prefix that does not contain the CIDR", s.input(op))
			} else {
				h.Count("finding:lpm-cidr-other")
				h.OracleFail("lpm-cidr-other", "LPM of a CIDR differs from the longest stored prefix containing it", s.input(op))
			}
		}
		if d == nil {
			return "nil"
		}
		return fmt.Sprintf("%s=%d", tokOf(c), d.(int))
	case "cov":
		got := s.t.Covers(cidrOf(s.w, w[1]))
		q := pfxOf(s.w, w[1])
		want := false
		for k := range s.stored {
			want = want || covers(pfxOf(s.w, k), q)
		}
		if got != want {
			h.OracleFail("covers", "Covers differs from 'some stored prefix contains the CIDR'", s.input(op))
		}
		return b01(got)
	case "int":
		c := cidrOf(s.w, w[1])
		got := s.t.Intersects(c)
		q := pfxOf(s.w, w[1])
		within, overlap := false, false
		for k := range s.stored {
			p := pfxOf(s.w, k)
			within = within || covers(q, p)
			overlap = overlap || p.Overlaps(q)
		}
		if got != within {
			h.OracleFail("intersects", "Intersects differs from 'some stored prefix lies inside the CIDR'", s.input(op))
		}
		// the overlap test as the pool controller composes it
		if (s.t.Get(c) != nil || got || s.t.Covers(c)) != overlap {
			h.OracleFail("overlap", "Get||Intersects||Covers differs from 'some stored prefix overlaps the CIDR'", s.input(op))
		}
		return b01(got)
	case "cby":
		got := s.t.CoveredBy(cidrOf(s.w, w[1])) // panics on the empty trie (recovered above)
		q := pfxOf(s.w, w[1])
		want := true
		for k := range s.stored {
			want = want && covers(q, pfxOf(s.w, k))
		}
		if got != want {
			h.OracleFail("coveredby", "CoveredBy differs from 'every stored prefix lies inside the CIDR'", s.input(op))
		}
		return b01(got)
	case "desc":
		// Guard: on a structurally broken trie the real ClosestDescendants (which re-walks from the root
		// for every data-less child) recurses forever and the fatal stack overflow would lose the replay.
		if !descTerminates(s.t, cidrOf(s.w, w[1]), 0) {
			h.OracleFail("desc-nonterminating", "ClosestDescendants would recurse forever (walk from the root to a child's CIDR does not reach that child)", s.input(op))
			return "nonterminating"
		}
		ds := s.t.ClosestDescendants(nil, cidrOf(s.w, w[1]))
		q := pfxOf(s.w, w[1])
		var got []string
		for _, d := range ds {
			got = append(got, tokOf(d))
		}
		o := "-"
		if len(got) > 0 {
			o = strings.Join(got, ",")
		}
		var want []string
		for k := range s.stored {
			p := pfxOf(s.w, k)
			if k == w[1] || !covers(q, p) {
				continue
			}
			closest := true
			for k2 := range s.stored {
				r := pfxOf(s.w, k2)
				if k2 != k && k2 != w[1] && covers(q, r) && covers(r, p) {
					closest = false
				}
			}
			if closest {
				want = append(want, k)
			}
		}
		gs := append([]string(nil), got...)
		sort.Strings(gs)
		sort.Strings(want)
		if _, ok := s.stored[w[1]]; ok {
			if strings.Join(gs, ",") != strings.Join(want, ",") {
				h.OracleFail("desc", "ClosestDescendants of a stored CIDR differs from the direct computation", s.input(op))
			}
		} else if strings.Join(gs, ",") != strings.Join(want, ",") {
			// documented precondition "the given CIDR in the trie" does not hold: not demanded, only counted
			h.Count("note:desc-of-unstored-differs-from-direct")
		}
		return o
	case "cp":
		return tokOf(ip.CommonPrefix(cidrOf(s.w, w[1]), cidrOf(s.w, w[2])))
	case "has":
		return b01(cidrOf(s.w, w[1]).Contains(cidrOf(s.w, w[2]).Addr()))
	case "bit":
		n, _ := strconv.Atoi(w[2])
		return strconv.Itoa(cidrOf(s.w, w[1]).Addr().NthBit(uint(n)))
	case "slice":
		return showEntries(s.t.ToSlice())
	case "dump":
		return dump(s.t.VerifRoot())
	}
	panic("unknown op " + op)
}

// checkContents: after every mutation the trie's contents are exactly the stored map.
func (s *state) checkContents(h *rt.H, op string) {
	es := s.t.ToSlice()
	ok := len(es) == len(s.stored)
	for _, e := range es {
		v, in := s.stored[tokOf(e.CIDR)]
		ok = ok && in && v == e.Data.(int)
	}
	if !ok {
		h.OracleFail("contents", "trie contents differ from the inserted-minus-deleted prefixes", s.input(op))
	}
}

// ---- generator ---------------------------------------------------------------

var lens4 = []int{0, 1, 7, 8, 9, 15, 16, 17, 23, 24, 25, 30, 31, 32}
var lens6 = []int{0, 1, 8, 47, 48, 63, 64, 65, 66, 96, 112, 126, 127, 128}

func mkTok(w int, addr *big.Int, l int) string {
	sh := uint(w - l)
	a := new(big.Int).Rsh(addr, sh)
	a.Lsh(a, sh)
	return fmt.Sprintf("%x/%d", a, l)
}

// genPool: prefixes concentrated in a small range — a few seed addresses that share
// a long common part, truncated to assorted lengths, plus single-bit neighbours.
func genPool(h *rt.H, w int) []string {
	lens := lens4
	if w == 128 {
		lens = lens6
	}
	base := new(big.Int)
	for i := 0; i < w/8; i++ {
		base.Lsh(base, 8)
		base.Or(base, big.NewInt(int64(h.Intn(256))))
	}
	if h.Intn(6) == 0 {
		base.SetInt64(0)
	}
	if h.Intn(8) == 0 { // all-ones region (top bit, wrap-around boundaries)
		base.Sub(new(big.Int).Lsh(big.NewInt(1), uint(w)), big.NewInt(1))
	}
	nseeds := 1 + h.Intn(4)
	var seeds []*big.Int
	for i := 0; i < nseeds; i++ {
		s := new(big.Int).Set(base)
		for k := 0; k < 1+h.Intn(3); k++ { // flip a few bits, mostly low ones / around the 64-bit boundary
			var pos int
			switch h.Intn(4) {
			case 0:
				pos = h.Intn(w)
			case 1:
				pos = h.Intn(10)
			case 2:
				pos = w - 1 - h.Intn(10)
			default:
				pos = w/2 - 3 + h.Intn(6)
			}
			s.SetBit(s, pos, s.Bit(pos)^1)
		}
		seeds = append(seeds, s)
	}
	set := map[string]bool{}
	var pool []string
	n := 3 + h.Intn(10)
	if h.Intn(5) == 0 {
		n += 10 + h.Intn(15)
	}
	for tries := 0; len(pool) < n && tries < 40*n; tries++ { // bounded: few seeds may not yield n distinct prefixes
		s := rt.Pick(h, seeds)
		var l int
		if h.Intn(4) == 0 {
			l = h.Intn(w + 1)
		} else {
			l = rt.Pick(h, lens)
		}
		t := mkTok(w, s, l)
		if !set[t] {
			set[t] = true
			pool = append(pool, t)
		}
		if len(set) > 40 {
			break
		}
	}
	return pool
}

func genCase(h *rt.H) []string {
	w := 32
	if h.Intn(5) < 2 {
		w = 128
	}
	pool := genPool(h, w)
	pick := func() string {
		if h.Intn(12) == 0 { // fresh prefix near the pool
			b, l := bytesOf(w, rt.Pick(h, pool))
			a := new(big.Int).SetBytes(b)
			pos := h.Intn(w)
			a.SetBit(a, pos, a.Bit(pos)^1)
			if h.Bool() {
				l = h.Intn(w + 1)
			}
			return mkTok(w, a, l)
		}
		return rt.Pick(h, pool)
	}
	ops := []string{fmt.Sprintf("new %d", w)}
	n := 6 + h.Intn(40)
	val := 0
	// warm-up: half of the cases start from a populated trie
	if h.Bool() {
		for i := 0; i < len(pool)/2+h.Intn(len(pool)); i++ {
			val++
			ops = append(ops, fmt.Sprintf("upd %s %d", pick(), val))
		}
	}
	delBias := 14 - 8*h.Intn(2) // some cases delete rarely, so the trie grows
	for i := 0; i < n; i++ {
		k := h.Intn(100)
		if k >= 26+delBias && k < 40 {
			k = 0
		}
		switch {
		case k < 26:
			val++
			ops = append(ops, fmt.Sprintf("upd %s %d", pick(), val))
		case k < 40:
			ops = append(ops, "del "+pick())
		case k < 46:
			ops = append(ops, "get "+pick())
		case k < 52:
			ops = append(ops, "path "+pick())
		case k < 60:
			ops = append(ops, "lpm "+pick())
		case k < 66:
			ops = append(ops, "cov "+pick())
		case k < 72:
			ops = append(ops, "int "+pick())
		case k < 76:
			ops = append(ops, "cby "+pick())
		case k < 83:
			ops = append(ops, "desc "+pick())
		case k < 87:
			ops = append(ops, "cp "+pick()+" "+pick())
		case k < 89:
			ops = append(ops, "has "+pick()+" "+pick())
		case k < 91:
			ops = append(ops, fmt.Sprintf("bit %s %d", pick(), h.Intn(w+3)))
		case k < 94:
			ops = append(ops, "slice")
		default:
			ops = append(ops, "dump")
		}
	}
	ops = append(ops, "dump")
	return ops
}

func main() {
	h := rt.New()
	defer h.Close()
	h.Rule = "case = one family (v4 60% / v6 40%) + a pool of 3..12 (1 in 5: up to 36) prefixes cut from 1..4 seed addresses sharing a long common part " +
		"(lengths around 0,8,16,24,32 / 0,48,64,128 and random; 1/12 ops use a fresh neighbour) + 6..45 ops over " +
		"{upd,del,get,path,lpm,cov,int,cby,desc,cp,has,bit,slice,dump}; non-trivial = the trie held >=3 prefixes with an intermediate node or nesting depth >=2 at some point; distinct = distinct op sequence"
	run := func(ops []string, tag string) {
		h.Case(tag)
		s := &state{w: 32, t: ip.NewCIDRTrie(), stored: map[string]int{}}
		nontriv := false
		for _, op := range ops {
			out := exec(h, s, op)
			h.Op(op, out)
			f := strings.Fields(op)[0]
			h.Count("op:" + f)
			if f == "dump" {
				if strings.Contains(out, "=*") {
					h.Count("dump:with-intermediate")
					nontriv = nontriv || len(s.stored) >= 3
				}
				if strings.Count(out, "(") >= 3 {
					nontriv = nontriv || depth(out) >= 3
				}
			}
			if f == "lpm" || f == "get" {
				if out == "nil" {
					h.Count(f + ":miss")
				} else {
					h.Count(f + ":hit")
				}
			}
			if f == "cov" || f == "int" || f == "cby" {
				h.Count(f + ":" + out)
			}
			if f == "desc" || f == "path" {
				if out == "-" {
					h.Count(f + ":empty")
				} else {
					h.Count(f + ":nonempty")
				}
			}
		}
		h.Count(fmt.Sprintf("family:%d", s.w))
		h.Count(fmt.Sprintf("final-size:%02d", len(s.stored)/3*3))
		if nontriv {
			h.Nontrivial(strings.Join(ops, ";"))
		}
		h.Sample()
	}
	if h.Replay != "" {
		run(h.ReplayLines(), "replay")
		return
	}
	for i := 0; i < h.N; i++ {
		run(genCase(h), "gen")
	}
}

func depth(s string) int {
	d, m := 0, 0
	for _, c := range s {
		if c == '(' {
			d++
			if d > m {
				m = d
			}
		} else if c == ')' {
			d--
		}
	}
	return m
}
