// C41 correspondence harness: drives the real flowtableExclusionManager (verif
// export hook) over a mock IP sets dataplane, the real workloadNeedsForwardHooks
// and the real rule renderer + nft rendering of the flow-offload rule.
package main

import (
	"fmt"
	"regexp"
	"sort"
	"strconv"
	"strings"

	"github.com/projectcalico/calico/felix/environment"
	"github.com/projectcalico/calico/felix/generictables"
	"github.com/projectcalico/calico/felix/ifacemonitor"
	"github.com/projectcalico/calico/felix/ipsets"
	intdataplane "github.com/projectcalico/calico/felix/dataplane/linux"
	"github.com/projectcalico/calico/felix/nftables"
	"github.com/projectcalico/calico/felix/proto"
	"github.com/projectcalico/calico/felix/rules"
	"github.com/projectcalico/calico/libcalico-go/lib/set"

	"verif/harness/rt"
)

// mockIPSets remembers what the manager programs.
type mockIPSets struct {
	sets  map[string][]string
	calls int
	metas []ipsets.IPSetMetadata
}

func (m *mockIPSets) AddOrReplaceIPSet(meta ipsets.IPSetMetadata, members []string) {
	m.sets[meta.SetID] = append([]string(nil), members...)
	m.metas = append(m.metas, meta)
	m.calls++
}
func (m *mockIPSets) AddMembers(setID string, newMembers []string)        { panic("unexpected AddMembers") }
func (m *mockIPSets) RemoveMembers(setID string, removedMembers []string) { panic("unexpected RemoveMembers") }
func (m *mockIPSets) RemoveIPSet(setID string)                            { panic("unexpected RemoveIPSet") }
func (m *mockIPSets) GetIPFamily() ipsets.IPFamily                        { return ipsets.IPFamilyV4 }
func (m *mockIPSets) GetTypeOf(setID string) (ipsets.IPSetType, error)    { return ipsets.IPSetTypeHashIP, nil }
func (m *mockIPSets) GetDesiredMembers(setID string) (set.Set[string], error) {
	return set.FromArray(m.sets[setID]), nil
}
func (m *mockIPSets) QueueResync()                                  {}
func (m *mockIPSets) ApplyUpdates(listener ipsets.UpdateListener)   {}
func (m *mockIPSets) ApplyDeletions() bool                          { return false }
func (m *mockIPSets) SetFilter(neededIPSets set.Set[string])        {}

type wepInfo struct {
	present bool
	nqos    int
	ctl     []int64 // nil or imc,emc,ipr,epr,bw
	n4, n6  []string
}
type hepInfo struct {
	nqos   int
	n4, n6 []string
}

// mockHandler records what the flowtableManager hands to a flowtable.
type mockHandler struct {
	overlay, external []string
	calls             int
}

func (m *mockHandler) SetWorkloadInterfaces(ifces []string) { panic("unexpected SetWorkloadInterfaces") }
func (m *mockHandler) SetOverlayDevices(d []string)         { m.overlay = append([]string(nil), d...); m.calls++ }
func (m *mockHandler) SetExternalDevices(d []string)        { m.external = append([]string(nil), d...); m.calls++ }

type state struct {
	ft       intdataplane.VerifC41Manager
	handlers []*mockHandler
	targets  [][]string
	ifUp     map[string]bool // the property's own view: last reported state of every interface
	ipv  int
	mgr  intdataplane.VerifC41Manager
	mock *mockIPSets
	// the property's own view: current endpoints, whatever their QoS
	weps map[int]wepInfo
	heps map[int]hepInfo
}

func csv(w string) []string {
	if w == "-" {
		return nil
	}
	return strings.Split(w, ",")
}

func atoi(s string) int {
	n, err := strconv.Atoi(s)
	if err != nil {
		panic(err)
	}
	return n
}

func parseCtl(w string) []int64 {
	if w == "-" {
		return nil
	}
	var out []int64
	for _, p := range strings.Split(w, ":") {
		n, err := strconv.ParseInt(p, 10, 64)
		if err != nil {
			panic(err)
		}
		out = append(out, n)
	}
	return out
}

func mkWep(w wepInfo) *proto.WorkloadEndpoint {
	if !w.present {
		return nil
	}
	ep := &proto.WorkloadEndpoint{State: "active", Name: "cali1234", Ipv4Nets: w.n4, Ipv6Nets: w.n6}
	for i := 0; i < w.nqos; i++ {
		ep.QosPolicies = append(ep.QosPolicies, &proto.QoSPolicy{Destination: fmt.Sprintf("10.%d.0.0/16", i), Dscp: int32(10 + i)})
	}
	if w.ctl != nil {
		ep.QosControls = &proto.QoSControls{IngressMaxConnections: w.ctl[0], EgressMaxConnections: w.ctl[1],
			IngressPacketRate: w.ctl[2], EgressPacketRate: w.ctl[3], IngressBandwidth: w.ctl[4], EgressBandwidth: w.ctl[4],
			IngressBurst: w.ctl[4], IngressPacketBurst: w.ctl[4]}
	}
	return ep
}

func wid(id int) *proto.WorkloadEndpointID {
	return &proto.WorkloadEndpointID{OrchestratorId: "k8s", WorkloadId: fmt.Sprintf("ns/pod-%d", id), EndpointId: "eth0"}
}
func hid(id int) *proto.HostEndpointID { return &proto.HostEndpointID{EndpointId: fmt.Sprintf("hep-%d", id)} }

func strip(a string) string {
	if i := strings.IndexByte(a, '/'); i >= 0 {
		return a[:i]
	}
	return a
}

// exact is the property's own statement: addresses (this IP version) of every current workload endpoint with
// DSCP marking or a connection or packet rate limit, and of every current host endpoint with DSCP marking.
func (s *state) exact() map[string]bool {
	out := map[string]bool{}
	for _, w := range s.weps {
		if !w.present {
			continue
		}
		q := w.nqos > 0
		if w.ctl != nil && (w.ctl[0] != 0 || w.ctl[1] != 0 || w.ctl[2] != 0 || w.ctl[3] != 0) {
			q = true
		}
		if !q {
			continue
		}
		nets := w.n4
		if s.ipv == 6 {
			nets = w.n6
		}
		for _, a := range nets {
			out[strip(a)] = true
		}
	}
	for _, h := range s.heps {
		if h.nqos == 0 {
			continue
		}
		ips := h.n4
		if s.ipv == 6 {
			ips = h.n6
		}
		for _, a := range ips {
			out[strip(a)] = true
		}
	}
	return out
}

func sortedKeys(m map[string]bool) []string {
	var ks []string
	for k := range m {
		ks = append(ks, k)
	}
	sort.Strings(ks)
	return ks
}

func showCsvList(l []string) string {
	if len(l) == 0 {
		return "-"
	}
	return strings.Join(l, ",")
}

func showSet(ms []string) string {
	m := map[string]bool{}
	for _, x := range ms {
		m[x] = true
	}
	var keys []string
	for k := range m {
		keys = append(keys, k)
	}
	sort.Strings(keys)
	if len(keys) == 0 {
		return "set=-"
	}
	return "set=" + strings.Join(keys, ",")
}

func rendererConfig(offload bool) rules.Config {
	return rules.Config{
		IPSetConfigV4:            ipsets.NewIPVersionConfig(ipsets.IPFamilyV4, "cali", nil, nil),
		IPSetConfigV6:            ipsets.NewIPVersionConfig(ipsets.IPFamilyV6, "cali", nil, nil),
		MarkAccept:               0x8,
		MarkPass:                 0x10,
		MarkScratch0:             0x20,
		MarkScratch1:             0x40,
		MarkDrop:                 0x80,
		MarkEndpoint:             0xff00,
		MarkNonCaliEndpoint:      0x0100,
		FilterDenyAction:         "DROP",
		VXLANPort:                4789,
		VXLANVNI:                 4096,
		WorkloadIfacePrefixes:    []string{"cali"},
		NFTablesFlowTableOffload: offload,
	}
}

func isOffload(r generictables.Rule) bool {
	_, ok := r.Action.(nftables.FlowOffloadAction)
	return ok
}

func exec(h *rt.H, s *state, op string) string {
	w := strings.Fields(op)
	switch w[0] {
	case "new":
		s.ipv = atoi(w[1])
		s.mock = &mockIPSets{sets: map[string][]string{}}
		s.mgr = intdataplane.VerifC41NewFlowtableExclusionManager(s.mock, uint8(s.ipv), 1024)
		s.weps, s.heps = map[int]wepInfo{}, map[int]hepInfo{}
		return "ok"
	case "wup":
		id := atoi(w[1])
		info := wepInfo{present: w[2] != "0", nqos: atoi(w[3]), ctl: parseCtl(w[4]), n4: csv(w[5]), n6: csv(w[6])}
		s.mgr.OnUpdate(&proto.WorkloadEndpointUpdate{Id: wid(id), Endpoint: mkWep(info)})
		s.weps[id] = info
		return "ok"
	case "wrm":
		id := atoi(w[1])
		s.mgr.OnUpdate(&proto.WorkloadEndpointRemove{Id: wid(id)})
		delete(s.weps, id)
		return "ok"
	case "hup":
		id := atoi(w[1])
		info := hepInfo{nqos: atoi(w[2]), n4: csv(w[3]), n6: csv(w[4])}
		ep := &proto.HostEndpoint{Name: "eth0", ExpectedIpv4Addrs: info.n4, ExpectedIpv6Addrs: info.n6}
		for i := 0; i < info.nqos; i++ {
			ep.QosPolicies = append(ep.QosPolicies, &proto.QoSPolicy{Destination: "0.0.0.0/0", Dscp: int32(20 + i)})
		}
		s.mgr.OnUpdate(&proto.HostEndpointUpdate{Id: hid(id), Endpoint: ep})
		s.heps[id] = info
		return "ok"
	case "hrm":
		id := atoi(w[1])
		s.mgr.OnUpdate(&proto.HostEndpointRemove{Id: hid(id)})
		delete(s.heps, id)
		return "ok"
	case "complete":
		before := s.mock.calls
		if err := s.mgr.CompleteDeferredWork(); err != nil {
			return "err"
		}
		// property oracle on the real code: whatever happened before, once deferred work is complete the
		// programmed no-flow-offload set is exactly the addresses of the endpoints that need per-packet hooks
		got := map[string]bool{}
		members, programmed := s.mock.sets[rules.IPSetIDNoFlowOffload]
		for _, x := range members {
			got[x] = true
		}
		want := s.exact()
		for a := range want {
			if !got[a] {
				h.OracleFail("excluded-missing", "address of an endpoint with DSCP/conn/packet-rate limit is NOT in the no-flow-offload set (its flows would be offloaded)",
					map[string]any{"addr": a, "programmed": programmed, "set": showSet(members)})
			}
		}
		for a := range got {
			if !want[a] {
				h.OracleFail("excluded-stale", "no-flow-offload set contains an address no qualifying endpoint currently has",
					map[string]any{"addr": a, "set": showSet(members)})
			}
		}
		for _, meta := range s.mock.metas {
			if meta.SetID != rules.IPSetIDNoFlowOffload || meta.Type != ipsets.IPSetTypeHashIP {
				// not stated by the property (which set id/type the implementation uses): observation only
				h.Count("obs:set-metadata-differs")
			}
		}
		if s.mock.calls == before {
			return "noop"
		}
		return showSet(members)
	case "ftnew":
		s.handlers, s.targets, s.ifUp = nil, nil, map[string]bool{}
		var hs []nftables.FlowTableHandler
		for _, t := range w[1:] {
			mh := &mockHandler{}
			s.handlers = append(s.handlers, mh)
			hs = append(hs, mh)
			s.targets = append(s.targets, csv(t))
		}
		s.ft = intdataplane.VerifC41NewFlowtableManager(hs, s.targets, regexp.MustCompile("^eth"))
		return "ok"
	case "ftif":
		st := ifacemonitor.StateDown
		if w[2] != "0" {
			st = ifacemonitor.StateUp
		}
		s.ft.OnUpdate(intdataplane.NewIfaceStateUpdate(w[1], st, 7))
		s.ifUp[w[1]] = w[2] != "0"
		return "ok"
	case "ftcomplete":
		before := 0
		for _, mh := range s.handlers {
			before += mh.calls
		}
		if err := s.ft.CompleteDeferredWork(); err != nil {
			return "err"
		}
		after := 0
		for _, mh := range s.handlers {
			after += mh.calls
		}
		// oracle: each flowtable holds exactly its own overlay devices that are up and the up interfaces
		// matching the external pattern (never a device that is down: nft would reject the transaction)
		isOverlay := map[string]bool{}
		for _, t := range s.targets {
			for _, d := range t {
				isOverlay[d] = true
			}
		}
		var ovs []string
		for i, mh := range s.handlers {
			want := map[string]bool{}
			for _, d := range s.targets[i] {
				if s.ifUp[d] {
					want[d] = true
				}
			}
			got := map[string]bool{}
			for _, d := range mh.overlay {
				got[d] = true
			}
			wantExt := map[string]bool{}
			for n, up := range s.ifUp {
				if up && !isOverlay[n] && strings.HasPrefix(n, "eth") {
					wantExt[n] = true
				}
			}
			gotExt := map[string]bool{}
			for _, d := range mh.external {
				gotExt[d] = true
			}
			if fmt.Sprint(sortedKeys(want)) != fmt.Sprint(sortedKeys(got)) || fmt.Sprint(sortedKeys(wantExt)) != fmt.Sprint(sortedKeys(gotExt)) {
				h.OracleFail("flowtable-devices", "flowtable device set differs from (own overlay devices that are up, up interfaces matching the pattern)",
					map[string]any{"target": i, "overlay": mh.overlay, "external": mh.external, "wantOverlay": sortedKeys(want), "wantExternal": sortedKeys(wantExt)})
			}
			ovs = append(ovs, showCsvList(mh.overlay))
		}
		if after == before {
			return "noop"
		}
		ext := "-"
		if len(s.handlers) > 0 {
			ext = showCsvList(s.handlers[0].external)
		}
		return "ov=" + strings.Join(ovs, ";") + " ext=" + ext
	case "needs":
		info := wepInfo{present: w[1] != "0", nqos: atoi(w[2]), ctl: parseCtl(w[3])}
		if intdataplane.VerifC41WorkloadNeedsForwardHooks(mkWep(info)) {
			return "1"
		}
		return "0"
	case "rule":
		ipv, offload, nft := atoi(w[1]), w[2] != "0", w[3] != "0"
		rr := rules.NewRenderer(rendererConfig(offload), nft).(*rules.DefaultRuleRenderer)
		n, idx, text := 0, -1, ""
		count := func(chains []*generictables.Chain, fwd bool) {
			for _, c := range chains {
				for i, r := range c.Rules {
					if isOffload(r) {
						n++
						if fwd && c.Name == rules.ChainFilterForward && idx < 0 {
							idx = i
							text = nftables.NewNFTRenderer("", uint8(ipv)).Render(c.Name, "", r, &environment.Features{}).Rule
						}
					}
				}
			}
		}
		count(rr.StaticFilterForwardChains(uint8(ipv)), true)
		count(rr.StaticFilterTableChains(uint8(ipv)), false)
		// StaticFilterTableChains includes the forward chains again: count each offload rule once
		if n%2 == 0 {
			n /= 2
		}
		if n == 0 {
			return "none"
		}
		// oracle: the offload rule is guarded (established/related only, neither source nor destination in the set)
		// and sits ahead of the dispatch jumps (index 0)
		set := ipsets.NewIPVersionConfig(map[int]ipsets.IPFamily{4: ipsets.IPFamilyV4, 6: ipsets.IPFamilyV6}[ipv], "cali", nil, nil).NameForMainIPSet(rules.IPSetIDNoFlowOffload)
		ipw := map[int]string{4: "ip", 6: "ip6"}[ipv]
		for _, need := range []string{"ct state related,established", ipw + " saddr != @" + set, ipw + " daddr != @" + set} {
			if !strings.Contains(text, need) {
				h.OracleFail("offload-rule-unguarded", "flow offload rule lacks the guard "+need, map[string]any{"rule": text})
			}
		}
		if idx != 0 {
			// the property does not state where the rule sits (felix/design/dataplane.md does): observation only;
			// the position is still part of the line compared with the model
			h.Count("obs:offload-rule-not-first")
		}
		return fmt.Sprintf("idx=%d n=%d %s", idx, n, text)
	}
	panic("unknown op " + op)
}

// ---- generator ---------------------------------------------------------------

var pool4 = []string{"10.0.0.1/32", "10.0.0.2/32", "10.0.0.3/32", "10.0.1.1", "192.168.0.7/24", "10.0.0.1", "10.0.0.10/32", "10.0.0.100/32"}
var pool6 = []string{"fd00::1/128", "fd00::2/128", "fd00::1", "2001:db8::5/64", "fd00::10/128"}

func genAddrs(h *rt.H, pool []string) string {
	n := rt.Pick(h, []int{0, 1, 1, 1, 2, 3})
	if n == 0 {
		return "-"
	}
	var out []string
	for i := 0; i < n; i++ {
		out = append(out, rt.Pick(h, pool))
	}
	return strings.Join(out, ",")
}

func genCtl(h *rt.H) string {
	switch h.Intn(6) {
	case 0, 1:
		return "-"
	case 2:
		return "0:0:0:0:" + strconv.Itoa(h.Intn(2)*1000) // bandwidth only: must NOT exclude
	case 3:
		v := []int{0, 0, 0, 0}
		v[h.Intn(4)] = rt.Pick(h, []int{1, 100, -1})
		return fmt.Sprintf("%d:%d:%d:%d:%d", v[0], v[1], v[2], v[3], h.Intn(2)*500)
	default:
		return fmt.Sprintf("%d:%d:%d:%d:%d", h.Intn(2)*10, h.Intn(2)*10, h.Intn(2)*10, h.Intn(2)*10, h.Intn(2)*500)
	}
}

var ftNames = []string{"vxlan.calico", "vxlan-v6.calico", "tunl0", "wireguard.cali", "eth0", "eth1", "eth10", "ens3", "lo", "cali123", "ethx"}

func genFtCase(h *rt.H) []string {
	tsets := [][]string{{"vxlan.calico", "tunl0"}, {"vxlan-v6.calico"}, {"vxlan.calico"}, {"-"}, {"wireguard.cali", "eth1"}}
	nt := 1 + h.Intn(2)
	parts := []string{"ftnew"}
	for i := 0; i < nt; i++ {
		parts = append(parts, strings.Join(rt.Pick(h, tsets), ","))
	}
	ops := []string{strings.Join(parts, " ")}
	n := 3 + h.Intn(20)
	for i := 0; i < n; i++ {
		if h.Intn(4) == 0 {
			ops = append(ops, "ftcomplete")
		} else {
			ops = append(ops, fmt.Sprintf("ftif %s %d", rt.Pick(h, ftNames), h.Intn(2)))
		}
	}
	return append(ops, "ftcomplete")
}

func genCase(h *rt.H) []string {
	if h.Chance(0.2) {
		return genFtCase(h)
	}
	ipv := rt.Pick(h, []int{4, 4, 6})
	ops := []string{fmt.Sprintf("new %d", ipv)}
	nid := 1 + h.Intn(4)
	n := 3 + h.Intn(25)
	for i := 0; i < n; i++ {
		switch h.Intn(14) {
		case 0, 1, 2, 3, 4:
			present := 1
			if h.Chance(0.05) {
				present = 0
			}
			nq := rt.Pick(h, []int{0, 0, 0, 1, 2})
			ops = append(ops, fmt.Sprintf("wup %d %d %d %s %s %s", h.Intn(nid), present, nq, genCtl(h), genAddrs(h, pool4), genAddrs(h, pool6)))
		case 5, 6:
			ops = append(ops, fmt.Sprintf("wrm %d", h.Intn(nid)))
		case 7, 8:
			ops = append(ops, fmt.Sprintf("hup %d %d %s %s", h.Intn(nid), rt.Pick(h, []int{0, 0, 1, 2}), genAddrs(h, pool4), genAddrs(h, pool6)))
		case 9:
			ops = append(ops, fmt.Sprintf("hrm %d", h.Intn(nid)))
		case 10, 11, 12:
			ops = append(ops, "complete")
		default:
			if h.Bool() {
				ops = append(ops, fmt.Sprintf("needs %d %d %s", h.Intn(2), rt.Pick(h, []int{0, 0, 1}), genCtl(h)))
			} else {
				ops = append(ops, fmt.Sprintf("rule %d %d %d", rt.Pick(h, []int{4, 6}), h.Intn(2), rt.Pick(h, []int{1, 1, 0})))
			}
		}
	}
	ops = append(ops, "complete")
	return ops
}

func main() {
	h := rt.New()
	defer h.Close()
	h.Rule = "case = `new <4|6>` + 3..27 ops over 1..4 workload ids and 1..4 host ids {wup (nil endpoint 5%, 0..2 DSCP policies, QoSControls nil / bandwidth-only / one limit / random), " +
		"wrm, hup, hrm, complete, needs, rule} + final complete; addresses from small pools (shared between endpoints, with and without /len, both families); " +
		"20% of cases drive the flowtableManager instead (1..2 targets with overlay devices, interface up/down events for overlay, pattern-matching and other names, completes); distinct = distinct op sequence; non-trivial = some complete programmed a non-empty set AND an endpoint lost its QoS feature or was removed"
	run := func(ops []string, tag string) {
		h.Case(tag)
		s := &state{}
		nonEmpty, lost := false, false
		for _, op := range ops {
			if s.mgr == nil && !strings.HasPrefix(op, "new ") && !strings.HasPrefix(op, "ft") {
				exec(h, s, "new 4")
			}
			if s.ft == nil && strings.HasPrefix(op, "ft") && !strings.HasPrefix(op, "ftnew") {
				exec(h, s, "ftnew -")
			}
			out := exec(h, s, op)
			h.Op(op, out)
			name := strings.Fields(op)[0]
			h.Count("op:" + name)
			if name == "complete" {
				if out == "noop" {
					h.Count("complete:noop")
				} else if out != "set=-" {
					nonEmpty = true
				}
			}
			if name == "wrm" || name == "hrm" || (name == "wup" && strings.Fields(op)[3] == "0") {
				lost = true
			}
		}
		if nonEmpty && lost {
			h.Nontrivial(strings.Join(ops, ";"))
		}
		h.Sample()
	}
	if h.Replay != "" {
		run(h.ReplayLines(), "replay")
		return
	}
	for i := 0; i < h.N; i++ {
		run(genCase(h), "gen")
	}
}
