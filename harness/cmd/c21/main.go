// C21 correspondence harness: drives the real libcalico-go/lib/ipam allocationBlock
// (through the `verif` export hook) and evaluates the property's own oracle on it.
//
// Time: the real code reads the wall clock (v1.Now()) in addCooldownAttribute and
// garbageCollect; the clock is strictly increasing, so a garbage collection always happens
// strictly later than any earlier release, even inside one call. The harness keeps a virtual
// clock `vnow` (whole seconds). Between ops every ReleasedAt is stored in a "virtual frame"
// (unix = base+rel); just before an op they are rewritten relative to the real clock
// (real_now + (rel-vnow)s - 500ms) so that the real comparison
// `ReleasedAt.Before(now - cooldown)` is exactly `rel + cooldown <= vnow` (the 500ms keeps the
// comparison half a second away from the boundary), and after the op they are converted back
// (attributes created during the op get rel = vnow).
package main

import (
	"fmt"
	"reflect"
	"sort"
	"strconv"
	"strings"
	"time"

	metav1 "k8s.io/apimachinery/pkg/apis/meta/v1"

	"github.com/projectcalico/calico/libcalico-go/lib/backend/model"
	cerrors "github.com/projectcalico/calico/libcalico-go/lib/errors"
	"github.com/projectcalico/calico/libcalico-go/lib/ipam"
	cnet "github.com/projectcalico/calico/libcalico-go/lib/net"

	"verif/harness/rt"
)

const vbase = int64(1_000_000_000)

// sink is the part of *rt.H that exec uses (the generator runs a shadow copy with a null sink).
type sink interface {
	OracleFail(sig string, desc string, input any)
	Count(key string)
	CaseNo() int
}
type nullSink struct{}

func (nullSink) OracleFail(string, string, any) {}
func (nullSink) Count(string)                   {}
func (nullSink) CaseNo() int                    { return 0 }

type state struct {
	c    *cstate // client-level cases (client.go)
	vb   *ipam.VerifBlock
	n    int
	vnow int64
	step int
	// oracle bookkeeping
	enteredAt  map[int]int   // ordinal -> step index at which it last entered Unallocated (0 = initial)
	releasedAt map[int]int64 // ordinal -> virtual time of its last live->cooldown transition
	lastRelTm  map[int]int64 // ordinal -> ReleasedAt it had when it was deallocated (for the tie measurement)
	constCd    *int          // cooldown used by every cooldown-taking op of the case so far (nil: none yet)
	mixedCd    bool
}

const baseIP = uint32(10<<24 | 0<<16 | 1<<8 | 0) // 10.0.1.0

func ipOf(ord int) string {
	v := uint32(int64(baseIP) + int64(ord))
	return fmt.Sprintf("%d.%d.%d.%d", v>>24, (v>>16)&255, (v>>8)&255, v&255)
}

func ordOf(ip cnet.IP) int {
	b := ip.To4()
	v := uint32(b[0])<<24 | uint32(b[1])<<16 | uint32(b[2])<<8 | uint32(b[3])
	return int(int64(v) - int64(baseIP))
}

func cidrOf(n int) cnet.IPNet {
	bits := 0
	for 1<<bits < n {
		bits++
	}
	return cnet.MustParseCIDR(fmt.Sprintf("%s/%d", ipOf(0), 32-bits))
}

// ---- tokens -----------------------------------------------------------------

func encStr(s string) string { return "s:" + strings.ReplaceAll(s, "\r", "R") }
func encH(h *string) string {
	if h == nil {
		return "nil"
	}
	return encStr(*h)
}
func decH(tok string) *string {
	if tok == "nil" {
		return nil
	}
	s := strings.ReplaceAll(strings.TrimPrefix(tok, "s:"), "R", "\r")
	return &s
}
func ownerMap(tok int) map[string]string {
	switch tok {
	case 0:
		return nil
	case 1:
		return map[string]string{}
	}
	return map[string]string{"note": strconv.Itoa(tok)}
}
func ownerTok(m map[string]string) string {
	if m == nil {
		return "0"
	}
	if len(m) == 0 {
		return "1"
	}
	if v, ok := m["note"]; ok && len(m) == 1 {
		return v
	}
	return "?"
}
func sanitize(h string) string { return strings.Split(h, "\r")[0] }

// ---- time frames ------------------------------------------------------------

func (s *state) toReal(now time.Time) {
	b := s.vb.Model()
	for i := range b.Attributes {
		if t := b.Attributes[i].ReleasedAt; t != nil {
			rel := t.Unix() - vbase
			nt := metav1.NewTime(now.Add(time.Duration(rel-s.vnow)*time.Second - 500*time.Millisecond))
			b.Attributes[i].ReleasedAt = &nt
		}
	}
}

func (s *state) toVirtual(now time.Time) {
	b := s.vb.Model()
	for i := range b.Attributes {
		if t := b.Attributes[i].ReleasedAt; t != nil {
			d := t.Time.Sub(now) + 750*time.Millisecond
			q := int64(d / time.Second)
			if d < 0 && d%time.Second != 0 {
				q--
			}
			nt := metav1.NewTime(time.Unix(vbase+s.vnow+q, 0))
			b.Attributes[i].ReleasedAt = &nt
		}
	}
}

// ---- canonical dump -----------------------------------------------------------

func dump(b *model.AllocationBlock) string {
	var sb strings.Builder
	sb.WriteString("A=")
	for i, a := range b.Allocations {
		if i > 0 {
			sb.WriteByte(',')
		}
		if a == nil {
			sb.WriteByte('-')
		} else {
			sb.WriteString(strconv.Itoa(*a))
		}
	}
	sb.WriteString(" U=")
	for i, u := range b.Unallocated {
		if i > 0 {
			sb.WriteByte(',')
		}
		sb.WriteString(strconv.Itoa(u))
	}
	sb.WriteString(" T=")
	for i, a := range b.Attributes {
		if i > 0 {
			sb.WriteByte(';')
		}
		rel := "-"
		if a.ReleasedAt != nil {
			rel = strconv.FormatInt(a.ReleasedAt.Unix()-vbase, 10)
		}
		alt := ""
		if a.AlternateOwnerAttrs != nil {
			alt = "/alt?"
		}
		sb.WriteString(encH(a.HandleID) + "/" + ownerTok(a.ActiveOwnerAttrs) + "/" + rel + alt)
	}
	sb.WriteString(" S=" + strconv.FormatUint(b.SequenceNumber, 10))
	sb.WriteString(" Q=")
	type kv struct {
		o int
		s uint64
	}
	var kvs []kv
	for k, v := range b.SequenceNumberForAllocation {
		o, err := strconv.Atoi(k)
		if err != nil {
			o = -1
		}
		kvs = append(kvs, kv{o, v})
	}
	sort.Slice(kvs, func(i, j int) bool { return kvs[i].o < kvs[j].o })
	for i, e := range kvs {
		if i > 0 {
			sb.WriteByte(',')
		}
		sb.WriteString(fmt.Sprintf("%d:%d", e.o, e.s))
	}
	return sb.String()
}

// ---- views used by the oracle ---------------------------------------------------

// live: allocated and not in cooldown; returns (sanitised handle, attribute copy).
func live(b *model.AllocationBlock, o int) (bool, model.AllocationAttribute) {
	if o < 0 || o >= len(b.Allocations) || b.Allocations[o] == nil {
		return false, model.AllocationAttribute{}
	}
	a := b.Attributes[*b.Allocations[o]]
	if a.ReleasedAt != nil {
		return false, a
	}
	return true, a
}

func cooling(b *model.AllocationBlock, o int) bool {
	if b.Allocations[o] == nil {
		return false
	}
	return b.Attributes[*b.Allocations[o]].ReleasedAt != nil
}

func handleOf(a model.AllocationAttribute) string {
	if a.HandleID == nil {
		return ""
	}
	return sanitize(*a.HandleID)
}

func inUnalloc(b *model.AllocationBlock, o int) bool {
	for _, u := range b.Unallocated {
		if u == o {
			return true
		}
	}
	return false
}

func (s *state) noteCd(cd int) {
	if s.constCd == nil {
		c := cd
		s.constCd = &c
	} else if *s.constCd != cd {
		s.mixedCd = true
	}
}

// generic post-op bookkeeping + cooldown / queue-discipline oracles, comparing block before/after.
func (s *state) track(h sink, op string, before, after *model.AllocationBlock) {
	s.step++
	for o := 0; o < s.n; o++ {
		lb, _ := live(before, o)
		la, _ := live(after, o)
		cb := cooling(before, o)
		// newly live: allocated by this op
		if la && !lb {
			if t, ok := s.releasedAt[o]; ok && s.constCd != nil && !s.mixedCd && *s.constCd >= 0 {
				if !(s.vnow-t >= int64(*s.constCd)) {
					h.OracleFail("cooldown-violated", "address handed out again before its cooldown passed",
						map[string]any{"op": op, "ordinal": o, "released_at": t, "now": s.vnow, "cooldown": *s.constCd, "case": h.CaseNo()})
				}
			}
			if cb {
				// not forbidden by the property once the cooldown has passed (cooldown-violated covers the rest)
				h.Count("obs:realloc-straight-from-cooldown")
			}
		}
		if lb && !la {
			s.releasedAt[o] = s.vnow
		}
		// newly in Unallocated
		ub, ua := inUnalloc(before, o), inUnalloc(after, o)
		if ua && !ub {
			s.enteredAt[o] = s.step
			if cb {
				s.lastRelTm[o] = before.Attributes[*before.Allocations[o]].ReleasedAt.Unix() - vbase
			}
		}
	}
}

func sameBlock(a, b *model.AllocationBlock) bool { return reflect.DeepEqual(a, b) }

// freed: one of the given (live before) ordinals is no longer live with the same handle
func freed(before, after *model.AllocationBlock, ords []int) bool {
	for _, o := range ords {
		_, ab := live(before, o)
		la, aa := live(after, o)
		if !la || handleOf(ab) != handleOf(aa) {
			return true
		}
	}
	return false
}

// liveChanged: some ordinal changed between live and not live (or changed its handle)
func liveChanged(before, after *model.AllocationBlock) bool {
	for o := range before.Allocations {
		lb, ab := live(before, o)
		la, aa := live(after, o)
		if lb != la || (lb && handleOf(ab) != handleOf(aa)) {
			return true
		}
	}
	return false
}

// exec runs one protocol op on the REAL code and returns the canonical output.
func exec(h sink, s *state, op string) string {
	w := strings.Fields(op)
	atoi := func(x string) int { v, _ := strconv.Atoi(x); return v }
	switch w[0] {
	case "new", "newr":
		s.n = atoi(w[1])
		seq0, _ := strconv.ParseUint(w[2], 10, 64)
		var rsvd *ipam.HostReservedAttr
		if w[0] == "newr" {
			rsvd = &ipam.HostReservedAttr{StartOfBlock: atoi(w[3]), EndOfBlock: atoi(w[4]), Handle: *decH(w[5]), Note: w[6]}
		}
		s.vb = ipam.VerifNewBlock(cidrOf(s.n), rsvd)
		s.vb.Model().SequenceNumber = seq0
		s.vnow, s.step = 0, 0
		s.enteredAt, s.releasedAt, s.lastRelTm = map[int]int{}, map[int]int64{}, map[int]int64{}
		s.constCd, s.mixedCd = nil, false
		return "ok | " + dump(s.vb.Model())
	case "bump":
		s.vb.Model().SequenceNumber++
		return "ok | " + dump(s.vb.Model())
	case "tick":
		s.vnow += int64(atoi(w[1]))
		return "ok | " + dump(s.vb.Model())
	case "empty":
		// empty() gates block deletion: it must count cooling-down addresses as allocations (deleting the
		// block would discard their ReleasedAt stamps and the free queue)
		e := s.vb.Empty()
		if e {
			for o := range s.vb.Model().Allocations {
				if cooling(s.vb.Model(), o) {
					h.OracleFail("empty-with-cooling-address", "empty() is true for a block that still holds an address in cooldown: the block may be deleted and the address handed out again before its cooldown passed",
						map[string]any{"op": op, "ordinal": o, "block": dump(s.vb.Model())})
					break
				}
			}
		}
		if e {
			return "1 | " + dump(s.vb.Model())
		}
		return "0 | " + dump(s.vb.Model())
	}

	b := s.vb.Model()
	before := b.Clone()
	now := time.Now()
	s.toReal(now)
	var res string
	switch w[0] {
	case "gc":
		cd := atoi(w[1])
		s.noteCd(cd)
		changed := s.vb.GarbageCollect(cd)
		s.toVirtual(now)
		res = "0"
		if changed {
			res = "1"
		}
		if changed == sameBlock(before, b) {
			h.Count("gc:changed-flag-differs-from-deep-equal")
		}
	case "auto":
		num := atoi(w[1])
		var rsv []cnet.IPNet
		rset := map[int]bool{}
		if w[4] != "-" {
			for _, x := range strings.Split(w[4], ",") {
				rset[atoi(x)] = true
				rsv = append(rsv, cnet.MustParseCIDR(ipOf(atoi(x))+"/32"))
			}
		}
		ips, err := s.vb.AutoAssign(num, decH(w[2]), ipam.AffinityConfig{}, ownerMap(atoi(w[3])), false, rsv)
		s.toVirtual(now)
		if err != nil {
			res = "err"
			break
		}
		var os []string
		taken := map[int]bool{}
		for _, ip := range ips {
			o := ordOf(cnet.IP{IP: ip.IP})
			taken[o] = true
			os = append(os, strconv.Itoa(o))
		}
		res = "ips=" + strings.Join(os, ",")
		// ORACLE fifo: every address taken entered the free queue no later than every non-reserved address
		// that stays in the queue (ties in either order). Other facts are only counted (obs:).
		for y := range taken {
			if !inUnalloc(before, y) {
				h.Count("obs:auto-not-from-queue")
			}
			if rset[y] {
				h.Count("obs:auto-reserved")
			}
			for _, x := range b.Unallocated {
				if rset[x] {
					continue
				}
				ey, ex := s.enteredAt[y], s.enteredAt[x]
				// "longest-free first": an address that entered the free queue at a later step must not be taken
				// before one that entered earlier; addresses freed by the same step (same garbage-collection pass,
				// or free since the block was created) are tied and may be taken in either order
				if ey > ex {
					h.OracleFail("fifo-violated", "an address freed later was reused before one freed earlier",
						map[string]any{"op": op, "taken": y, "taken_entered_at_step": ey, "left": x, "left_entered_at_step": ex})
				}
				// measurement only (DESIGN §5): inside ONE garbage-collection pass the queue is by ordinal, not by ReleasedAt
				if ey == ex && ey > 0 {
					ty, oky := s.lastRelTm[y]
					tx, okx := s.lastRelTm[x]
					if oky && okx && tx < ty {
						h.Count("measure:same-pass-tie-by-ordinal-not-releasedAt")
					}
				}
			}
		}
		want := num
		if want < 0 {
			want = 0
		}
		avail := 0
		for _, x := range before.Unallocated {
			if !rset[x] {
				avail++
			}
		}
		if avail < want {
			want = avail
		}
		if len(ips) != want {
			h.Count("obs:auto-count-differs")
		}
	case "assign":
		o := atoi(w[1])
		err := s.vb.Assign(false, cnet.MustParseIP(ipOf(o)), decH(w[2]), ownerMap(atoi(w[3])), ipam.AffinityConfig{})
		s.toVirtual(now)
		switch err.(type) {
		case nil:
			res = "ok"
		case cerrors.ErrorResourceAlreadyExists:
			res = "err:exists"
		default:
			if strings.Contains(err.Error(), "not in block") {
				res = "err:range"
			} else {
				res = "err:?" + strings.ReplaceAll(err.Error(), " ", "_")
			}
		}
		if err == nil && (o < 0 || o >= s.n || before.Allocations[o] != nil) {
			h.Count("obs:assign-over-allocated") // a cooling address handed out early is reported by cooldown-violated
		}
	case "rel":
		cd := atoi(w[1])
		s.noteCd(cd)
		var opts []ipam.ReleaseOptions
		last := map[int]ipam.ReleaseOptions{}
		var order []int
		for _, t := range w[2:] {
			p := strings.Split(t, "/")
			o := atoi(p[0])
			ro := ipam.ReleaseOptions{Address: ipOf(o), Handle: *decH(p[2])}
			if p[1] != "-" {
				v, _ := strconv.ParseUint(p[1], 10, 64)
				ro.SequenceNumber = &v
			}
			opts = append(opts, ro)
			if _, ok := last[o]; !ok {
				order = append(order, o)
			}
			last[o] = ro
		}
		// what the property says about this request, evaluated on the block before the call
		stale, wrongH, outOfRange := false, false, false
		var staleLive, wrongLive []int // live addresses named with a stale sequence number / a different handle
		allNotLive := true
		for _, o := range order {
			ro := last[o]
			if o < 0 || o >= s.n {
				outOfRange = true
				continue
			}
			lv, a := live(before, o)
			if ro.SequenceNumber != nil && *ro.SequenceNumber != before.GetSequenceNumberForOrdinal(o) {
				stale = true
				if lv {
					staleLive = append(staleLive, o)
				}
			}
			if lv {
				allNotLive = false
				if ro.Handle != "" && handleOf(a) != ro.Handle {
					wrongH = true
					wrongLive = append(wrongLive, o)
				}
			}
		}
		skipped, counts, err := s.vb.Release(&ipam.IPAMConfig{IPCooldownSeconds: cd}, opts)
		s.toVirtual(now)
		if err != nil {
			res = "err"
			if len(order) == 1 {
				res = "err:?" + strings.ReplaceAll(err.Error(), " ", "_")
				if uc, ok := err.(cerrors.ErrorResourceUpdateConflict); ok {
					switch uc.Err.(type) {
					case cerrors.ErrorBadSequenceNumber:
						res = "err:seq"
					case cerrors.ErrorBadHandle:
						res = "err:handle"
					}
				} else if strings.Contains(err.Error(), "not in block") {
					res = "err:range"
				}
			}
			if !sameBlock(before, b) {
				h.Count("obs:release-error-mutated")
			}
		} else {
			var sk []int
			for _, ip := range skipped {
				sk = append(sk, ordOf(ip))
			}
			sort.Ints(sk)
			var ss []string
			for _, o := range sk {
				ss = append(ss, strconv.Itoa(o))
			}
			var hs []string
			for k := range counts {
				hs = append(hs, k)
			}
			sort.Strings(hs)
			var cs []string
			for _, k := range hs {
				cs = append(cs, fmt.Sprintf("%s=%d", encStr(k), counts[k]))
			}
			res = "ok skipped=" + strings.Join(ss, ",") + " counts=" + strings.Join(cs, ",")
		}
		// ORACLE: stale sequence number / different handle never frees
		if stale && !outOfRange {
			h.Count("oracle:stale-seq-request")
			if err == nil || !sameBlock(before, b) {
				h.Count("obs:stale-seq-request-not-refused-wholesale")
			}
			if freed(before, b, staleLive) {
				h.OracleFail("stale-seq-freed", "a release naming a stale sequence number freed the address", map[string]any{"op": op, "before": dump(before), "after": dump(b)})
			}
		}
		if wrongH && !outOfRange {
			h.Count("oracle:wrong-handle-request")
			if err == nil || !sameBlock(before, b) {
				h.Count("obs:wrong-handle-request-not-refused-wholesale")
			}
			if freed(before, b, wrongLive) {
				h.OracleFail("wrong-handle-freed", "a release naming a different handle freed the address", map[string]any{"op": op, "before": dump(before), "after": dump(b)})
			}
		}
		// ORACLE: releasing already released (or never allocated) addresses is a harmless no-op
		if allNotLive && !stale && !outOfRange {
			h.Count("oracle:double-release-request")
			if !sameBlock(before, b) {
				h.Count("obs:double-release-rewrote-block")
			}
			// harmless no-op: no error and no address changes between live and not live
			if err != nil || liveChanged(before, b) {
				h.OracleFail("double-release-not-noop", "releasing only already-released addresses failed or changed the block", map[string]any{"op": op, "before": dump(before), "after": dump(b)})
			}
		}
		// ORACLE: a successful release frees exactly the named live addresses
		if err == nil {
			for o := 0; o < s.n; o++ {
				lb, ab := live(before, o)
				la, aa := live(b, o)
				_, named := last[o]
				if lb && named && la {
					h.Count("obs:release-left-live")
				}
				if lb && !named && (!la || !reflect.DeepEqual(ab, aa)) {
					h.Count("obs:release-freed-unnamed")
				}
			}
		}
	case "relh":
		cd := atoi(w[1])
		s.noteCd(cd)
		ro := ipam.ReleaseOptions{Handle: *decH(w[2])}
		if w[3] != "-" {
			v, _ := strconv.ParseUint(w[3], 10, 64)
			ro.SequenceNumber = &v
		}
		cnt := s.vb.ReleaseByHandle(&ipam.IPAMConfig{IPCooldownSeconds: cd}, ro)
		s.toVirtual(now)
		res = strconv.Itoa(cnt)
		// ORACLE release-by-handle frees exactly that handle's addresses (with a sequence number:
		// exactly those allocated at that sequence number)
		want := 0
		for o := 0; o < s.n; o++ {
			lb, ab := live(before, o)
			if !lb {
				continue
			}
			la, aa := live(b, o)
			match := ab.HandleID != nil && handleOf(ab) == ro.Handle &&
				(ro.SequenceNumber == nil || *ro.SequenceNumber == before.GetSequenceNumberForOrdinal(o))
			if match {
				want++
				if la {
					h.OracleFail("relh-left-live", "release by handle left one of the handle's addresses allocated", map[string]any{"op": op, "ordinal": o})
				}
			} else if !la || handleOf(ab) != handleOf(aa) {
				sig := "relh-freed-other"
				if ab.HandleID != nil && handleOf(ab) == ro.Handle {
					sig = "relh-stale-seq-freed"
				}
				h.OracleFail(sig, "release by handle freed or altered an address of another handle / another sequence number", map[string]any{"op": op, "ordinal": o})
			}
		}
		if cnt != want {
			h.Count("obs:relh-count-differs")
		}
	default:
		panic("unknown op " + op)
	}
	s.track(h, op, before, b)
	// structural sanity of the real block (cheap): Unallocated has no duplicates and only free ordinals
	seen := map[int]bool{}
	for _, u := range b.Unallocated {
		if seen[u] || b.Allocations[u] != nil {
			h.Count("obs:queue-corrupt")
		}
		seen[u] = true
	}
	return res + " | " + dump(b)
}

// ---- generator ----------------------------------------------------------------

var handlePool = []string{"nil", "s:a", "s:b", "s:c", "s:aRx", "s:", "s:Rq", "s:ab"}
var relHandlePool = []string{"s:", "s:a", "s:b", "s:c", "s:aRx", "s:ab", "s:zz"}

type snap struct {
	o   int
	seq uint64
	h   string
}

func genCase(h *rt.H) []string {
	n := rt.Pick(h, []int{1, 2, 4, 4, 8, 8, 16, 16, 64})
	seq0 := uint64(h.Intn(3))
	if h.Chance(0.3) {
		seq0 = uint64(h.Rng.Int63())
	}
	var ops []string
	cds := []int{-1, 0, 0, 1, 2, 5, 30}
	caseCd := rt.Pick(h, cds)
	constant := h.Chance(0.8)
	cd := func() int {
		if constant {
			return caseCd
		}
		return rt.Pick(h, cds)
	}
	discipline := h.Chance(0.6) // client discipline: gc before, bump after every mutating op
	// a shadow of the real block so that the generator can name valid / stale sequence numbers and handles
	sh := &state{}
	emit := func(op string) {
		ops = append(ops, op)
		exec(nullSink{}, sh, op)
	}
	first := fmt.Sprintf("new %d %d", n, seq0)
	if h.Chance(0.15) && n >= 4 {
		first = fmt.Sprintf("newr %d %d %d %d %s %d", n, seq0, h.Intn(3), h.Intn(3), rt.Pick(h, []string{"s:windows-reserved-ipam-handle", "s:Windows-Reserved-IPAM-handle", "s:a"}), 2+h.Intn(3))
	}
	emit(first)
	var snaps []snap // (ordinal, seq, handle) seen at some point: sources of stale requests
	takeSnaps := func() {
		b := sh.vb.Model()
		for o := 0; o < n; o++ {
			if lv, a := live(b, o); lv && h.Chance(0.5) {
				snaps = append(snaps, snap{o, b.GetSequenceNumberForOrdinal(o), handleOf(a)})
			}
		}
		if len(snaps) > 24 {
			snaps = snaps[len(snaps)-24:]
		}
	}
	ord := func() int {
		switch h.Intn(12) {
		case 0:
			return n + h.Intn(3)
		case 1:
			return -1 - h.Intn(3)
		}
		return h.Intn(n)
	}
	nops := 6 + h.Intn(40)
	for i := 0; i < nops; i++ {
		mut := true
		if discipline && h.Chance(0.9) {
			emit(fmt.Sprintf("gc %d", cd()))
		}
		switch k := h.Intn(20); {
		case k < 5:
			rsv := "-"
			if h.Chance(0.25) {
				var r []string
				for j := 0; j < 1+h.Intn(3); j++ {
					r = append(r, strconv.Itoa(h.Intn(n)))
				}
				rsv = strings.Join(r, ",")
			}
			num := rt.Pick(h, []int{1, 1, 1, 2, 3, 0, -1, n, n + 1})
			emit(fmt.Sprintf("auto %d %s %d %s", num, rt.Pick(h, handlePool), h.Intn(4), rsv))
		case k < 7:
			emit(fmt.Sprintf("assign %d %s %d", ord(), rt.Pick(h, handlePool), h.Intn(4)))
		case k < 13:
			// release: 1..3 options; each names an address with (valid | stale | no) seq and (right | wrong | no) handle
			var toks []string
			b := sh.vb.Model()
			for j := 0; j < 1+h.Intn(3)*h.Intn(2); j++ {
				o := ord()
				if j > 0 && h.Chance(0.2) {
					// duplicate address with different options: the LAST one wins
					o, _ = strconv.Atoi(strings.Split(toks[j-1], "/")[0])
				}
				seq, hd := "-", "s:"
				if len(snaps) > 0 && h.Chance(0.35) {
					sn := rt.Pick(h, snaps)
					o = sn.o
					if h.Chance(0.8) {
						seq = strconv.FormatUint(sn.seq, 10)
					}
					if h.Chance(0.7) {
						hd = encStr(sn.h)
					}
				} else if o >= 0 && o < n {
					if h.Chance(0.5) {
						s := b.GetSequenceNumberForOrdinal(o)
						if h.Chance(0.15) {
							s += uint64(1 + h.Intn(2))
						}
						seq = strconv.FormatUint(s, 10)
					}
					if lv, a := live(b, o); lv && h.Chance(0.5) {
						hd = encStr(handleOf(a))
					} else if h.Chance(0.2) {
						hd = rt.Pick(h, relHandlePool)
					}
				}
				toks = append(toks, fmt.Sprintf("%d/%s/%s", o, seq, hd))
			}
			emit(fmt.Sprintf("rel %d %s", cd(), strings.Join(toks, " ")))
		case k < 15:
			seq := "-"
			hd := rt.Pick(h, relHandlePool)
			if len(snaps) > 0 && h.Chance(0.4) {
				sn := rt.Pick(h, snaps)
				hd = encStr(sn.h)
				if h.Chance(0.6) {
					seq = strconv.FormatUint(sn.seq, 10)
				}
			}
			emit(fmt.Sprintf("relh %d %s %s", cd(), hd, seq))
		case k < 18:
			d := rt.Pick(h, []int{0, 1, 1, 2, caseCd, caseCd + 1, 31})
			if d < 0 {
				d = 0
			}
			emit(fmt.Sprintf("tick %d", d))
			mut = false
		case k < 19:
			emit(fmt.Sprintf("gc %d", cd()))
		default:
			if h.Bool() {
				emit("empty")
			} else {
				emit("bump")
			}
			mut = false
		}
		if mut && (discipline || h.Chance(0.5)) {
			emit("bump")
		}
		takeSnaps()
	}
	return ops
}

func main() {
	h := rt.New()
	defer h.Close()
	h.Rule = "case = one block (1..64 addresses, optional reserved ends, small or huge initial sequence number) + 6..45 steps over " +
		"{auto (with reserved ordinals), assign, rel (1-3 options: valid/stale/absent sequence number x right/wrong/absent handle, duplicates, out-of-block), " +
		"relh (with/without sequence number), tick, gc, bump}; cooldown per case from {-1,0,1,2,5,30} (80% constant); 60% of cases follow the client discipline gc/op/bump; " +
		"every 5th case drives the REAL ipamClient (cauto/cassign/crel/crelh/ctick) over the in-memory CAS store verif/harness/ipamkv: each block write is replayed on the model as xload;xgc;x<op>;xbump;xstate; " +
		"distinct = distinct op sequence; non-trivial = the case contains a refused stale/wrong-handle release, a no-op double release, or a re-allocation of a previously released address"
	run := func(ops []string, tag string) {
		h.Case(tag)
		s := &state{}
		nontriv := false
		realloc := false
		for _, op := range ops {
			k := strings.Fields(op)[0]
			if strings.HasPrefix(k, "x") {
				continue // derived lines of a replay file: regenerated by the client op
			}
			if strings.HasPrefix(k, "c") {
				for _, l := range execClient(h, s, op) {
					h.Op(l.op, l.out)
				}
				h.Count("op:" + k)
				nontriv = true
				continue
			}
			out := exec(h, s, op)
			h.Op(op, out)
			h.Count("op:" + k)
			r := strings.Fields(out)[0]
			if strings.HasPrefix(r, "err") {
				h.Count("res:" + k + ":" + r)
				nontriv = true
			}
			if k == "rel" && strings.HasPrefix(out, "ok skipped=") && !strings.HasPrefix(out, "ok skipped= ") {
				h.Count("res:rel:skipped-some")
				nontriv = true
			}
			if k == "auto" || k == "assign" {
				for o, t := range s.releasedAt {
					_ = t
					if lv, _ := live(s.vb.Model(), o); lv {
						realloc = true
					}
				}
			}
		}
		if realloc {
			h.Count("case:reallocation-after-release")
			nontriv = true
		}
		if s.c == nil {
			h.Count(fmt.Sprintf("blocksize:%02d", s.n))
		} else {
			h.Count("case:client-level")
		}
		if nontriv {
			h.Nontrivial(strings.Join(ops, ";"))
		}
		h.Sample()
	}
	if h.Replay != "" {
		run(h.ReplayLines(), "replay")
		return
	}
	for i := 0; i < h.N; i++ {
		if i%5 == 4 {
			run(genClientCase(h), "client")
		} else {
			run(genCase(h), "gen")
		}
	}
}
