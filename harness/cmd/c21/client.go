// C21 through the full client: the REAL ipamClient (AutoAssign / AssignIP / ReleaseIPs /
// ReleaseByHandle) runs single-threaded over the in-memory CAS datastore of verif/harness/ipamkv.
//
// Tie to the proved block-level model ("step admissibility"): after every client call, each stored
// block whose value changed is explained to the Lean driver as
//
//	xload <before>; xgc cd; x<op> ...; xbump; xstate  ==>  model block must equal the stored block
//
// i.e. every block write of the client is `blockFromBackend (gc) ; block operation ; SequenceNumber++`
// of the model. The property's own oracle is evaluated on the store around every client call.
//
// Time: the cooldown is configured as 1000*c real seconds and one virtual second is 1000 real
// seconds (ReleasedAt of stored blocks is rewritten around every call, revisions kept), so the real
// wall-clock comparison is 500 s away from every boundary and equals the model's `rel + c <= now`.
package main

import (
	"context"
	"encoding/json"
	"fmt"
	"sort"
	"strconv"
	"strings"
	"time"

	v3 "github.com/projectcalico/api/pkg/apis/projectcalico/v3"
	metav1 "k8s.io/apimachinery/pkg/apis/meta/v1"

	"github.com/projectcalico/calico/libcalico-go/lib/backend/model"
	"github.com/projectcalico/calico/libcalico-go/lib/ipam"
	cnet "github.com/projectcalico/calico/libcalico-go/lib/net"

	"verif/harness/ipamkv"
	"verif/harness/rt"
)

const cscale = int64(1000)

type cstate struct {
	env  *ipamkv.Env
	cl   ipam.Interface
	cd   int
	vnow int64
	real bool // stored ReleasedAt values are currently in the real-clock frame
	// oracle bookkeeping: "block/ordinal" -> virtual time of last live->not-live transition
	releasedAt map[string]int64
}

type line struct{ op, out string }

func (c *cstate) blocks() map[string]*model.AllocationBlock {
	out := map[string]*model.AllocationBlock{}
	for p, v := range c.env.S.Snapshot() {
		if (model.BlockListOptions{}).KeyFromDefaultPath(p) == nil {
			continue
		}
		b, err := c.env.ParseBlock(v)
		if err == nil {
			out[p] = b
		}
	}
	return out
}

// rewrite every stored ReleasedAt with f (revision kept)
func (c *cstate) rewrite(f func(t time.Time) time.Time) {
	for p, b := range c.blocks() {
		ch := false
		for i := range b.Attributes {
			if t := b.Attributes[i].ReleasedAt; t != nil {
				nt := metav1.NewTime(f(t.Time))
				b.Attributes[i].ReleasedAt = &nt
				ch = true
			}
		}
		if ch {
			nb, _ := json.Marshal(b)
			c.env.S.RawPutKeepRev(p, string(nb))
		}
	}
}

func cdump(b *model.AllocationBlock) string {
	// same canonical dump as the block level, ReleasedAt in virtual seconds
	cp := b.DeepCopy()
	for i := range cp.Attributes {
		if t := cp.Attributes[i].ReleasedAt; t != nil {
			nt := metav1.NewTime(time.Unix(vbase+(t.Unix()-vbase)/cscale, 0))
			cp.Attributes[i].ReleasedAt = &nt
		}
	}
	return dump(cp)
}

func (c *cstate) locate(ipStr string) (string, int) {
	ip := cnet.ParseIP(ipStr)
	if ip == nil {
		return "", -1
	}
	id, o := c.env.Locate(*ip)
	if id < 0 {
		return "", -1
	}
	p, _ := model.KeyToDefaultPath(model.BlockKey{CIDR: model.PrefixFromIPNet(c.env.Blocks[id])})
	return p, o
}

func (c *cstate) addr(blockID, ord int) string {
	ip := c.env.Blocks[blockID].NthIP(ord)
	return ip.String()
}

func handleName(k int) *string {
	if k <= 0 {
		return nil
	}
	s := fmt.Sprintf("hd%d", k)
	return &s
}

// execClient runs one client-level command on the REAL ipamClient.
func execClient(h sink, s *state, op string) []line {
	w := strings.Fields(op)
	atoi := func(x string) int { v, _ := strconv.Atoi(x); return v }
	ctx := context.Background()
	if w[0] == "cnew" {
		bs, cd := atoi(w[1]), atoi(w[2])
		e := &ipamkv.Env{S: ipamkv.NewStore(), Hosts: []string{"h0", "h1"}, Handles: []string{"hd1", "hd2", "hd3"}}
		e.Pools = []v3.IPPool{ipamkv.MkPool("pool0", "10.0.0.0/27", bs)}
		e.Index()
		real := cd
		if cd > 0 {
			real = cd * int(cscale)
		}
		e.Setup(&model.IPAMConfig{StrictAffinity: false, AutoAllocateBlocks: true, MaxBlocksPerHost: 0, IPCooldownSeconds: real}, nil)
		s.c = &cstate{env: e, cd: cd, releasedAt: map[string]int64{}}
		s.c.cl = ipam.NewIPAMClient(ipamkv.Direct{S: e.S}, e, e.Reservations())
		return []line{{op, "client"}}
	}
	c := s.c
	if w[0] == "ctick" {
		c.vnow += int64(atoi(w[1]))
		return []line{{op, "client"}}
	}
	before := c.blocks()
	now := time.Now()
	base := now.Truncate(time.Second)
	c.rewrite(func(t time.Time) time.Time {
		rel := (t.Unix() - vbase) / cscale
		return base.Add(time.Duration((rel-c.vnow)*cscale-500) * time.Second)
	})
	c.real = true
	// what each block is expected to have had applied: path -> block-level op line
	expect := map[string]string{}
	var summary string
	var resLines []line
	switch w[0] {
	case "cauto":
		host, hd, num, owner := w[1], handleName(atoi(w[2])), atoi(w[3]), atoi(w[4])
		v4, _, err := c.cl.AutoAssign(ctx, ipam.AutoAssignArgs{Num4: num, HandleID: hd, Attrs: ownerMap(owner), Hostname: host, IntendedUse: v3.IPPoolAllowedUseWorkload})
		summary = "ok"
		if err != nil {
			summary = "err"
		}
		cnt := map[string]int{}
		if v4 != nil {
			for _, ip := range v4.IPs {
				p, _ := c.locate(ip.IP.String())
				cnt[p]++
			}
		}
		for p, k := range cnt {
			expect[p] = fmt.Sprintf("xauto %d %s %d -", k, encH(hd), owner)
		}
	case "cassign":
		ipStr := c.addr(atoi(w[1]), atoi(w[2]))
		hd, owner, host := handleName(atoi(w[3])), atoi(w[4]), w[5]
		err := c.cl.AssignIP(ctx, ipam.AssignIPArgs{IP: cnet.MustParseIP(ipStr), HandleID: hd, Attrs: ownerMap(owner), Hostname: host})
		summary = "ok"
		if err != nil {
			summary = "err"
		}
		p, o := c.locate(ipStr)
		expect[p] = fmt.Sprintf("xassign %d %s %d", o, encH(hd), owner)
	case "crel":
		var opts []ipam.ReleaseOptions
		per := map[string][]string{}
		type named struct {
			path string
			ord  int
			ro   ipam.ReleaseOptions
		}
		var all []named
		for _, t := range w[1:] {
			f := strings.Split(t, "/") // block:ord / seq / handle-token
			bo := strings.Split(f[0], ":")
			ipStr := c.addr(atoi(bo[0]), atoi(bo[1]))
			ro := ipam.ReleaseOptions{Address: ipStr, Handle: *decH(f[2])}
			if f[1] != "-" {
				v, _ := strconv.ParseUint(f[1], 10, 64)
				ro.SequenceNumber = &v
			}
			opts = append(opts, ro)
			p, o := c.locate(ipStr)
			per[p] = append(per[p], fmt.Sprintf("%d/%s/%s", o, f[1], f[2]))
			all = append(all, named{p, o, ro})
		}
		for p, toks := range per {
			expect[p] = fmt.Sprintf("xrel %d %s", c.cd, strings.Join(toks, " "))
		}
		// the property, evaluated on the stored blocks before the call (last option per address wins)
		lastOf := map[string]named{}
		for _, n := range all {
			lastOf[n.ro.Address] = n
		}
		staleBlocks := map[string]string{}
		allNotLive := true
		for _, n := range lastOf {
			b := before[n.path]
			if b == nil {
				continue
			}
			if lv, a := live(b, n.ord); lv {
				allNotLive = false
				if n.ro.SequenceNumber != nil && *n.ro.SequenceNumber != b.GetSequenceNumberForOrdinal(n.ord) {
					staleBlocks[n.path] = "stale-seq"
				} else if n.ro.Handle != "" && handleOf(a) != n.ro.Handle {
					if _, ok := staleBlocks[n.path]; !ok {
						staleBlocks[n.path] = "wrong-handle"
					}
				}
			} else if n.ro.SequenceNumber != nil && *n.ro.SequenceNumber != 0 {
				allNotLive = false // a sequence number on a non-live address: the code answers with an error, not covered by the no-op clause
			}
		}
		unalloc, released, err := c.cl.ReleaseIPs(ctx, opts...)
		summary = fmt.Sprintf("unalloc=%d released=%d", len(unalloc), len(released))
		// client-visible result of a request that concerns ONE existing block = result of that block's release()
		if len(per) == 1 {
			for p, toks := range per {
				if b := before[p]; b != nil {
					res := "err"
					if err == nil {
						var os []int
						for _, ip := range unalloc {
							_, o := c.locate(ip.String())
							os = append(os, o)
						}
						sort.Ints(os)
						var ss []string
						for _, o := range os {
							ss = append(ss, strconv.Itoa(o))
						}
						res = "ok " + strings.Join(ss, ",")
					}
					resLines = append(resLines,
						line{fmt.Sprintf("xload %d %d %s", len(b.Allocations), c.vnow, cdump(b)), "-"},
						line{fmt.Sprintf("xgc %d", c.cd), "-"},
						line{fmt.Sprintf("xrelres %d %s", c.cd, strings.Join(toks, " ")), res})
				}
			}
		}
		if err != nil {
			summary = "err " + summary
		}
		c.toVirtual(base)
		after := c.blocks()
		for p, why := range staleBlocks {
			h.Count("client-oracle:" + why + "-request")
			if err == nil || before[p] == nil || after[p] == nil || cdump(before[p]) != cdump(after[p]) {
				h.Count("obs:client-" + why + "-request-not-refused-wholesale")
			}
			// exactly the property: the live address named with a stale sequence number / a different handle is not freed
			bad := false
			for _, n := range lastOf {
				if n.path != p || before[p] == nil {
					continue
				}
				lb, ab := live(before[p], n.ord)
				if !lb {
					continue
				}
				staleOpt := n.ro.SequenceNumber != nil && *n.ro.SequenceNumber != before[p].GetSequenceNumberForOrdinal(n.ord)
				wrongOpt := n.ro.Handle != "" && handleOf(ab) != n.ro.Handle
				if !staleOpt && !wrongOpt {
					continue
				}
				la := false
				var aa model.AllocationAttribute
				if after[p] != nil {
					la, aa = live(after[p], n.ord)
				}
				if !la || handleOf(aa) != handleOf(ab) {
					bad = true
				}
			}
			if bad {
				h.OracleFail("client-"+why+"-freed", "ReleaseIPs with a stale sequence number / different handle freed the address",
					map[string]any{"op": op, "block": p})
			}
			delete(expect, p)
		}
		if allNotLive && len(staleBlocks) == 0 {
			h.Count("client-oracle:double-release-request")
			// harmless no-op: no error, every (unique) address reported unallocated, and no address changes
			// between live and not live (the client may still rewrite the block: garbage collection of expired
			// cooldowns and SequenceNumber++ when the request names an address twice)
			same := err == nil
			got := map[string]bool{}
			for _, ip := range unalloc {
				got[ip.String()] = true
			}
			for a := range lastOf {
				if !got[a] {
					same = false // every named address must be reported as (already) unallocated
				}
			}
			for p := range per {
				b, a := before[p], after[p]
				if b == nil {
					continue
				}
				for o := range b.Allocations {
					lb, ab := live(b, o)
					la := false
					var aa model.AllocationAttribute
					if a != nil {
						la, aa = live(a, o)
					}
					if lb != la || (lb && handleOf(ab) != handleOf(aa)) {
						same = false
					}
				}
			}
			if !same {
				h.OracleFail("client-double-release-not-noop", "ReleaseIPs of only already released addresses failed or changed a block", map[string]any{"op": op, "err": fmt.Sprint(err), "unalloc": len(unalloc), "unique": len(lastOf)})
			}
		}
		if err == nil {
			for _, n := range lastOf {
				if b := after[n.path]; b != nil {
					if lv, _ := live(b, n.ord); lv {
						h.Count("obs:client-release-left-live")
					}
				}
			}
		}
	case "crelh":
		hd := handleName(atoi(w[1]))
		err := c.cl.ReleaseByHandle(ctx, *hd)
		summary = "ok"
		if err != nil {
			summary = "err"
		}
		for p := range before {
			expect[p] = fmt.Sprintf("xrelh %d %s -", c.cd, encStr(*hd))
		}
		c.toVirtual(base)
		after := c.blocks()
		// ORACLE: exactly that handle's addresses are freed, in every block
		for p, b := range before {
			for o := range b.Allocations {
				lb, ab := live(b, o)
				if !lb {
					continue
				}
				mine := ab.HandleID != nil && handleOf(ab) == *hd
				a := after[p]
				la := false
				var aa model.AllocationAttribute
				if a != nil {
					la, aa = live(a, o)
				}
				if mine && la {
					h.OracleFail("client-relh-left-live", "ReleaseByHandle left one of the handle's addresses allocated", map[string]any{"op": op, "block": p, "ordinal": o})
				}
				if !mine && (!la || handleOf(aa) != handleOf(ab)) {
					h.OracleFail("client-relh-freed-other", "ReleaseByHandle freed an address of another handle", map[string]any{"op": op, "block": p, "ordinal": o})
				}
			}
		}
	case "crelaff":
		// release the host's block affinities (mustBeEmpty: only of empty blocks). An empty block is deleted, a
		// non-empty one is kept without affinity (read+gc, Affinity = nil, SequenceNumber++).
		err := c.cl.ReleaseHostAffinities(ctx, ipam.AffinityConfig{AffinityType: ipam.AffinityTypeHost, Host: w[1]}, w[2] == "1")
		summary = "ok"
		if err != nil {
			summary = "err"
		}
		for p := range before {
			expect[p] = fmt.Sprintf("xgc %d", c.cd)
		}
	default:
		panic("unknown client op " + op)
	}
	c.toVirtual(base) // idempotent
	c.normaliseNewBlocks(before)
	after := c.blocks()
	out := append([]line{{op, "client"}}, resLines...)
	_ = summary
	h.Count("client-res:" + w[0] + ":" + strings.Fields(summary + " -")[0])
	// explain every changed block to the model; track cooldown
	var paths []string
	for p := range after {
		paths = append(paths, p)
	}
	sort.Strings(paths)
	for _, p := range paths {
		a, b := after[p], before[p]
		for o := range a.Allocations {
			key := fmt.Sprintf("%s/%d", p, o)
			la, _ := live(a, o)
			lb := false
			if b != nil {
				lb, _ = live(b, o)
			}
			if la && !lb {
				if t, ok := c.releasedAt[key]; ok && c.cd >= 0 && !(c.vnow-t >= int64(c.cd)) {
					h.OracleFail("client-cooldown-violated", "an address was handed out by the client before its cooldown passed",
						map[string]any{"op": op, "block": p, "ordinal": o, "released_at": t, "now": c.vnow, "cooldown": c.cd})
				}
				if _, ok := c.releasedAt[key]; ok {
					h.Count("client-case:reallocation-after-release")
				}
			}
			if lb && !la {
				c.releasedAt[key] = c.vnow
			}
		}
		if b == nil {
			h.Count("client-block:created(not explained)")
			continue
		}
		if cdump(a) == cdump(b) {
			continue
		}
		ex, ok := expect[p]
		if !ok {
			// a block changed although the call gave no reason for it: answer differs from the model's on purpose
			out = append(out, line{"xunexplained", "block " + p + " changed by " + w[0]})
			continue
		}
		h.Count("client-block:write-explained-by:" + strings.Fields(ex)[0])
		out = append(out,
			line{fmt.Sprintf("xload %d %d %s", len(b.Allocations), c.vnow, cdump(b)), "-"},
			line{fmt.Sprintf("xgc %d", c.cd), "-"},
			line{ex, "-"},
			line{"xbump", "-"},
			line{"xstate", cdump(a)})
	}
	for p := range before {
		if after[p] == nil {
			h.Count("client-block:deleted(not explained)")
		}
	}
	return out
}

// newBlock seeds SequenceNumber with time.Now().UnixNano(): shift the sequence numbers of every block
// created by this call so that its smallest one is 1000*(block id+1) (differences are kept), which
// makes the generated operation lines reproducible.
func (c *cstate) normaliseNewBlocks(before map[string]*model.AllocationBlock) {
	for p, b := range c.blocks() {
		if before[p] != nil {
			continue
		}
		id := 0
		for i, cidr := range c.env.Blocks {
			if q, _ := model.KeyToDefaultPath(model.BlockKey{CIDR: model.PrefixFromIPNet(cidr)}); q == p {
				id = i
			}
		}
		min := b.SequenceNumber
		for _, v := range b.SequenceNumberForAllocation {
			if v < min {
				min = v
			}
		}
		target := uint64(1000 * (id + 1))
		b.SequenceNumber = b.SequenceNumber - min + target
		for k, v := range b.SequenceNumberForAllocation {
			b.SequenceNumberForAllocation[k] = v - min + target
		}
		nb, _ := json.Marshal(b)
		c.env.S.RawPutKeepRev(p, string(nb))
	}
}

func (c *cstate) toVirtual(base time.Time) {
	if !c.real {
		return
	}
	c.real = false
	c.rewrite(func(t time.Time) time.Time {
		d := int64(t.Sub(base)/time.Second) + 750
		q := d / cscale
		if d < 0 && d%cscale != 0 {
			q--
		}
		return time.Unix(vbase+(c.vnow+q)*cscale, 0)
	})
}

// ---- generator of client-level cases ---------------------------------------------

func genClientCase(h *rt.H) []string {
	bs := rt.Pick(h, []int{30, 30, 29})
	cd := rt.Pick(h, []int{-1, 0, 1, 2, 5})
	sh := &state{}
	var ops []string
	emit := func(op string) {
		ops = append(ops, op)
		execClient(nullSink{}, sh, op)
	}
	emit(fmt.Sprintf("cnew %d %d", bs, cd))
	type snap struct {
		blk, ord int
		seq      uint64
		h        string
	}
	var snaps []snap
	nb := len(sh.c.env.Blocks)
	per := 1 << uint(32-bs)
	takeSnaps := func() {
		for id, cidr := range sh.c.env.Blocks {
			p, _ := model.KeyToDefaultPath(model.BlockKey{CIDR: model.PrefixFromIPNet(cidr)})
			b := sh.c.blocks()[p]
			if b == nil {
				continue
			}
			for o := range b.Allocations {
				if lv, a := live(b, o); lv && h.Chance(0.4) {
					snaps = append(snaps, snap{id, o, b.GetSequenceNumberForOrdinal(o), handleOf(a)})
				} else if !lv && cooling(b, o) && h.Chance(0.5) {
					snaps = append(snaps, snap{id, o, b.GetSequenceNumberForOrdinal(o), ""})
				}
			}
		}
		if len(snaps) > 30 {
			snaps = snaps[len(snaps)-30:]
		}
	}
	n := 8 + h.Intn(30)
	for i := 0; i < n; i++ {
		switch x := h.Intn(20); {
		case x < 6:
			emit(fmt.Sprintf("cauto h%d %d %d %d", h.Intn(2), h.Intn(4), rt.Pick(h, []int{1, 1, 2, 3, per + 1}), rt.Pick(h, []int{0, 2, 3})))
		case x < 8:
			var ex []int
			for id, cidr := range sh.c.env.Blocks {
				p, _ := model.KeyToDefaultPath(model.BlockKey{CIDR: model.PrefixFromIPNet(cidr)})
				if sh.c.blocks()[p] != nil {
					ex = append(ex, id)
				}
			}
			if len(ex) == 0 {
				continue
			}
			emit(fmt.Sprintf("cassign %d %d %d %d h%d", rt.Pick(h, ex), h.Intn(per), h.Intn(4), rt.Pick(h, []int{0, 2}), h.Intn(2)))
		case x < 14:
			var toks []string
			for j := 0; j < 1+h.Intn(3)*h.Intn(2); j++ {
				if len(snaps) > 0 && h.Chance(0.8) {
					sn := rt.Pick(h, snaps)
					seq, hd := "-", "s:"
					if h.Chance(0.7) {
						seq = strconv.FormatUint(sn.seq, 10)
					}
					if h.Chance(0.6) {
						hd = encStr(sn.h)
					} else if h.Chance(0.15) {
						hd = "s:hd9"
					}
					toks = append(toks, fmt.Sprintf("%d:%d/%s/%s", sn.blk, sn.ord, seq, hd))
				} else {
					toks = append(toks, fmt.Sprintf("%d:%d/-/s:", h.Intn(nb), h.Intn(per)))
				}
			}
			emit("crel " + strings.Join(toks, " "))
		case x < 16:
			if h.Chance(0.4) {
				hh := h.Intn(2)
				emit(fmt.Sprintf("crelaff h%d %d", hh, h.Intn(2)))
				if h.Bool() {
					// whoever claims the released CIDRs next must not get an address that is still cooling down
					emit(fmt.Sprintf("cauto h%d %d %d 0", hh, h.Intn(4), rt.Pick(h, []int{1, 2, per + 1})))
				}
			} else {
				emit(fmt.Sprintf("crelh %d", 1+h.Intn(3)))
			}
		case x < 17:
			// an address in cooldown, named with the sequence number stamped at its release, after the cooldown
			// expired and before anybody rewrote the block: the read-side garbage collection must clear it first
			var cs []snap
			for _, sn := range snaps {
				if sn.h == "" {
					cs = append(cs, sn)
				}
			}
			if len(cs) == 0 {
				continue
			}
			sn := cs[len(cs)-1-h.Intn((len(cs)+1)/2)]
			if cd > 0 {
				emit(fmt.Sprintf("ctick %d", cd+h.Intn(2)))
			}
			emit(fmt.Sprintf("crel %d:%d/%d/s:", sn.blk, sn.ord, sn.seq))
		default:
			d := rt.Pick(h, []int{0, 1, 1, 2, cd, cd + 1})
			if d < 0 {
				d = 0
			}
			emit(fmt.Sprintf("ctick %d", d))
		}
		takeSnaps()
	}
	return ops
}
