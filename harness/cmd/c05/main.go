// C05 correspondence harness: the real felix/calc ValidationFilter in front of the real
// ActiveRulesCalculator (profile path), with a recording rule scanner.
//
// Per op the harness prints the rule scanner's view (active profiles: deny stand-in `D` or
// real rules `R:<id>`) and the OnProfileActive/Inactive calls of the op; the Lean model does
// the same from the op line (which carries the validators' verdict as a bit).
//
// Property oracles on the real code, after every op:
//   - view-from-scratch: every profile referenced by a (valid, present) endpoint is active
//     with its real rules if the profile exists and is valid, with the deny stand-in
//     otherwise; unreferenced profiles are inactive;  the stand-in really is deny-only;
//   - invalid = absent: a shadow filter+ARC fed the same history with every invalid value
//     replaced by a deletion has made exactly the same calls;
//   - the filter nils a value iff the validators reject it, and changes nothing else.
package main

import (
	"fmt"
	"reflect"
	"sort"
	"strings"

	"github.com/projectcalico/api/pkg/lib/numorstring"

	"github.com/projectcalico/calico/felix/calc"
	"github.com/projectcalico/calico/felix/config"
	"github.com/projectcalico/calico/felix/proto"
	"github.com/projectcalico/calico/lib/std/uniquelabels"
	"github.com/projectcalico/calico/libcalico-go/lib/backend/api"
	"github.com/projectcalico/calico/libcalico-go/lib/backend/model"
	calinet "github.com/projectcalico/calico/libcalico-go/lib/net"
	v1v "github.com/projectcalico/calico/typha/pkg/validator/v1"

	"verif/harness/rt"
)

// ---- recording rule scanner -------------------------------------------------------

type recorder struct {
	view   map[string]string
	events []string
	all    []string // per op: the sorted calls of that op (call order inside one op follows Go map iteration)
}

func (r *recorder) endOp() {
	r.all = append(r.all, showSorted(r.events))
	r.events = nil
}

func ruleID(r *model.ProfileRules) string {
	if r == &calc.DummyDropRules {
		return "D"
	}
	if len(r.InboundRules) == 0 || len(r.InboundRules[0].DstPorts) == 0 {
		return "R:?"
	}
	return fmt.Sprintf("R:r%d", r.InboundRules[0].DstPorts[0].MinPort-1000)
}

func (r *recorder) OnPolicyActive(model.PolicyKey, *model.Policy) {}
func (r *recorder) OnPolicyInactive(model.PolicyKey)              {}
func (r *recorder) OnProfileActive(k model.ProfileRulesKey, rules *model.ProfileRules) {
	id := ruleID(rules)
	r.view[k.Name] = id
	r.events = append(r.events, "+"+k.Name+"="+id)
}
func (r *recorder) OnProfileInactive(k model.ProfileRulesKey) {
	delete(r.view, k.Name)
	r.events = append(r.events, "-"+k.Name)
}

// ---- pipeline: ValidationFilter -> ARC ---------------------------------------------

type sink struct {
	arc  *calc.ActiveRulesCalculator
	last []api.Update
}

func (s *sink) OnStatusUpdated(st api.SyncStatus) { s.arc.OnStatusUpdate(st) }
func (s *sink) OnUpdates(us []api.Update) {
	s.last = us
	for _, u := range us {
		s.arc.OnUpdate(u)
	}
}

type pipe struct {
	rec  *recorder
	sink *sink
	vf   *calc.ValidationFilter
	seq  *calc.EventSequencer
	dp   map[string]string // what the dataplane holds: profile -> content of the rules it was last sent
}

// protoProfileContent classifies the CONTENT of the rules in an ActiveProfileUpdate: `D` = deny
// everything in both directions (what the stand-in must be), `R:rN` = the harness's real rules rN.
func protoProfileContent(p *proto.Profile) string {
	denyOnly := func(rs []*proto.Rule) bool {
		return len(rs) == 1 && strings.EqualFold(rs[0].Action, "deny") && rs[0].Protocol == nil &&
			len(rs[0].SrcNet) == 0 && len(rs[0].DstNet) == 0 && len(rs[0].SrcPorts) == 0 && len(rs[0].DstPorts) == 0 &&
			len(rs[0].SrcIpSetIds) == 0 && len(rs[0].DstIpSetIds) == 0
	}
	if denyOnly(p.InboundRules) && denyOnly(p.OutboundRules) {
		return "D"
	}
	if len(p.InboundRules) >= 1 && len(p.InboundRules[0].DstPorts) == 1 {
		return fmt.Sprintf("R:r%d", p.InboundRules[0].DstPorts[0].First-1000)
	}
	return "R:?"
}

// newPipe: ValidationFilter -> ARC -> real RuleScanner -> real EventSequencer -> "dataplane" (dp).
// The recorder sits on the ARC's second output (PolicyLookupCache gets exactly the same calls).
func newPipe() *pipe {
	rec := &recorder{view: map[string]string{}}
	arc := calc.NewActiveRulesCalculator()
	p := &pipe{rec: rec, dp: map[string]string{}}
	rs := calc.NewRuleScanner()
	rs.OnIPSetActive = func(*calc.IPSetData) {}
	rs.OnIPSetInactive = func(*calc.IPSetData) {}
	p.seq = calc.NewEventSequencer(nil)
	p.seq.Callback = func(m any) {
		switch m := m.(type) {
		case *proto.ActiveProfileUpdate:
			p.dp[m.Id.Name] = protoProfileContent(m.Profile)
		case *proto.ActiveProfileRemove:
			delete(p.dp, m.Id.Name)
		}
	}
	rs.RulesUpdateCallbacks = p.seq
	arc.RuleScanner = rs
	arc.PolicyLookupCache = rec
	p.sink = &sink{arc: arc}
	p.vf = calc.NewValidationFilter(p.sink, config.New())
	return p
}

type state struct {
	main, shadow *pipe
	eps          map[string][]string // endpoint -> profile ids (valid, present endpoints only)
	profs        map[string]string   // profile -> rules id (valid, present only)
	history      []string
}

func (s *state) reset() {
	s.main, s.shadow = newPipe(), newPipe()
	s.eps, s.profs = map[string][]string{}, map[string]string{}
	s.history = nil
}

func epKey(id string) model.Key {
	if id[0] == 'h' {
		return model.HostEndpointKey{Hostname: "host", EndpointID: id}
	}
	return model.WorkloadEndpointKey{Hostname: "host", OrchestratorID: "k8s", WorkloadID: id, EndpointID: "eth0"}
}

func splitList(s string) []string {
	if s == "-" {
		return nil
	}
	return strings.Split(s, ",")
}

// mkEndpoint builds the real value for an endpoint op.
func mkEndpoint(id string, ids []string, variant string) any {
	if id[0] == 'h' {
		v := &model.HostEndpoint{Name: "eth0", ProfileIDs: ids, Labels: uniquelabels.Make(map[string]string{"a": "x"})}
		switch variant {
		case "ok":
		case "badname":
			v.Name = "bad name/"
		case "badprofile":
			v.ProfileIDs = append(append([]string(nil), ids...), "bad profile!")
		default:
			panic("variant " + variant)
		}
		return v
	}
	v := &model.WorkloadEndpoint{Name: "cali" + id, State: "active", ProfileIDs: ids,
		Labels: uniquelabels.Make(map[string]string{"a": "x"})}
	switch variant {
	case "ok":
	case "noname":
		v.Name = ""
	case "spoof":
		v.AllowSpoofedSourcePrefixes = []calinet.IPNet{calinet.MustParseCIDR("10.0.0.0/8")}
	case "badgw":
		ip := calinet.MustParseIP("fe80::1")
		v.IPv4Gateway = &ip
	default:
		if !schemaInvalidWEP(v, variant) {
			panic("variant " + variant)
		}
		return v
	}
	return v
}

// schemaInvalidWEP applies a variant that fails the v1 SCHEMA validation of a WorkloadEndpoint while
// passing validateWorkloadEndpoint (name present, no spoofed prefixes).
func schemaInvalidWEP(v *model.WorkloadEndpoint, variant string) bool {
	switch variant {
	case "portproto": // named port whose protocol is not tcp/udp/sctp
		v.Ports = []model.EndpointPort{{Name: "http", Protocol: numorstring.ProtocolFromStringV1("icmp"), Port: 80}}
	case "portzero": // named port number 0 (validate:"gt=0")
		v.Ports = []model.EndpointPort{{Name: "http", Protocol: numorstring.ProtocolFromStringV1("tcp"), Port: 0}}
	case "badnat": // NAT entry without an external IP (validate:"ip")
		v.IPv4NAT = []model.IPNAT{{IntIP: calinet.MustParseIP("10.0.0.1")}}
	case "badgw6": // IPv4 address as the IPv6 gateway (validate:"ipv6")
		ip := calinet.MustParseIP("10.0.0.1")
		v.IPv6Gateway = &ip
	default:
		return false
	}
	return true
}

var wepSchemaVariants = []string{"portproto", "portzero", "badnat", "badgw6"}

func mkRules(rid string, variant string) *model.ProfileRules {
	var n int
	fmt.Sscanf(rid, "r%d", &n)
	tcp := numorstring.ProtocolFromStringV1("tcp")
	r := &model.ProfileRules{
		InboundRules:  []model.Rule{{Action: "allow", Protocol: &tcp, DstPorts: []numorstring.Port{numorstring.SinglePort(uint16(1000 + n))}}},
		OutboundRules: []model.Rule{{Action: "allow"}},
	}
	switch variant {
	case "ok":
	case "badsel":
		r.InboundRules[0].SrcSelector = "has("
	case "badicmp":
		t := 255
		r.OutboundRules[0].ICMPType = &t
	case "badipver":
		v := 5
		r.InboundRules = append(r.InboundRules, model.Rule{Action: "deny", IPVersion: &v})
	default:
		panic("variant " + variant)
	}
	return r
}

// validatorsAccept: the trusted validators' verdict, computed without the filter.
func validatorsAccept(v any) bool {
	if err := v1v.Validate(reflect.ValueOf(v).Elem().Interface()); err != nil {
		return false
	}
	if w, ok := v.(*model.WorkloadEndpoint); ok {
		if w.Name == "" || len(w.AllowSpoofedSourcePrefixes) > 0 { // WorkloadSourceSpoofing defaults to Disabled
			return false
		}
	}
	return true
}

func bit(b bool) string {
	if b {
		return "1"
	}
	return "0"
}

func showSorted(l []string) string {
	if len(l) == 0 {
		return "-"
	}
	l = append([]string(nil), l...)
	sort.Strings(l)
	return strings.Join(l, ",")
}

func exec(h *rt.H, s *state, op string) string {
	w := strings.Fields(op)
	if w[0] == "new" {
		s.reset()
		return "ok"
	}
	if s.main == nil {
		s.reset()
	}
	s.history = append(s.history, op)
	switch w[0] {
	case "insync":
		s.main.vf.OnStatusUpdated(api.InSync)
		s.shadow.vf.OnStatusUpdated(api.InSync)
	case "pflush":
		// end of a flush window: the EventSequencer sends the coalesced updates to the dataplane
		s.main.seq.Flush()
		s.shadow.seq.Flush()
		s.main.rec.endOp()
		s.shadow.rec.endOp()
		want := map[string]string{}
		for _, ids := range s.eps {
			for _, p := range ids {
				if rid, ok := s.profs[p]; ok {
					want[p] = "R:" + rid
				} else {
					want[p] = "D"
				}
			}
		}
		if !reflect.DeepEqual(want, s.main.dp) {
			h.OracleFail("dataplane-profile-content-mismatch",
				"after a flush the rules the dataplane holds for a profile are not those the current datastore state requires (real rules if the profile exists and is valid, deny-all otherwise; nothing for unreferenced profiles)",
				map[string]any{"ops": s.history, "want": want, "got": s.main.dp})
		}
		if !reflect.DeepEqual(s.main.dp, s.shadow.dp) {
			h.OracleFail("invalid-not-absent-dataplane", "an invalid value left the dataplane in a different state than a deletion would",
				map[string]any{"ops": s.history, "got": s.main.dp, "with_deletes": s.shadow.dp})
		}
		var v []string
		for p, r := range s.main.dp {
			v = append(v, p+"="+r)
		}
		return "P=" + showSorted(v)
	case "ep", "prof":
		var key model.Key
		var val any
		if w[0] == "ep" {
			key = epKey(w[1])
			if w[2] != "DEL" {
				val = mkEndpoint(w[1], splitList(w[2]), w[4])
			}
		} else {
			key = model.ProfileRulesKey{ProfileKey: model.ProfileKey{Name: w[1]}}
			if w[2] != "DEL" {
				val = mkRules(w[2], w[4])
			}
		}
		valid := true
		if val != nil {
			valid = validatorsAccept(val)
			if bit(valid) != w[3] {
				panic("op line's validity bit disagrees with the validators: " + op)
			}
		}
		// maintain the from-scratch inputs
		present := val != nil && valid
		if w[0] == "ep" {
			delete(s.eps, w[1])
			if present {
				s.eps[w[1]] = splitList(w[2])
			}
		} else {
			delete(s.profs, w[1])
			if present {
				s.profs[w[1]] = w[2]
			}
		}
		in := api.Update{KVPair: model.KVPair{Key: key, Value: val}, UpdateType: api.UpdateTypeKVUpdated}
		s.main.vf.OnUpdates([]api.Update{in})
		// oracle: the filter nils exactly the rejected values and changes nothing else
		out := s.main.sink.last
		if len(out) != 1 || out[0].Key != key || out[0].UpdateType != in.UpdateType ||
			(valid && out[0].Value != val) || (!valid && out[0].Value != nil) {
			h.OracleFail("filter-misbehaves", "ValidationFilter did not pass a valid value unchanged / nil an invalid one",
				map[string]any{"op": op, "valid": valid, "out_nil": len(out) == 1 && out[0].Value == nil})
		}
		// shadow: the same history with invalid values replaced by deletions
		sv := val
		if !valid {
			sv = nil
		}
		s.shadow.vf.OnUpdates([]api.Update{{KVPair: model.KVPair{Key: key, Value: sv}, UpdateType: api.UpdateTypeKVUpdated}})
	default:
		panic("unknown op " + op)
	}
	evs := showSorted(s.main.rec.events)
	s.main.rec.endOp()
	s.shadow.rec.endOp()
	if strings.Join(s.main.rec.all, " ") != strings.Join(s.shadow.rec.all, " ") {
		h.OracleFail("invalid-not-absent", "an invalid value was not treated exactly like a deletion",
			map[string]any{"ops": s.history, "calls": s.main.rec.all, "calls_with_deletes": s.shadow.rec.all})
	}
	// oracle: the view from scratch
	want := map[string]string{}
	for _, ids := range s.eps {
		for _, p := range ids {
			if rid, ok := s.profs[p]; ok {
				want[p] = "R:" + rid
			} else {
				want[p] = "D"
			}
		}
	}
	if !reflect.DeepEqual(want, s.main.rec.view) {
		h.OracleFail("profile-view-mismatch", "active profiles / deny stand-ins differ from what the current datastore state requires",
			map[string]any{"ops": s.history, "want": want, "got": s.main.rec.view})
	}
	d := calc.DummyDropRules
	if len(d.InboundRules) != 1 || len(d.OutboundRules) != 1 || !reflect.DeepEqual(d.InboundRules[0], model.Rule{Action: "deny"}) ||
		!reflect.DeepEqual(d.OutboundRules[0], model.Rule{Action: "deny"}) {
		h.OracleFail("standin-not-deny", "the stand-in for a missing profile is not deny-all", map[string]any{"rules": fmt.Sprintf("%+v", d)})
	}
	var v []string
	for p, r := range s.main.rec.view {
		v = append(v, p+"="+r)
	}
	return fmt.Sprintf("V=%s E=%s", showSorted(v), evs)
}

// ---- generator -----------------------------------------------------------------------

var epIDs = []string{"w1", "w2", "w3", "h1"}
var profIDs = []string{"p1", "p2", "p3", "p4"}

func genIDs(h *rt.H) string {
	pool := append([]string(nil), profIDs...)
	h.Rng.Shuffle(len(pool), func(i, j int) { pool[i], pool[j] = pool[j], pool[i] })
	out := pool[:h.Intn(4)]
	if len(out) > 0 && h.Chance(0.1) {
		out = append(out, out[h.Intn(len(out))]) // duplicate id
	}
	if len(out) == 0 {
		return "-"
	}
	return strings.Join(out, ",")
}

func genOp(h *rt.H) string {
	switch r := h.Intn(100); {
	case r < 40:
		id := rt.Pick(h, epIDs)
		if h.Chance(0.2) {
			return fmt.Sprintf("ep %s DEL 1 -", id)
		}
		variant := "ok"
		if h.Chance(0.25) {
			if id[0] == 'h' {
				variant = rt.Pick(h, []string{"badname", "badprofile"})
			} else {
				variant = rt.Pick(h, append([]string{"noname", "spoof", "badgw"}, wepSchemaVariants...))
			}
		}
		ids := genIDs(h)
		return fmt.Sprintf("ep %s %s %s %s", id, ids, bit(validatorsAccept(mkEndpoint(id, splitList(ids), variant))), variant)
	case r < 97:
		p := rt.Pick(h, profIDs)
		if h.Chance(0.25) {
			return fmt.Sprintf("prof %s DEL 1 -", p)
		}
		variant := "ok"
		if h.Chance(0.3) {
			variant = rt.Pick(h, []string{"badsel", "badicmp", "badipver"})
		}
		rid := fmt.Sprintf("r%d", 1+h.Intn(3))
		return fmt.Sprintf("prof %s %s %s %s", p, rid, bit(validatorsAccept(mkRules(rid, variant))), variant)
	case r < 99:
		return "insync"
	default:
		return "pflush"
	}
}

func genCase(h *rt.H) []string {
	ops := []string{"new"}
	if h.Chance(0.3) {
		// one flush window: profile P active and sent with real (allow) rules; the last endpoint naming
		// it goes away; P is deleted / replaced by an invalid version; another endpoint naming it
		// appears; flush.  The dataplane must end up with the deny stand-in for P.
		p := rt.Pick(h, profIDs)
		e1, e2 := "w1", rt.Pick(h, []string{"w2", "h1"})
		gone := fmt.Sprintf("ep %s DEL 1 -", e1)
		if h.Bool() {
			gone = fmt.Sprintf("ep %s - 1 ok", e1)
		}
		kill := fmt.Sprintf("prof %s DEL 1 -", p)
		if h.Bool() {
			v := rt.Pick(h, []string{"badsel", "badicmp", "badipver"})
			kill = fmt.Sprintf("prof %s r2 %s %s", p, bit(validatorsAccept(mkRules("r2", v))), v)
		}
		ops = append(ops, fmt.Sprintf("prof %s r1 1 ok", p), fmt.Sprintf("ep %s %s 1 ok", e1, p), "pflush",
			gone, kill, fmt.Sprintf("ep %s %s 1 ok", e2, p), "pflush")
	}
	n := 5 + h.Intn(30)
	for i := 0; i < n; i++ {
		if i > 2 && h.Chance(0.06) {
			ops = append(ops, ops[1+h.Intn(len(ops)-1)]) // duplicate / revert to an earlier update
			continue
		}
		ops = append(ops, genOp(h))
		if h.Chance(0.12) {
			ops = append(ops, "pflush")
		}
	}
	ops = append(ops, "pflush")
	return ops
}

func main() {
	h := rt.New()
	defer h.Close()
	h.Rule = "two streams. (1) profile stream: case = fresh ValidationFilter+ARC, 5..34 raw updates over {WEP/HEP with 0..3 (rarely duplicated) profile ids, ProfileRules, deletes, in-sync, replays of earlier updates}; " +
		"25-30% of values are invalid variants classified by the REAL validators (missing name, spoofing not enabled, bad gateway, bad interface/profile name, bad selector, icmp type 255, ip version 5); " +
		"(2) policy/tier stream (every third case): fresh ValidationFilter+dispatcher+ARC(label index)+PolicyResolver/PolicySorter, 5..34 raw tier / policy (25% invalid variants) / endpoint updates, in-sync, flushes, incl. the tier(Pass)+matching policy+tier-deleted scenario; " +
		"distinct = distinct op sequence; non-trivial = (2) a tier was deleted during the case, (1) a referenced profile was missing or invalid at some point (deny stand-in emitted) and later replaced, or an invalid update hit an existing valid object"
	s := &state{}
	run := func(ops []string, tag string) {
		h.Case(tag)
		sawD, sawRAfterD, invalidOverValid := false, false, false
		for _, op := range ops {
			w := strings.Fields(op)
			if len(w) >= 4 && w[3] == "0" {
				h.Count("invalid:" + w[4])
				if w[0] == "ep" {
					if _, ok := s.eps[w[1]]; ok {
						invalidOverValid = true
					}
				} else if _, ok := s.profs[w[1]]; ok {
					invalidOverValid = true
				}
			}
			out := exec(h, s, op)
			h.Op(op, out)
			h.Count("op:" + w[0])
			if len(w) >= 5 && w[3] == "1" && w[2] != "DEL" {
				h.Count("valid:" + w[4])
			}
			if strings.Contains(out, "=D") {
				sawD = true
				h.Count("lines-with-deny-standin")
			}
			if sawD && strings.Contains(out, "E=") && strings.Contains(out[strings.Index(out, "E="):], "=R:") {
				sawRAfterD = true
			}
		}
		if invalidOverValid {
			h.Count("case:invalid-over-valid")
		}
		if (sawD && sawRAfterD) || invalidOverValid {
			h.Nontrivial(strings.Join(ops, ";"))
		}
		h.Sample()
	}
	var ps *pstate
	runPol := func(ops []string, tag string) {
		h.Case(tag)
		ps = nil
		dangling := false
		for _, op := range ops {
			execPol(h, &ps, op)
			if strings.HasPrefix(op, "rtier-del") {
				dangling = true
			}
		}
		h.Count("stream:policy-tier")
		if dangling {
			h.Nontrivial(strings.Join(ops, ";"))
		}
		h.Sample()
	}
	isPol := func(ops []string) bool {
		for _, op := range ops {
			switch strings.Fields(op)[0] {
			case "newp", "rtier", "rtier-del", "rpol", "rpol-del", "rep", "rep-del", "flush", "status", "match", "unmatch":
				return true
			}
		}
		return false
	}
	if h.Replay != "" {
		if ops := h.ReplayLines(); isPol(ops) {
			runPol(ops, "replay")
		} else {
			run(ops, "replay")
		}
		return
	}
	for i := 0; i < h.N; i++ {
		if i%3 == 2 {
			runPol(genPolCase(h), "gen-pol")
		} else {
			run(genCase(h), "gen")
		}
	}
}
