// C05, policy / tier stream: the real ValidationFilter in front of the real dispatcher +
// ActiveRulesCalculator (label index, selectors) + PolicyResolver / PolicySorter, wired as in
// NewCalculationGraph.  The raw updates (with the validators' verdict) and the match / unmatch calls
// the real ARC makes are the op stream of the Lean model (filter + C03 resolver model); `flush`
// prints the emitted endpoint tier data.
//
// Oracle on the real code after every in-sync flush ("a dangling or invalid reference is rendered
// exactly as if the referenced thing had never existed"): a FRESH filter+graph is fed only the
// current valid datastore state and flushed; for every endpoint
//   - a tier the endpoint is told about that does not currently exist as a (valid) tier must carry
//     no order and the empty default action, exactly like in the fresh run
//     (sig dangling-tier-more-open);
//   - no policy that is currently absent / invalid may be listed (sig invalid-policy-still-listed).
//
// Other differences between the two runs are history dependence outside C05's statement (C03/C01);
// they are counted in the statistics, not reported.
package main

import (
	"encoding/hex"
	"fmt"
	"math"
	"sort"
	"strconv"
	"strings"

	v3 "github.com/projectcalico/api/pkg/apis/projectcalico/v3"

	"github.com/projectcalico/calico/felix/calc"
	"github.com/projectcalico/calico/felix/config"
	"github.com/projectcalico/calico/felix/dispatcher"
	"github.com/projectcalico/calico/lib/std/uniquelabels"
	"github.com/projectcalico/calico/libcalico-go/lib/backend/api"
	"github.com/projectcalico/calico/libcalico-go/lib/backend/model"

	"verif/harness/rt"
)

const scale = 100

func tok(s string) string {
	if s == "~" {
		return ""
	}
	return s
}
func untok(s string) string {
	if s == "" {
		return "~"
	}
	return s
}
func csvl(s string) []string {
	if s == "-" {
		return nil
	}
	out := strings.Split(s, ",")
	for i := range out {
		out[i] = tok(out[i])
	}
	return out
}
func uncsv(l []string) string {
	if len(l) == 0 {
		return "-"
	}
	o := make([]string, len(l))
	for i := range l {
		o[i] = untok(l[i])
	}
	return strings.Join(o, ",")
}
func parsePKey(s string) model.PolicyKey {
	p := strings.Split(s, "|")
	return model.PolicyKey{Kind: tok(p[0]), Namespace: tok(p[1]), Name: tok(p[2])}
}
func showPKey(k model.PolicyKey) string {
	return untok(k.Kind) + "|" + untok(k.Namespace) + "|" + untok(k.Name)
}
func parseOrd(s string) *float64 {
	if s == "~" {
		return nil
	}
	n, _ := strconv.ParseInt(s, 10, 64)
	f := float64(n) / scale
	return &f
}
func showOrdF(f float64) string {
	if math.IsInf(f, 1) {
		return "~"
	}
	return strconv.FormatInt(int64(math.Round(f*scale)), 10)
}
func showOrd(p *float64) string {
	if p == nil {
		return "~"
	}
	return showOrdF(*p)
}
func xarg(w []string, pfx string) string {
	for _, t := range w {
		if strings.HasPrefix(t, "x="+pfx+":") {
			return t[len(pfx)+3:]
		}
	}
	return ""
}
func hexs(s string) string { return hex.EncodeToString([]byte(s)) }
func unhex(s string) string {
	b, _ := hex.DecodeString(s)
	return string(b)
}
func encLabels(m map[string]string) string {
	var parts []string
	for k, v := range m {
		parts = append(parts, k+"="+v)
	}
	sort.Strings(parts)
	return hexs(strings.Join(parts, "&"))
}
func decLabels(s string) map[string]string {
	m := map[string]string{}
	d := unhex(s)
	if d == "" {
		return m
	}
	for _, kv := range strings.Split(d, "&") {
		p := strings.SplitN(kv, "=", 2)
		m[p[0]] = p[1]
	}
	return m
}
func pEpKey(s string) model.Key {
	if s[0] == 'w' {
		return model.WorkloadEndpointKey{Hostname: "host", OrchestratorID: "orch", WorkloadID: s[2:], EndpointID: "ep"}
	}
	return model.HostEndpointKey{Hostname: "host", EndpointID: s[2:]}
}
func showPEpKey(k model.Key) string {
	switch k := k.(type) {
	case model.WorkloadEndpointKey:
		return "w:" + k.WorkloadID
	case model.HostEndpointKey:
		return "h:" + k.EndpointID
	}
	return "?"
}

// ---- the real pipeline -----------------------------------------------------------------

type tierOut struct {
	name, order, action string
	pols                []string // policy keys
	text                string
}

type psys struct {
	vf         *calc.ValidationFilter
	all        *dispatcher.Dispatcher
	arc        *calc.ActiveRulesCalculator
	pr         *calc.PolicyResolver
	lines      []string
	flushCalls []string
	lastLine   map[string]string
	lastTiers  map[string][]tierOut
}

type psink struct{ all *dispatcher.Dispatcher }

func (s *psink) OnStatusUpdated(st api.SyncStatus) { s.all.OnStatusUpdated(st) }
func (s *psink) OnUpdates(us []api.Update)         { s.all.OnUpdates(us) }

type nullScanner struct{}

func (nullScanner) OnPolicyActive(model.PolicyKey, *model.Policy)              {}
func (nullScanner) OnPolicyInactive(model.PolicyKey)                           {}
func (nullScanner) OnProfileActive(model.ProfileRulesKey, *model.ProfileRules) {}
func (nullScanner) OnProfileInactive(model.ProfileRulesKey)                    {}

func (s *psys) OnPolicyMatch(p model.PolicyKey, e model.EndpointKey) {
	s.lines = append(s.lines, "match "+showPKey(p)+" "+showPEpKey(e.(model.Key)))
}
func (s *psys) OnPolicyMatchStopped(p model.PolicyKey, e model.EndpointKey) {
	s.lines = append(s.lines, "unmatch "+showPKey(p)+" "+showPEpKey(e.(model.Key)))
}

func flagBits(flags uint8) string {
	s := ""
	for i, c := range "udfie" {
		if flags&(1<<uint(i)) != 0 {
			s += string(c)
		}
	}
	return s
}

func (s *psys) OnEndpointTierUpdate(k model.EndpointKey, ep model.Endpoint, _ []calc.EndpointComputedData, _ *calc.EndpointBGPPeer, tiers []calc.TierInfo) {
	key := showPEpKey(k.(model.Key))
	if ep == nil {
		s.lastLine[key] = key + " nil"
		s.lastTiers[key] = nil
		s.flushCalls = append(s.flushCalls, key+" nil")
		return
	}
	var tag string
	var profs []string
	switch e := ep.(type) {
	case *model.WorkloadEndpoint:
		tag, profs = e.Name, e.ProfileIDs
	case *model.HostEndpoint:
		tag, profs = e.Name, e.ProfileIDs
	}
	var outs []tierOut
	var ts []string
	for _, t := range tiers {
		to := tierOut{name: t.Name, order: showOrd(t.Order), action: string(t.DefaultAction)}
		var ps []string
		for _, kv := range t.OrderedPolicies {
			to.pols = append(to.pols, showPKey(kv.Key))
			ok, order, flags, tier := calc.VerifPolKVMeta(kv)
			if !ok {
				ps = append(ps, showPKey(kv.Key)+":nil")
				continue
			}
			ps = append(ps, showPKey(kv.Key)+":"+showOrdF(order)+":"+flagBits(flags)+":"+untok(tier))
		}
		pl := "-"
		if len(ps) > 0 {
			pl = strings.Join(ps, ";")
		}
		to.text = untok(t.Name) + "=" + showOrd(t.Order) + "=" + untok(string(t.DefaultAction)) + "=" + pl
		ts = append(ts, to.text)
		outs = append(outs, to)
	}
	tl := "-"
	if len(ts) > 0 {
		tl = strings.Join(ts, "+")
	}
	line := key + " " + untok(tag) + " " + uncsv(profs) + " T:" + tl
	s.lastLine[key] = line
	s.lastTiers[key] = outs
	s.flushCalls = append(s.flushCalls, line)
}

func newPsys() *psys {
	s := &psys{lastLine: map[string]string{}, lastTiers: map[string][]tierOut{}}
	s.all = dispatcher.NewDispatcher()
	local := calc.VerifWireLocalDispatcher(s.all, "host")
	s.arc = calc.NewActiveRulesCalculator()
	s.arc.RegisterWith(local, s.all)
	s.arc.RuleScanner = nullScanner{}
	s.pr = calc.NewPolicyResolver()
	s.arc.RegisterPolicyMatchListener(s) // recorder first, exactly what the resolver is told next
	s.arc.RegisterPolicyMatchListener(s.pr)
	s.pr.RegisterWith(s.all, local)
	s.pr.RegisterCallback(s)
	s.vf = calc.NewValidationFilter(&psink{s.all}, config.New())
	return s
}

func (s *psys) send(k model.Key, v any) {
	ut := api.UpdateTypeKVUpdated
	if v == nil {
		ut = api.UpdateTypeKVDeleted
		s.vf.OnUpdates([]api.Update{{KVPair: model.KVPair{Key: k}, UpdateType: ut}})
		return
	}
	s.vf.OnUpdates([]api.Update{{KVPair: model.KVPair{Key: k, Value: v}, UpdateType: ut}})
}

func (s *psys) flush() string {
	s.flushCalls = nil
	s.pr.Flush()
	if !s.pr.InitialSyncCompleted {
		return "skip"
	}
	if len(s.flushCalls) == 0 {
		return "none"
	}
	sort.Strings(s.flushCalls)
	return strings.Join(s.flushCalls, " ; ")
}

// ---- values ------------------------------------------------------------------------------

func mkTier(order, action string) *model.Tier {
	return &model.Tier{Order: parseOrd(order), DefaultAction: v3.Action(tok(action))}
}

func mkPolicy(tier, order, flags, types, sel, variant string) *model.Policy {
	p := &model.Policy{Tier: tok(tier), Order: parseOrd(order), DoNotTrack: strings.Contains(flags, "u"),
		PreDNAT: strings.Contains(flags, "d"), ApplyOnForward: strings.Contains(flags, "f"), Types: csvl(types), Selector: sel}
	switch variant {
	case "ok":
	case "badsel":
		p.Selector = "has("
	case "badhint":
		p.PerformanceHints = []v3.PolicyPerformanceHint{"NoSuchHint"}
	case "badrule":
		t := 255
		p.InboundRules = []model.Rule{{Action: "allow", ICMPType: &t}}
	default:
		panic("policy variant " + variant)
	}
	return p
}

func mkPEndpoint(key, tag, profs string, labels map[string]string, variant string) any {
	if key[0] == 'w' {
		v := &model.WorkloadEndpoint{Name: tok(tag), ProfileIDs: csvl(profs), Labels: uniquelabels.Make(labels)}
		if variant == "noname" {
			v.Name = ""
		} else if variant != "ok" && !schemaInvalidWEP(v, variant) {
			panic("endpoint variant " + variant)
		}
		return v
	}
	v := &model.HostEndpoint{Name: tok(tag), ProfileIDs: csvl(profs), Labels: uniquelabels.Make(labels)}
	if variant == "badname" {
		v.Name = "bad name/"
	}
	return v
}

// ---- datastore state (valid, present) kept for the oracle ----------------------------------

type pstate struct {
	sys     *psys
	tiers   map[string][2]string // name -> order, action
	pols    map[string][]string  // key -> op words (valid ones only)
	eps     map[string][]string  // ep -> op words (valid ones only)
	inSync  bool
	history []string
}

func newPstate() *pstate {
	return &pstate{sys: newPsys(), tiers: map[string][2]string{}, pols: map[string][]string{}, eps: map[string][]string{}}
}

// apply runs one raw op on a pipeline (used for both the system under test and the fresh run).
func applyRaw(sys *psys, w []string) {
	switch w[0] {
	case "rtier":
		sys.send(model.TierKey{Name: w[1]}, mkTier(w[2], w[3]))
	case "rtier-del":
		sys.send(model.TierKey{Name: w[1]}, nil)
	case "rpol":
		sys.send(parsePKey(w[1]), mkPolicy(w[2], w[3], w[4], w[5], unhex(xarg(w, "s")), xarg(w, "v")))
	case "rpol-del":
		sys.send(parsePKey(w[1]), nil)
	case "rep":
		sys.send(pEpKey(w[1]), mkPEndpoint(w[1], w[2], w[3], decLabels(xarg(w, "s")), xarg(w, "v")))
	case "rep-del":
		sys.send(pEpKey(w[1]), nil)
	case "status":
		sys.vf.OnStatusUpdated(api.InSync)
	default:
		panic("unknown op " + strings.Join(w, " "))
	}
}

func validOf(w []string) bool {
	switch w[0] {
	case "rtier":
		return validatorsAccept(mkTier(w[2], w[3]))
	case "rpol":
		return validatorsAccept(mkPolicy(w[2], w[3], w[4], w[5], unhex(xarg(w, "s")), xarg(w, "v")))
	case "rep":
		return validatorsAccept(mkPEndpoint(w[1], w[2], w[3], decLabels(xarg(w, "s")), xarg(w, "v")))
	}
	return true
}

func validTokIdx(w []string) int {
	switch w[0] {
	case "rtier":
		return 4
	case "rpol":
		return 6
	case "rep":
		return 4
	}
	return -1
}

func (st *pstate) oracle(h *rt.H) {
	// the fresh run: only the current valid state, tiers first, then endpoints, then policies
	fresh := newPsys()
	var names []string
	for n := range st.tiers {
		names = append(names, n)
	}
	sort.Strings(names)
	for _, n := range names {
		applyRaw(fresh, []string{"rtier", n, st.tiers[n][0], st.tiers[n][1], "1"})
	}
	for _, m := range []map[string][]string{st.eps, st.pols} {
		var ks []string
		for k := range m {
			ks = append(ks, k)
		}
		sort.Strings(ks)
		for _, k := range ks {
			applyRaw(fresh, m[k])
		}
	}
	applyRaw(fresh, []string{"status", "insync"})
	fresh.flush()
	for ep, line := range st.sys.lastLine {
		if _, ok := st.eps[ep]; !ok && line != ep+" nil" {
			h.OracleFail("invalid-endpoint-still-programmed",
				"an endpoint that is absent / fails validation in the datastore is still told to the dataplane (with its policies)",
				map[string]any{"endpoint": ep, "got": line, "ops": st.history})
		}
	}
	for ep := range st.eps {
		got, want := st.sys.lastLine[ep], fresh.lastLine[ep]
		if got == want {
			continue
		}
		reported := false
		wantTier := map[string]tierOut{}
		for _, t := range fresh.lastTiers[ep] {
			wantTier[t.name] = t
		}
		for _, t := range st.sys.lastTiers[ep] {
			if _, exists := st.tiers[t.name]; !exists {
				if t.order != "~" || t.action != "" || (wantTier[t.name].name == t.name && wantTier[t.name].text != t.text) {
					h.OracleFail("dangling-tier-more-open",
						"an endpoint is told about a tier that does not exist (deleted / never created) with attributes other than those of a never-existing tier",
						map[string]any{"endpoint": ep, "tier": t.name, "got": t.text, "never_existed": wantTier[t.name].text, "ops": st.history})
					reported = true
				}
			}
			for _, p := range t.pols {
				if _, ok := st.pols[p]; !ok {
					h.OracleFail("invalid-policy-still-listed", "an endpoint lists a policy that is absent / invalid in the datastore",
						map[string]any{"endpoint": ep, "policy": p, "got": got, "ops": st.history})
					reported = true
				}
			}
		}
		if !reported {
			h.Count("pol:other-history-dependence")
		}
	}
}

func execPol(h *rt.H, st **pstate, op string) {
	w := strings.Fields(op)
	emit := func(line, out string) {
		h.Op(line, out)
		h.Count("pol-op:" + strings.Fields(line)[0])
	}
	if w[0] == "newp" {
		*st = newPstate()
		emit("newp", "ok")
		return
	}
	if w[0] == "match" || w[0] == "unmatch" {
		return // derived lines, regenerated by the real ARC
	}
	if *st == nil {
		*st = newPstate()
	}
	q := *st
	q.history = append(q.history, op)
	if w[0] == "flush" {
		out := q.sys.flush()
		if out != "skip" {
			q.oracle(h)
		}
		emit("flush", out)
		return
	}
	if i := validTokIdx(w); i >= 0 {
		v := validOf(w)
		if bit(v) != w[i] {
			panic("op line's validity bit disagrees with the validators: " + op)
		}
		if !v {
			h.Count("pol-invalid:" + w[0] + ":" + xarg(w, "v"))
		}
		// maintain the valid datastore state
		switch w[0] {
		case "rtier":
			delete(q.tiers, w[1])
			if v {
				q.tiers[w[1]] = [2]string{w[2], tok(w[3])}
			}
		case "rpol":
			delete(q.pols, w[1])
			if v {
				q.pols[w[1]] = w
			}
		case "rep":
			delete(q.eps, w[1])
			if v {
				q.eps[w[1]] = w
			}
		}
	} else {
		switch w[0] {
		case "rtier-del":
			delete(q.tiers, w[1])
		case "rpol-del":
			delete(q.pols, w[1])
		case "rep-del":
			delete(q.eps, w[1])
		}
	}
	q.sys.lines = nil
	applyRaw(q.sys, w)
	emit(op, "ok")
	for _, l := range q.sys.lines {
		emit(l, "ok")
	}
}

// ---- generator -------------------------------------------------------------------------------

var pTiers = []string{"t1", "t2", "default", "t3"}
var pOrders = []string{"~", "100", "150", "200", "100"}
var pActions = []string{"Deny", "Pass", "~"}
var pPols = []string{"GlobalNetworkPolicy|~|p1", "GlobalNetworkPolicy|~|p2", "NetworkPolicy|ns1|p1", "GlobalNetworkPolicy|~|p3"}
var pSels = []string{"all()", "a == 'x'", "has(b)", "a == 'y' || has(b)", "!has(a)"}
var pEps = []string{"w:1", "w:2", "h:1"}

func genPolOp(h *rt.H) string {
	switch r := h.Intn(100); {
	case r < 22:
		n := rt.Pick(h, pTiers[:3])
		if h.Chance(0.35) {
			return "rtier-del " + n
		}
		return fmt.Sprintf("rtier %s %s %s 1", n, rt.Pick(h, pOrders), rt.Pick(h, pActions))
	case r < 52:
		k := rt.Pick(h, pPols)
		if h.Chance(0.2) {
			return "rpol-del " + k
		}
		variant := "ok"
		if h.Chance(0.25) {
			variant = rt.Pick(h, []string{"badsel", "badhint", "badrule"})
		}
		tier := rt.Pick(h, append(pTiers, "~"))
		flags := rt.Pick(h, []string{"-", "-", "-", "u", "d", "f"})
		types := rt.Pick(h, []string{"-", "-", "ingress", "egress", "Ingress,egress"})
		w := []string{"rpol", k, tier, rt.Pick(h, pOrders), flags, types, "?", "x=s:" + hexs(rt.Pick(h, pSels)), "x=v:" + variant}
		w[6] = bit(validOf(w))
		return strings.Join(w, " ")
	case r < 72:
		e := rt.Pick(h, pEps)
		if h.Chance(0.2) {
			return "rep-del " + e
		}
		labels := map[string]string{}
		if h.Chance(0.6) {
			labels["a"] = rt.Pick(h, []string{"x", "y"})
		}
		if h.Chance(0.4) {
			labels["b"] = "z"
		}
		variant := "ok"
		if h.Chance(0.15) {
			if e[0] == 'w' {
				variant = rt.Pick(h, append([]string{"noname"}, wepSchemaVariants...))
			} else {
				variant = "badname"
			}
		}
		w := []string{"rep", e, "cali" + e[2:], rt.Pick(h, []string{"-", "prof1"}), "?", "x=s:" + encLabels(labels), "x=v:" + variant}
		w[4] = bit(validOf(w))
		return strings.Join(w, " ")
	case r < 78:
		return "status insync"
	default:
		return "flush"
	}
}

func genPolCase(h *rt.H) []string {
	ops := []string{"newp"}
	if h.Chance(0.8) {
		ops = append(ops, "status insync")
	}
	if h.Chance(0.3) {
		// the dangling-tier scenario: tier with default action Pass, a matching policy in it, an
		// endpoint, flush, then the tier goes away while the policy still names it
		t := rt.Pick(h, pTiers[:3])
		ops = append(ops, fmt.Sprintf("rtier %s %s Pass 1", t, rt.Pick(h, pOrders)),
			"rep w:1 cali1 - 1 x=s:"+encLabels(map[string]string{"a": "x"})+" x=v:ok",
			fmt.Sprintf("rpol %s %s %s - - 1 x=s:%s x=v:ok", pPols[0], t, rt.Pick(h, pOrders), hexs("all()")),
			"flush", "rtier-del "+t, "flush")
	}
	n := 5 + h.Intn(30)
	for i := 0; i < n; i++ {
		ops = append(ops, genPolOp(h))
	}
	ops = append(ops, "flush")
	return ops
}
