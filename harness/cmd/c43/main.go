// C43 correspondence harness: drives the REAL calc.L3RouteResolver and the REAL
// vxlan / ipip / no-encap managers (routeManager) with a mock route table.
package main

import (
	"fmt"
	"math/big"
	"net"
	"net/netip"
	"sort"
	"strconv"
	"strings"

	"github.com/onsi/gomega"
	apiv3 "github.com/projectcalico/api/pkg/apis/projectcalico/v3"
	"github.com/vishvananda/netlink"

	"github.com/projectcalico/calico/felix/calc"
	intdataplane "github.com/projectcalico/calico/felix/dataplane/linux"
	"github.com/projectcalico/calico/felix/dataplane/linux/dataplanedefs"
	"github.com/projectcalico/calico/felix/ifacemonitor"
	"github.com/projectcalico/calico/felix/ip"
	"github.com/projectcalico/calico/felix/ipsets"
	"github.com/projectcalico/calico/felix/netlinkshim/mocknetlink"
	"github.com/projectcalico/calico/felix/proto"
	"github.com/projectcalico/calico/felix/routetable"
	"github.com/projectcalico/calico/felix/rules"
	"github.com/projectcalico/calico/felix/vxlanfdb"
	"github.com/projectcalico/calico/libcalico-go/lib/apis/internalapi"
	"github.com/projectcalico/calico/libcalico-go/lib/backend/api"
	"github.com/projectcalico/calico/libcalico-go/lib/backend/encap"
	"github.com/projectcalico/calico/libcalico-go/lib/backend/model"
	cnet "github.com/projectcalico/calico/libcalico-go/lib/net"
	"github.com/projectcalico/calico/libcalico-go/lib/set"

	"verif/harness/rt"
)

// ---- mocks ------------------------------------------------------------------

type rtKey struct {
	class routetable.RouteClass
	iface string
}

type mockRT struct{ cur map[rtKey][]routetable.Target }

func (t *mockRT) SetRoutes(c routetable.RouteClass, iface string, ts []routetable.Target) {
	t.cur[rtKey{c, iface}] = ts
}
func (t *mockRT) RouteRemove(routetable.RouteClass, string, routetable.RouteKey) {}
func (t *mockRT) RouteUpdate(routetable.RouteClass, string, routetable.Target)   {}
func (t *mockRT) Index() int                                                     { return 0 }
func (t *mockRT) QueueResyncIface(string)                                        {}
func (t *mockRT) ReadRoutesFromKernel(string) ([]routetable.Target, error)       { return nil, nil }
func (t *mockRT) OnIfaceStateChanged(string, int, ifacemonitor.State)            {}
func (t *mockRT) QueueResync()                                                   {}
func (t *mockRT) Apply() error                                                   { return nil }

type mockIPSets struct{}

func (mockIPSets) AddOrReplaceIPSet(ipsets.IPSetMetadata, []string) {}
func (mockIPSets) AddMembers(string, []string)                      {}
func (mockIPSets) RemoveMembers(string, []string)                   {}
func (mockIPSets) RemoveIPSet(string)                               {}
func (mockIPSets) GetIPFamily() ipsets.IPFamily                     { return ipsets.IPFamilyV4 }
func (mockIPSets) GetTypeOf(string) (ipsets.IPSetType, error)       { return ipsets.IPSetTypeHashNet, nil }
func (mockIPSets) GetDesiredMembers(string) (set.Set[string], error) {
	return set.New[string](), nil
}
func (mockIPSets) QueueResync()                      {}
func (mockIPSets) ApplyUpdates(ipsets.UpdateListener) {}
func (mockIPSets) ApplyDeletions() bool              { return false }
func (mockIPSets) SetFilter(set.Set[string])         {}

type mockFDB struct{}

func (mockFDB) SetVTEPs([]vxlanfdb.VTEP) {}

// ---- state ------------------------------------------------------------------

type event struct {
	upd *proto.RouteUpdate
	rem string
}

type cb struct{ evs []event }

func (c *cb) OnRouteUpdate(u *proto.RouteUpdate) { c.evs = append(c.evs, event{upd: u}) }
func (c *cb) OnRouteRemove(dst string)           { c.evs = append(c.evs, event{rem: dst}) }

type nodeSpec struct {
	addr, plen, ipip, vxlan, wg uint32
	// IPv6 side; addresses as decimal strings ("0" = none)
	addr6        string
	plen6        int
	vxlan6, wg6 string
}

// ck is a CIDR of either family: address as a decimal string, prefix length.
type ck struct {
	v6 bool
	a  string
	l  int
}

func c4(a uint32, l int) ck { return ck{false, strconv.FormatUint(uint64(a), 10), l} }
func c6(ip string, l int) ck {
	return ck{true, new(big.Int).SetBytes(netip.MustParseAddr(ip).AsSlice()).String(), l}
}
func (k ck) width() int {
	if k.v6 {
		return 128
	}
	return 32
}
func (k ck) big() *big.Int  { b, _ := new(big.Int).SetString(k.a, 10); return b }
func (k ck) u32() uint32    { return uint32(k.big().Uint64()) }
func (k ck) addrTok() string {
	if k.v6 {
		return "v" + k.a
	}
	return k.a
}
func (k ck) tok() string { return fmt.Sprintf("%s/%d", k.addrTok(), k.l) }
func (k ck) ipString() string {
	if k.v6 {
		return dec6(k.a)
	}
	return ipStr(k.u32())
}
func (k ck) prefix() netip.Prefix { return netip.MustParsePrefix(fmt.Sprintf("%s/%d", k.ipString(), k.l)) }
func (k ck) net() cnet.IPNet {
	_, n, err := cnet.ParseCIDR(fmt.Sprintf("%s/%d", k.ipString(), k.l))
	if err != nil {
		panic(err)
	}
	return *n
}
func (k ck) nth(ord int) ck {
	return ck{k.v6, new(big.Int).Add(k.big(), big.NewInt(int64(ord))).String(), k.width()}
}
func (k ck) masked(l int) *big.Int {
	return new(big.Int).Rsh(k.big(), uint(k.width()-l))
}
func ckLess(a, b ck) bool {
	if a.v6 != b.v6 {
		return !a.v6
	}
	if c := a.big().Cmp(b.big()); c != 0 {
		return c < 0
	}
	return a.l < b.l
}
func parseCk(a, l string) ck {
	if strings.HasPrefix(a, "v") {
		return ck{true, a[1:], atoi(l)}
	}
	return ck{false, a, atoi(l)}
}

// dec6 renders a decimal 128-bit number as an IPv6 address string.
func dec6(d string) string {
	b, _ := new(big.Int).SetString(d, 10)
	var buf [16]byte
	b.FillBytes(buf[:])
	return netip.AddrFrom16(buf).String()
}
func dec6OrEmpty(d string) string {
	if d == "0" || d == "" {
		return ""
	}
	return dec6(d)
}

// numOfIP is the decimal number of an IPv4/IPv6 address string ("" = 0).
func numOfIP(s string) string {
	if s == "" {
		return "0"
	}
	a, err := netip.ParseAddr(s)
	if err != nil {
		return "0"
	}
	return new(big.Int).SetBytes(a.AsSlice()).String()
}
type poolSpec struct {
	ipipMode, vxlanMode int
	nat, lb            bool
}
type blockSpec struct {
	aff    int // -1 none
	allocs [][2]int
}

// ground truth: what the datastore (and the manager's other inputs) say now.
type truth struct {
	nodes    map[int]nodeSpec
	pools    map[ck]poolSpec
	blocks   map[ck]blockSpec
	weps     map[[2]int][]uint32
	vteps    map[int][2]uint32
	hostmeta map[int]uint32
	parent   bool
}

func newTruth() *truth {
	return &truth{nodes: map[int]nodeSpec{}, pools: map[ck]poolSpec{}, blocks: map[ck]blockSpec{},
		weps: map[[2]int][]uint32{}, vteps: map[int][2]uint32{}, hostmeta: map[int]uint32{}}
}

type state struct {
	me       int
	pt       int
	eth0     uint32
	res      *calc.L3RouteResolver
	cb       *cb
	mgr      intdataplane.VerifC43Manager
	onParent func(string) bool
	hasParent func() bool
	table    *mockRT
	sent     map[string]*proto.RouteUpdate
	tr       *truth
	newLine  string
	// invalid: the history went through a datastore state that Calico's validation / IPAM rule out
	// (two overlapping IP pools, two overlapping IPAM blocks).  Such cases still exercise the
	// model/code correspondence but the order oracle does not speak about them.
	invalid bool
	// a remote node's VTEP update lost its IPv4 side after an IPv4 VTEP had been sent
	v4VtepDropped bool
}

func overlaps(a, b ck) bool {
	if a.v6 != b.v6 {
		return false
	}
	l := min(a.l, b.l)
	return a.masked(l).Cmp(b.masked(l)) == 0
}

func (s *state) checkValid() {
	for a := range s.tr.pools {
		for b := range s.tr.pools {
			if a != b && overlaps(a, b) {
				s.invalid = true
			}
		}
	}
	for a := range s.tr.blocks {
		for b := range s.tr.blocks {
			if a != b && overlaps(a, b) {
				s.invalid = true
			}
		}
	}
}

func nodeName(n int) string { return fmt.Sprintf("n%02d", n) }
func nodeNum(s string) string {
	if s == "" {
		return "-"
	}
	k, _ := strconv.Atoi(strings.TrimPrefix(s, "n"))
	return strconv.Itoa(k)
}
func ipStr(a uint32) string {
	return fmt.Sprintf("%d.%d.%d.%d", byte(a>>24), byte(a>>16), byte(a>>8), byte(a))
}
func ipOrEmpty(a uint32) string {
	if a == 0 {
		return ""
	}
	return ipStr(a)
}
func ipNum(s string) uint32 {
	if s == "" {
		return 0
	}
	p := net.ParseIP(s).To4()
	if p == nil {
		return 0
	}
	return uint32(p[0])<<24 | uint32(p[1])<<16 | uint32(p[2])<<8 | uint32(p[3])
}
func addrNum(a ip.Addr) uint32 {
	if a == nil {
		return 0
	}
	return ipNum(a.String())
}
func cidrNum(s string) string {
	parts := strings.Split(s, "/")
	if strings.Contains(parts[0], ":") {
		return fmt.Sprintf("v%s/%s", numOfIP(parts[0]), parts[1])
	}
	return fmt.Sprintf("%d/%s", ipNum(parts[0]), parts[1])
}
func mustNet(a uint32, l int) cnet.IPNet {
	_, n, err := cnet.ParseCIDR(fmt.Sprintf("%s/%d", ipStr(a), l))
	if err != nil {
		panic(err)
	}
	return *n
}
func mustPrefix(a uint32, l int) netip.Prefix {
	return netip.MustParsePrefix(fmt.Sprintf("%s/%d", ipStr(a), l))
}
func b01(b bool) string {
	if b {
		return "1"
	}
	return "0"
}

func (s *state) newCase(me, pt int, eth0 uint32) {
	s.me, s.pt, s.eth0 = me, pt, eth0
	s.cb = &cb{}
	s.res = calc.NewL3RouteResolver(nodeName(me), s.cb, "CalicoIPAM")
	s.res.OnAlive = func() {}
	s.table = &mockRT{cur: map[rtKey][]routetable.Target{}}
	s.sent = map[string]*proto.RouteUpdate{}
	s.tr = newTruth()
	dp := mocknetlink.New()
	nl, err := dp.NewMockNetlink()
	if err != nil {
		panic(err)
	}
	dp.ImmediateLinkUp = true
	eth := dp.AddIface(2, "eth0", true, true)
	if eth0 != 0 {
		a := net.ParseIP(ipStr(eth0)).To4()
		if err := dp.AddrAdd(eth, &netlink.Addr{IPNet: &net.IPNet{IP: a, Mask: net.CIDRMask(24, 32)}}); err != nil {
			panic(err)
		}
	}
	cfg := intdataplane.Config{
		MaxIPSetSize:             1024,
		Hostname:                 nodeName(me),
		RulesConfig:              rules.Config{VXLANVNI: 4096, VXLANPort: 4789, IPIPTunnelAddress: net.ParseIP("192.168.255.1")},
		ProgramIPIPClusterRoutes: true,
		DeviceRouteProtocol:      dataplanedefs.DefaultRouteProto,
		IPIPMTU:                  1440,
	}
	switch pt {
	case 2:
		s.mgr, s.onParent, s.hasParent = intdataplane.VerifC43NewVXLAN(mockIPSets{}, s.table, mockFDB{}, "vxlan.calico", 1410, cfg, nl)
	case 3:
		s.mgr, s.onParent, s.hasParent = intdataplane.VerifC43NewIPIP(s.table, "tunl0", 1440, cfg, nl)
	default:
		s.mgr, s.onParent, s.hasParent = intdataplane.VerifC43NewNoEncap(s.table, cfg, nl)
	}
}

func showUpdate(u *proto.RouteUpdate) string {
	t := "-"
	if u.TunnelType != nil {
		t = b01(u.TunnelType.Ipip) + b01(u.TunnelType.Vxlan) + b01(u.TunnelType.Wireguard)
	}
	return fmt.Sprintf("U:%s:%d:%d:%s:%s:%s%s%s%s:%s", cidrNum(u.Dst), int(u.Types), int(u.IpPoolType), nodeNum(u.DstNodeName),
		numOfIP(u.DstNodeIp), b01(u.SameSubnet), b01(u.NatOutgoing), b01(u.LocalWorkload), b01(u.Borrowed), t)
}

func cidrKey(s string) ck {
	parts := strings.Split(s, "/")
	l, _ := strconv.Atoi(parts[1])
	return ck{strings.Contains(parts[0], ":"), numOfIP(parts[0]), l}
}

// cidrLess: IPv4 before IPv6, then by address, then by length (the model driver's order).
func cidrLess(a, b string) bool { return ckLess(cidrKey(a), cidrKey(b)) }

// drain collects the events of the last flush (both families), sorted by destination, forwards
// them to the manager (an IPv4 manager: it skips the IPv6 ones itself), and returns the canonical line.
func (s *state) drain() string {
	var evs []event
	for _, e := range s.cb.evs {
		d := e.rem
		if e.upd != nil {
			d = e.upd.Dst
		}
		_ = d
		evs = append(evs, e)
	}
	s.cb.evs = nil
	dst := func(e event) string {
		if e.upd != nil {
			return e.upd.Dst
		}
		return e.rem
	}
	sort.SliceStable(evs, func(i, j int) bool { return cidrLess(dst(evs[i]), dst(evs[j])) })
	var out []string
	for _, e := range evs {
		if e.upd != nil {
			s.sent[e.upd.Dst] = e.upd
			s.mgr.OnUpdate(e.upd)
			out = append(out, showUpdate(e.upd))
		} else {
			delete(s.sent, e.rem)
			s.mgr.OnUpdate(&proto.RouteRemove{Dst: e.rem})
			out = append(out, "R:"+cidrNum(e.rem))
		}
	}
	if len(out) == 0 {
		return "-"
	}
	return strings.Join(out, ";")
}

var ttName = map[routetable.TargetType]string{
	routetable.TargetTypeNoEncap: "ne", routetable.TargetTypeVXLAN: "vx", routetable.TargetTypeOnLink: "ol",
	"": "di", routetable.TargetTypeBlackhole: "bh",
}

var ifaceID = map[string]int{"": 0, "eth0": 1, "vxlan.calico": 2, "tunl0": 2, routetable.InterfaceNone: 3}

type tgt struct {
	cidr string
	typ  string
	gw   uint32
}

func (s *state) tableRows() map[[2]int][]tgt {
	rows := map[[2]int][]tgt{}
	for k, ts := range s.table.cur {
		id, ok := ifaceID[k.iface]
		if !ok {
			id = 99
		}
		var out []tgt
		for _, t := range ts {
			n, ok := ttName[t.Type]
			if !ok {
				n = "?" + string(t.Type)
			}
			out = append(out, tgt{t.CIDR.String(), n, addrNum(t.GW)})
		}
		sort.Slice(out, func(i, j int) bool { return cidrLess(out[i].cidr, out[j].cidr) })
		rows[[2]int{int(k.class), id}] = out
	}
	return rows
}

func (s *state) showTable() string {
	rows := s.tableRows()
	var keys [][2]int
	for k := range rows {
		keys = append(keys, k)
	}
	sort.Slice(keys, func(i, j int) bool {
		if keys[i][0] != keys[j][0] {
			return keys[i][0] < keys[j][0]
		}
		return keys[i][1] < keys[j][1]
	})
	if len(keys) == 0 {
		return "-"
	}
	var out []string
	for _, k := range keys {
		var ts []string
		for _, t := range rows[k] {
			ts = append(ts, fmt.Sprintf("%s|%s|%d", cidrNum(t.cidr), t.typ, t.gw))
		}
		out = append(out, fmt.Sprintf("%d/%d=[%s]", k[0], k[1], strings.Join(ts, ",")))
	}
	return strings.Join(out, ";")
}

func (s *state) showSent() string {
	var ks []string
	for k := range s.sent {
		ks = append(ks, k)
	}
	sort.Slice(ks, func(i, j int) bool { return cidrLess(ks[i], ks[j]) })
	if len(ks) == 0 {
		return "-"
	}
	var out []string
	for _, k := range ks {
		out = append(out, showUpdate(s.sent[k]))
	}
	return strings.Join(out, ";")
}

func atoi(s string) int       { k, _ := strconv.Atoi(s); return k }
func atou(s string) uint32    { k, _ := strconv.ParseUint(s, 10, 64); return uint32(k) }
func maskOf(a uint32, l int) uint32 {
	if l == 0 {
		return 0
	}
	return a &^ (uint32(1)<<(32-uint(l)) - 1)
}

func modeOf(k int) encap.Mode {
	switch k {
	case 1:
		return encap.Always
	case 2:
		return encap.CrossSubnet
	}
	return encap.Never
}

// apply runs one protocol op on the REAL code and returns the canonical output.
func apply(s *state, op string) string {
	w := strings.Fields(op)
	switch w[0] {
	case "new":
		s.newCase(atoi(w[1]), atoi(w[2]), atou(w[3]))
		s.newLine = op
		return "ok"
	case "node":
		n := atoi(w[1])
		sp := nodeSpec{addr: atou(w[2]), plen: atou(w[3]), ipip: atou(w[4]), vxlan: atou(w[5]), wg: atou(w[6]),
			addr6: w[7], plen6: atoi(w[8]), vxlan6: w[9], wg6: w[10]}
		node := &internalapi.Node{}
		node.Name = nodeName(n)
		bgp := &internalapi.NodeBGPSpec{}
		if sp.addr != 0 {
			bgp.IPv4Address = fmt.Sprintf("%s/%d", ipStr(sp.addr), sp.plen)
		}
		if sp.addr6 != "0" {
			bgp.IPv6Address = fmt.Sprintf("%s/%d", dec6(sp.addr6), sp.plen6)
		}
		bgp.IPv4IPIPTunnelAddr = ipOrEmpty(sp.ipip)
		node.Spec.BGP = bgp
		node.Spec.IPv4VXLANTunnelAddr = ipOrEmpty(sp.vxlan)
		node.Spec.IPv6VXLANTunnelAddr = dec6OrEmpty(sp.vxlan6)
		if sp.wg != 0 || sp.wg6 != "0" {
			node.Spec.Wireguard = &internalapi.NodeWireguardSpec{InterfaceIPv4Address: ipOrEmpty(sp.wg), InterfaceIPv6Address: dec6OrEmpty(sp.wg6)}
		}
		if sp.addr == 0 && sp.addr6 == "0" {
			delete(s.tr.nodes, n) // a Node without any address is no node for the resolver
		} else {
			s.tr.nodes[n] = sp
		}
		s.res.OnResourceUpdate(api.Update{KVPair: model.KVPair{
			Key: model.ResourceKey{Kind: internalapi.KindNode, Name: nodeName(n)}, Value: node}})
		return s.drain()
	case "nodedel":
		n := atoi(w[1])
		delete(s.tr.nodes, n)
		s.res.OnResourceUpdate(api.Update{KVPair: model.KVPair{
			Key: model.ResourceKey{Kind: internalapi.KindNode, Name: nodeName(n)}}})
		return s.drain()
	case "pool":
		k := parseCk(w[1], w[2])
		sp := poolSpec{atoi(w[3]), atoi(w[4]), w[5] == "1", w[6] == "1"}
		p := &model.IPPool{CIDR: k.net(), IPIPMode: modeOf(sp.ipipMode), VXLANMode: modeOf(sp.vxlanMode), Masquerade: sp.nat, IPAM: true}
		if sp.lb {
			p.AllowedUses = []apiv3.IPPoolAllowedUse{apiv3.IPPoolAllowedUseLoadBalancer}
		}
		s.tr.pools[k] = sp
		s.checkValid()
		s.res.OnPoolUpdate(api.Update{KVPair: model.KVPair{Key: model.IPPoolKey{CIDR: k.prefix()}, Value: p}})
		return s.drain()
	case "pooldel":
		k := parseCk(w[1], w[2])
		delete(s.tr.pools, k)
		s.res.OnPoolUpdate(api.Update{KVPair: model.KVPair{Key: model.IPPoolKey{CIDR: k.prefix()}}})
		return s.drain()
	case "block":
		k := parseCk(w[1], w[2])
		b := &model.AllocationBlock{CIDR: k.net()}
		sp := blockSpec{aff: -1}
		if w[3] != "-" {
			sp.aff = atoi(w[3])
			aff := "host:" + nodeName(sp.aff)
			b.Affinity = &aff
		}
		if k.width()-k.l > 12 {
			panic("block too large for the harness: " + op)
		}
		size := 1 << uint(k.width()-k.l)
		b.Allocations = make([]*int, size)
		if w[4] != "-" {
			for _, p := range strings.Split(w[4], ",") {
				oh := strings.Split(p, ":")
				ord := atoi(oh[0])
				attrs := map[string]string{}
				host := -1
				if oh[1] != "-" {
					host = atoi(oh[1])
					attrs[model.IPAMBlockAttributeNode] = nodeName(host)
				}
				sp.allocs = append(sp.allocs, [2]int{ord, host})
				if ord >= size {
					continue
				}
				idx := len(b.Attributes)
				b.Attributes = append(b.Attributes, model.AllocationAttribute{ActiveOwnerAttrs: attrs})
				b.Allocations[ord] = &idx
			}
		}
		s.tr.blocks[k] = sp
		s.checkValid()
		s.res.OnBlockUpdate(api.Update{KVPair: model.KVPair{Key: model.BlockKey{CIDR: k.prefix()}, Value: b}})
		return s.drain()
	case "blockdel":
		k := parseCk(w[1], w[2])
		delete(s.tr.blocks, k)
		s.res.OnBlockUpdate(api.Update{KVPair: model.KVPair{Key: model.BlockKey{CIDR: k.prefix()}}})
		return s.drain()
	case "wep":
		host, id := atoi(w[1]), atoi(w[2])
		key := model.WorkloadEndpointKey{Hostname: nodeName(host), OrchestratorID: "k8s", WorkloadID: fmt.Sprintf("w%d", id), EndpointID: "eth0"}
		if w[3] == "-" {
			delete(s.tr.weps, [2]int{host, id})
			s.res.OnWorkloadUpdate(api.Update{KVPair: model.KVPair{Key: key}})
			return s.drain()
		}
		wep := &model.WorkloadEndpoint{}
		var ips []uint32
		for _, p := range strings.Split(w[3], ",") {
			a := atou(p)
			ips = append(ips, a)
			wep.IPv4Nets = append(wep.IPv4Nets, mustNet(a, 32))
		}
		s.tr.weps[[2]int{host, id}] = ips
		s.res.OnWorkloadUpdate(api.Update{KVPair: model.KVPair{Key: key, Value: wep}})
		return s.drain()
	case "vtep":
		n := atoi(w[1])
		if atou(w[2]) != 0 {
			s.tr.vteps[n] = [2]uint32{atou(w[2]), atou(w[3])}
		} else {
			// the node's VTEP no longer has an IPv4 tunnel address (calc's VXLANResolver sends such an
			// update when only the IPv6 side remains; the EventSequencer coalesces the preceding
			// remove away): the datastore-derived truth is "no IPv4 VTEP for this node"
			if _, had := s.tr.vteps[n]; had && s.pt == 2 && n != s.me {
				s.v4VtepDropped = true
			}
			delete(s.tr.vteps, n)
		}
		msg := &proto.VXLANTunnelEndpointUpdate{Node: nodeName(n), Mac: "66:00:00:00:00:01", Ipv4Addr: ipOrEmpty(atou(w[2])), ParentDeviceIp: ipOrEmpty(atou(w[3]))}
		if msg.Ipv4Addr == "" {
			msg.Ipv6Addr = "fd00::1"
			msg.MacV6 = "66:00:00:00:00:02"
		}
		s.mgr.OnUpdate(msg)
		return "ok"
	case "vtepdel":
		delete(s.tr.vteps, atoi(w[1]))
		s.mgr.OnUpdate(&proto.VXLANTunnelEndpointRemove{Node: nodeName(atoi(w[1]))})
		return "ok"
	case "hostmeta":
		s.tr.hostmeta[atoi(w[1])] = atou(w[2])
		s.mgr.OnUpdate(&proto.HostMetadataUpdate{Hostname: nodeName(atoi(w[1])), Ipv4Addr: ipOrEmpty(atou(w[2]))})
		return "ok"
	case "hostmetadel":
		delete(s.tr.hostmeta, atoi(w[1]))
		s.mgr.OnUpdate(&proto.HostMetadataRemove{Hostname: nodeName(atoi(w[1]))})
		return "ok"
	case "parent":
		s.tr.parent = true
		s.onParent("eth0")
		return "ok"
	case "apply":
		if err := s.mgr.CompleteDeferredWork(); err != nil {
			return "err"
		}
		// the parent device, once detected through (mock) netlink, is retained by the manager:
		// it is part of the manager's inputs, not of the datastore state
		s.tr.parent = s.hasParent()
		return s.showTable()
	case "sent":
		return s.showSent()
	}
	panic("unknown op " + op)
}

// ---- the property's own oracle, evaluated on the real code --------------------

func sortedInts[M ~map[int]V, V any](m M) []int {
	var ks []int
	for k := range m {
		ks = append(ks, k)
	}
	sort.Ints(ks)
	return ks
}

func sortedCidrs[V any](m map[ck]V) []ck {
	var ks []ck
	for k := range m {
		ks = append(ks, k)
	}
	sort.Slice(ks, func(i, j int) bool { return ckLess(ks[i], ks[j]) })
	return ks
}

// canonicalOps re-creates the CURRENT datastore state (and the manager's other inputs) from
// scratch, in a fixed order (rev=false) or the opposite order (rev=true).
func (s *state) canonicalOps(rev bool) []string {
	t := s.tr
	var groups [][]string
	var g []string
	for _, n := range sortedInts(t.nodes) {
		sp := t.nodes[n]
		g = append(g, fmt.Sprintf("node %d %d %d %d %d %d %s %d %s %s", n, sp.addr, sp.plen, sp.ipip, sp.vxlan, sp.wg, sp.addr6, sp.plen6, sp.vxlan6, sp.wg6))
	}
	groups = append(groups, g)
	g = nil
	for _, k := range sortedCidrs(t.pools) {
		sp := t.pools[k]
		g = append(g, fmt.Sprintf("pool %s %d %d %d %s %s", k.addrTok(), k.l, sp.ipipMode, sp.vxlanMode, b01(sp.nat), b01(sp.lb)))
	}
	groups = append(groups, g)
	g = nil
	for _, k := range sortedCidrs(t.blocks) {
		sp := t.blocks[k]
		aff := "-"
		if sp.aff >= 0 {
			aff = strconv.Itoa(sp.aff)
		}
		var al []string
		for _, a := range sp.allocs {
			h := "-"
			if a[1] >= 0 {
				h = strconv.Itoa(a[1])
			}
			al = append(al, fmt.Sprintf("%d:%s", a[0], h))
		}
		as := "-"
		if len(al) > 0 {
			as = strings.Join(al, ",")
		}
		g = append(g, fmt.Sprintf("block %s %d %s %s", k.addrTok(), k.l, aff, as))
	}
	groups = append(groups, g)
	g = nil
	var wk [][2]int
	for k := range t.weps {
		wk = append(wk, k)
	}
	sort.Slice(wk, func(i, j int) bool {
		if wk[i][0] != wk[j][0] {
			return wk[i][0] < wk[j][0]
		}
		return wk[i][1] < wk[j][1]
	})
	for _, k := range wk {
		var ips []string
		for _, a := range t.weps[k] {
			ips = append(ips, strconv.FormatUint(uint64(a), 10))
		}
		g = append(g, fmt.Sprintf("wep %d %d %s", k[0], k[1], strings.Join(ips, ",")))
	}
	groups = append(groups, g)
	g = nil
	for _, n := range sortedInts(t.vteps) {
		g = append(g, fmt.Sprintf("vtep %d %d %d", n, t.vteps[n][0], t.vteps[n][1]))
	}
	for _, n := range sortedInts(t.hostmeta) {
		g = append(g, fmt.Sprintf("hostmeta %d %d", n, t.hostmeta[n]))
	}
	if t.parent {
		g = append(g, "parent")
	}
	groups = append(groups, g)
	var ops []string
	if rev {
		for i := len(groups) - 1; i >= 0; i-- {
			for j := len(groups[i]) - 1; j >= 0; j-- {
				ops = append(ops, groups[i][j])
			}
		}
	} else {
		for _, g := range groups {
			ops = append(ops, g...)
		}
	}
	return ops
}

// kinds reduces a route table dump to what the property speaks about: per destination, the kind
// of route programmed (class/device, target type, gateway).
func (s *state) kinds() map[string]string {
	out := map[string]string{}
	for k, ts := range s.tableRows() {
		for _, t := range ts {
			out[cidrNum(t.cidr)] += fmt.Sprintf("[%d/%d %s %d]", k[0], k[1], t.typ, t.gw)
		}
	}
	return out
}

// oracleOrder: arrival_order_independent — a fresh resolver + manager fed only the final state
// (in two different orders) must program the same kind of route for every destination as the
// instance that lived through the history.
func oracleOrder(h *rt.H, s *state, ops []string) {
	if s.res == nil || s.invalid {
		return
	}
	apply(s, "apply")
	got := s.kinds()
	gotSent := s.sentByTok()
	for _, rev := range []bool{false, true} {
		f := &state{}
		apply(f, s.newLine)
		for _, op := range s.canonicalOps(rev) {
			apply(f, op)
		}
		apply(f, "apply")
		want := f.kinds()
		wantSent := f.sentByTok()
		// the RouteUpdate the dataplane holds for a property destination (either family) must be the
		// one a fresh resolver computes from the final state: it is what decides the route kind
		// (pool type, owner, owner address, same-subnet flag, route types)
		var rdiffs []string
		for _, d := range s.propertyDsts() {
			if gotSent[d] != wantSent[d] {
				rdiffs = append(rdiffs, fmt.Sprintf("%s: history=%q fresh=%q", d, gotSent[d], wantSent[d]))
			}
		}
		if len(rdiffs) > 0 {
			sort.Strings(rdiffs)
			sig := "order-dep-route"
			if s.localV4Flapped(ops) {
				sig = "order-dep-local-v4cidr-zero"
			}
			h.OracleFail(sig, "emitted route after the history differs from a fresh resolver fed the final state: "+strings.Join(rdiffs, "; "),
				map[string]any{"ops": ops, "fresh_order_reversed": rev, "fresh_ops": s.canonicalOps(rev)})
			return
		}
		var diffs []string
		// the property speaks about: blocks with an owner (remote: direct/tunnel route, local:
		// blackhole) and borrowed addresses recorded in a block for a remote owner.
		for _, d := range s.propertyDsts() {
			if got[d] != want[d] {
				diffs = append(diffs, fmt.Sprintf("%s: history=%q fresh=%q", d, got[d], want[d]))
			}
		}
		if len(diffs) > 0 {
			sort.Strings(diffs)
			sig := "order-dep"
			if s.localV4Flapped(ops) {
				sig = "order-dep-local-v4cidr-zero"
			} else if s.v4VtepDropped {
				sig = "order-dep-stale-v4-vtep"
			}
			h.OracleFail(sig, "route kind after the history differs from a fresh instance fed the final state: "+strings.Join(diffs, "; "),
				map[string]any{"ops": ops, "fresh_order_reversed": rev, "fresh_ops": s.canonicalOps(rev)})
			return
		}
	}
}

// sentByTok: destination token -> canonical text of the RouteUpdate the dataplane last received.
func (s *state) sentByTok() map[string]string {
	out := map[string]string{}
	for d, u := range s.sent {
		out[cidrNum(d)] = showUpdate(u)
	}
	return out
}

func (s *state) propertyDsts() []string {
	var out []string
	for _, bk := range sortedCidrs(s.tr.blocks) {
		b := s.tr.blocks[bk]
		if b.aff >= 0 {
			out = append(out, bk.tok())
		}
		size := 1 << (bk.width() - bk.l)
		for _, a := range b.allocs {
			if a[1] >= 0 && a[1] != b.aff && a[1] != s.me && a[0] < size && bk.l != bk.width() {
				out = append(out, bk.nth(a[0]).tok())
			}
		}
	}
	return out
}

// localV4Flapped: the history contains a state in which the LOCAL node exists without an IPv4
// address/CIDR (v6-only) — the precondition of the stale-SameSubnet defect repaired by repo commit 7bc5b47 (kept as a separate signature so that a regression is named).
func (s *state) localV4Flapped(ops []string) bool {
	for _, op := range ops {
		w := strings.Fields(op)
		if w[0] == "node" && atoi(w[1]) == s.me && atou(w[2]) == 0 && w[7] != "0" {
			return true
		}
	}
	return false
}

// oracleKinds: route_kind_correct + blackhole_never_covers_local_wep, evaluated against the
// ground-truth datastore state, only where the property speaks (all needed information known,
// exactly one pool covering the block).
func oracleKinds(h *rt.H, s *state, ops []string) {
	if s.res == nil {
		return
	}
	t := s.tr
	rows := s.tableRows()
	byDst := map[string][]string{}
	for k, ts := range rows {
		for _, x := range ts {
			byDst[cidrNum(x.cidr)] = append(byDst[cidrNum(x.cidr)], fmt.Sprintf("%d/%d|%s|%d", k[0], k[1], x.typ, x.gw))
			if x.typ == "bh" {
				// blackhole never for a /32, hence never for a local workload's own address
				if strings.HasSuffix(x.cidr, "/32") {
					h.OracleFail("blackhole-exact", "blackhole route for a /32", map[string]any{"ops": ops, "dst": x.cidr})
				}
			}
		}
	}
	me, meKnown := t.nodes[s.me]
	classDirect := map[int]int{1: 7, 2: 3, 3: 5}[s.pt]
	classTunnel := map[int]int{1: 7, 2: 4, 3: 6}[s.pt]
	for _, bk := range sortedCidrs(t.blocks) {
		b := t.blocks[bk]
		if bk.v6 || b.aff < 0 || b.aff == s.me || bk.l == 32 {
			continue // the managers of the harness are IPv4 managers
		}
		// exactly one pool covers the block, no other block overlaps it, nothing else lives at its CIDR
		var pools []poolSpec
		for pk, p := range t.pools {
			if !pk.v6 && pk.l <= bk.l && overlaps(pk, bk) {
				pools = append(pools, p)
			}
		}
		overlap := false
		for ok := range t.blocks {
			if ok != bk && overlaps(ok, bk) {
				overlap = true
			}
		}
		if len(pools) != 1 || overlap || pools[0].lb {
			continue
		}
		p := pools[0]
		ptype := 1
		if p.vxlanMode != 0 {
			ptype = 2
		} else if p.ipipMode != 0 {
			ptype = 3
		}
		if ptype != s.pt {
			continue
		}
		owner, ok := t.nodes[b.aff]
		if !ok || owner.addr == 0 || !meKnown || me.addr == 0 || !t.parent {
			continue
		}
		cross := p.ipipMode == 2 || p.vxlanMode == 2
		same := maskOf(owner.addr, int(me.plen)) == maskOf(me.addr, int(me.plen))
		wantDirect := s.pt == 1 || (cross && same)
		dst := bk.tok()
		got := byDst[dst]
		direct := fmt.Sprintf("%d/1|ne|%d", classDirect, owner.addr)
		hasDirect, hasTunnel := false, false
		for _, g := range got {
			if g == direct {
				hasDirect = true
			}
			if strings.HasPrefix(g, fmt.Sprintf("%d/2|", classTunnel)) {
				hasTunnel = true
			}
		}
		if wantDirect && (!hasDirect || hasTunnel) {
			h.OracleFail("kind-direct-missing", "remote block should be routed directly via the owning node", map[string]any{"ops": ops, "dst": dst, "got": got})
		}
		if !wantDirect && hasDirect {
			h.OracleFail("kind-direct-unexpected", "encapsulated pool's remote block is routed directly", map[string]any{"ops": ops, "dst": dst, "got": got})
		}
		if !wantDirect && !hasTunnel {
			tunnelInfo := false
			if s.pt == 2 {
				_, tunnelInfo = t.vteps[b.aff]
				if tunnelInfo && t.vteps[b.aff][0] == 0 {
					tunnelInfo = false
				}
			} else if s.pt == 3 {
				_, tunnelInfo = t.hostmeta[b.aff]
				if tunnelInfo && t.hostmeta[b.aff] == 0 {
					tunnelInfo = false
				}
			}
			if tunnelInfo {
				h.OracleFail("kind-tunnel-missing", "remote block of an encapsulated pool has no tunnel route", map[string]any{"ops": ops, "dst": dst, "got": got})
			}
		}
	}
	// every RouteUpdate the dataplane holds for a REMOTE node's workload destination of the manager's pool
	// type (remote blocks and single addresses, including an address of a LOCAL block that a remote node
	// borrowed: Types = LOCAL_WORKLOAD|REMOTE_WORKLOAD) must be programmed, with the kind the pool mode and
	// the update's same-subnet flag demand, as soon as the manager has what the route needs (parent device
	// and node IP for a direct route; the node's VTEP / host address for a tunnel route)
	var dsts []string
	for d := range s.sent {
		dsts = append(dsts, d)
	}
	sort.Slice(dsts, func(i, j int) bool { return cidrLess(dsts[i], dsts[j]) })
	for _, d := range dsts {
		u := s.sent[d]
		if strings.Contains(u.Dst, ":") || int(u.IpPoolType) != s.pt ||
			u.Types&proto.RouteType_REMOTE_WORKLOAD == 0 || u.Types&proto.RouteType_REMOTE_TUNNEL != 0 ||
			u.DstNodeName == "" || u.DstNodeName == nodeName(s.me) {
			continue
		}
		owner := atoi(nodeNum(u.DstNodeName))
		borrowedLocal := u.Types&proto.RouteType_LOCAL_WORKLOAD != 0
		got := byDst[cidrNum(u.Dst)]
		hasDirect, hasTunnel := false, false
		for _, g := range got {
			if u.DstNodeIp != "" && g == fmt.Sprintf("%d/1|ne|%d", classDirect, ipNum(u.DstNodeIp)) {
				hasDirect = true
			}
			if strings.HasPrefix(g, fmt.Sprintf("%d/2|", classTunnel)) && s.pt != 1 {
				hasTunnel = true
			}
		}
		info := map[string]any{"ops": ops, "dst": u.Dst, "update": showUpdate(u), "got": got, "manager": s.pt}
		switch {
		case s.hasParent() && (s.pt == 1 || u.SameSubnet) && u.DstNodeIp != "":
			if !hasDirect {
				sig := "remote-route-missing"
				if borrowedLocal {
					sig = "borrowed-address-route-missing"
				}
				h.OracleFail(sig, fmt.Sprintf("the dataplane holds a RouteUpdate for %s on remote node %s (no-encap / same-subnet: direct via %s) but no such route is programmed after apply", u.Dst, u.DstNodeName, u.DstNodeIp), info)
			} else if borrowedLocal {
				h.Count("obs:borrowed-from-local-block-routed:direct")
			}
		case s.pt != 1:
			tunnelInfo := false
			if s.pt == 2 {
				v, ok := t.vteps[owner]
				tunnelInfo = ok && v[0] != 0
			} else {
				tunnelInfo = t.hostmeta[owner] != 0
			}
			if !tunnelInfo {
				h.Count("obs:remote-route-awaits-tunnel-info")
			} else if !hasTunnel {
				sig := "remote-route-missing"
				if borrowedLocal {
					sig = "borrowed-address-route-missing"
				}
				h.OracleFail(sig, fmt.Sprintf("the dataplane holds a RouteUpdate for %s on remote node %s (encapsulated pool, tunnel endpoint known) but no tunnel route is programmed after apply", u.Dst, u.DstNodeName), info)
			} else if borrowedLocal {
				h.Count("obs:borrowed-from-local-block-routed:tunnel")
			}
		}
	}
	// the positive half: a block of the LOCAL node (not a single address) inside exactly one pool of the
	// manager's type has a blackhole route
	for _, bk := range sortedCidrs(t.blocks) {
		b := t.blocks[bk]
		if bk.v6 || b.aff != s.me || bk.l == 32 {
			continue
		}
		var pools []poolSpec
		for pk, p := range t.pools {
			if !pk.v6 && pk.l <= bk.l && overlaps(pk, bk) {
				pools = append(pools, p)
			}
		}
		overlap := false
		for ok := range t.blocks {
			if ok != bk && overlaps(ok, bk) {
				overlap = true
			}
		}
		if len(pools) != 1 || overlap || pools[0].lb {
			continue
		}
		ptype := 1
		if pools[0].vxlanMode != 0 {
			ptype = 2
		} else if pools[0].ipipMode != 0 {
			ptype = 3
		}
		if ptype != s.pt {
			continue
		}
		found := false
		for _, g := range byDst[bk.tok()] {
			if strings.Contains(g, "|bh|") {
				found = true
			}
		}
		if !found {
			h.OracleFail("blackhole-missing", "local block without a blackhole route", map[string]any{"ops": ops, "dst": bk.tok(), "got": byDst[bk.tok()]})
		} else {
			h.Count("obs:local-block-blackholed")
		}
	}
	// no blackhole has the destination of a local workload's own /32
	for k, ips := range t.weps {
		if k[0] != s.me {
			continue
		}
		for _, a := range ips {
			for _, g := range byDst[fmt.Sprintf("%d/32", a)] {
				if strings.Contains(g, "|bh|") {
					h.OracleFail("blackhole-covers-wep", "blackhole route on a local workload's address", map[string]any{"ops": ops, "ip": a})
				}
			}
		}
	}
}

// ---- generator ----------------------------------------------------------------

func ip4(a, b, c, d int) uint32 { return uint32(a)<<24 | uint32(b)<<16 | uint32(c)<<8 | uint32(d) }

type gen struct {
	messy bool // overlapping pools / blocks allowed (invalid datastore states; correspondence only)
	h     *rt.H
	me    int
	pt    int
	nodes int
}

func (g *gen) nodeAddr(n int) (uint32, int) {
	h := g.h
	// two /24 subnets in one /16; occasionally a /16 or another subnet altogether
	sub := n % 2
	if h.Chance(0.2) {
		sub = h.Intn(3)
	}
	l := 24
	if h.Chance(0.15) {
		l = rt.Pick(h, []int{16, 25, 32, 8})
	}
	return ip4(10, 0, sub, 10+n), l
}

// valid plans: pairwise non-overlapping pools / blocks (what Calico's validation and IPAM guarantee)
var validPools = [][2]uint32{{ip4(192, 168, 0, 0), 24}, {ip4(192, 168, 1, 0), 24}, {ip4(192, 168, 2, 0), 26}, {ip4(172, 16, 0, 0), 12}, {ip4(10, 0, 0, 0), 8}}
var validBlocks = [][2]uint32{{ip4(192, 168, 0, 0), 26}, {ip4(192, 168, 0, 64), 26}, {ip4(192, 168, 1, 0), 26},
	{ip4(192, 168, 1, 64), 26}, {ip4(192, 168, 2, 0), 30}, {ip4(192, 168, 2, 5), 32}, {ip4(172, 16, 5, 0), 28}}

var poolCidrs = [][2]uint32{{ip4(192, 168, 0, 0), 16}, {ip4(192, 168, 0, 0), 16}, {ip4(192, 168, 1, 0), 24},
	{ip4(192, 168, 0, 0), 24}, {ip4(10, 0, 0, 0), 8}, {ip4(192, 168, 2, 0), 26}, {ip4(172, 16, 0, 0), 12}, {ip4(192, 168, 0, 0), 17}}

var blockCidrs = [][2]uint32{{ip4(192, 168, 0, 0), 26}, {ip4(192, 168, 0, 64), 26}, {ip4(192, 168, 1, 0), 26},
	{ip4(192, 168, 1, 64), 26}, {ip4(192, 168, 2, 0), 30}, {ip4(192, 168, 2, 5), 32}, {ip4(192, 168, 0, 3), 32},
	{ip4(172, 16, 5, 0), 28}, {ip4(192, 168, 0, 0), 28}}

// IPv6 plans: node addresses in fd00:a:<sub>::/64, a VXLAN pool fd00:100::/48 with /122 blocks
var validPools6 = []ck{c6("fd00:100::", 48), c6("fd00:101::", 64)}
var validBlocks6 = []ck{c6("fd00:100::", 122), c6("fd00:100::40", 122), c6("fd00:101::", 126), c6("fd00:100::80", 128)}
var poolCidrs6 = []ck{c6("fd00:100::", 48), c6("fd00:100::", 64), c6("fd00:101::", 64), c6("fd00::", 16)}
var blockCidrs6 = []ck{c6("fd00:100::", 122), c6("fd00:100::40", 122), c6("fd00:101::", 126), c6("fd00:100::80", 128), c6("fd00:100::", 124)}

// nodeAddr6: "0" (no IPv6) or an address in one of two /64s (occasionally another prefix length).
func (g *gen) nodeAddr6(n int) (string, int) {
	h := g.h
	if h.Chance(0.35) {
		return "0", 0
	}
	sub := n % 2
	if h.Chance(0.2) {
		sub = h.Intn(3)
	}
	l := 64
	if h.Chance(0.15) {
		l = rt.Pick(h, []int{48, 96, 128, 16})
	}
	return c6(fmt.Sprintf("fd00:a:%x::%x", sub, 16+n), 128).a, l
}

func (g *gen) tunnelAddr6(n int) string {
	h := g.h
	if h.Chance(0.5) {
		return "0"
	}
	b := rt.Pick(h, blockCidrs6)
	size := 1 << (128 - b.l)
	return b.nth(h.Intn(min(size, 4))).a
}

func (g *gen) someNode() int {
	if g.h.Chance(0.3) {
		return g.me
	}
	return g.h.Intn(g.nodes)
}

func (g *gen) tunnelAddr(n int) uint32 {
	h := g.h
	if h.Chance(0.35) {
		return 0
	}
	b := rt.Pick(h, blockCidrs)
	size := 1 << (32 - b[1])
	return b[0] + uint32(h.Intn(min(size, 4)))
}

func (g *gen) nodeOp() string {
	h := g.h
	n := g.someNode()
	if h.Chance(0.12) {
		return fmt.Sprintf("nodedel %d", n)
	}
	a, l := g.nodeAddr(n)
	a6, l6 := g.nodeAddr6(n)
	if h.Chance(0.08) {
		a, l = 0, 0 // v6-only node
		if a6 == "0" {
			a6, l6 = c6(fmt.Sprintf("fd00:a:%x::%x", n%2, 16+n), 128).a, 64
		}
	}
	var ipip, vx, wg uint32
	if g.pt == 3 || h.Chance(0.2) {
		ipip = g.tunnelAddr(n)
	}
	if g.pt == 2 || h.Chance(0.2) {
		vx = g.tunnelAddr(n)
	}
	if h.Chance(0.1) {
		wg = g.tunnelAddr(n)
	}
	vx6, wg6 := "0", "0"
	if a6 != "0" && h.Chance(0.4) {
		vx6 = g.tunnelAddr6(n)
	}
	if a6 != "0" && h.Chance(0.1) {
		wg6 = g.tunnelAddr6(n)
	}
	return fmt.Sprintf("node %d %d %d %d %d %d %s %d %s %s", n, a, l, ipip, vx, wg, a6, l6, vx6, wg6)
}

func (g *gen) poolOp() string {
	h := g.h
	c4k := rt.Pick(h, validPools)
	if g.messy {
		c4k = rt.Pick(h, poolCidrs)
	}
	c := c4(c4k[0], int(c4k[1]))
	v6 := h.Chance(0.3)
	if v6 {
		c = rt.Pick(h, validPools6)
		if g.messy {
			c = rt.Pick(h, poolCidrs6)
		}
	}
	if h.Chance(0.15) {
		return fmt.Sprintf("pooldel %s %d", c.addrTok(), c.l)
	}
	im, vm := 0, 0
	mode := rt.Pick(h, []int{1, 2, 2})
	switch {
	case h.Chance(0.6):
		if g.pt == 2 {
			vm = mode
		} else if g.pt == 3 {
			im = mode
		}
	default:
		switch h.Intn(4) {
		case 0:
			im = mode
		case 1:
			vm = mode
		case 2:
			im, vm = mode, rt.Pick(h, []int{1, 2})
		}
	}
	if v6 && h.Chance(0.8) {
		im, vm = 0, mode // IPv6 pools are VXLAN (or unencapsulated) pools
	}
	return fmt.Sprintf("pool %s %d %d %d %s %s", c.addrTok(), c.l, im, vm, b01(h.Chance(0.3)), b01(h.Chance(0.07)))
}

func (g *gen) blockOp() string {
	h := g.h
	c4k := rt.Pick(h, validBlocks)
	if g.messy {
		c4k = rt.Pick(h, blockCidrs)
	}
	c := c4(c4k[0], int(c4k[1]))
	if h.Chance(0.3) {
		c = rt.Pick(h, validBlocks6)
		if g.messy {
			c = rt.Pick(h, blockCidrs6)
		}
	}
	if h.Chance(0.15) {
		return fmt.Sprintf("blockdel %s %d", c.addrTok(), c.l)
	}
	aff := "-"
	if h.Chance(0.88) {
		aff = strconv.Itoa(g.someNode())
	}
	size := 1 << (c.width() - c.l)
	var al []string
	used := map[int]bool{}
	for i := 0; i < h.Intn(4); i++ {
		ord := h.Intn(min(size, 5))
		if used[ord] {
			continue
		}
		used[ord] = true
		host := "-"
		if h.Chance(0.9) {
			host = strconv.Itoa(g.someNode())
		}
		al = append(al, fmt.Sprintf("%d:%s", ord, host))
	}
	if len(al) == 0 && aff != "-" && h.Chance(0.4) {
		// a block with exactly one address handed to (usually) another node: a borrowed address
		al = append(al, fmt.Sprintf("%d:%d", h.Intn(min(size, 5)), g.someNode()))
	}
	as := "-"
	if len(al) > 0 {
		as = strings.Join(al, ",")
	}
	return fmt.Sprintf("block %s %d %s %s", c.addrTok(), c.l, aff, as)
}

func (g *gen) wepOp() string {
	h := g.h
	host := g.me
	if h.Chance(0.15) {
		host = h.Intn(g.nodes)
	}
	id := h.Intn(3)
	if h.Chance(0.2) {
		return fmt.Sprintf("wep %d %d -", host, id)
	}
	var ips []string
	for i := 0; i < 1+h.Intn(2); i++ {
		b := rt.Pick(h, blockCidrs)
		size := 1 << (32 - b[1])
		ips = append(ips, strconv.FormatUint(uint64(b[0]+uint32(h.Intn(min(size, 5)))), 10))
	}
	return fmt.Sprintf("wep %d %d %s", host, id, strings.Join(ips, ","))
}

func (g *gen) mgrOp(eth0 uint32) string {
	h := g.h
	n := g.someNode()
	a, _ := g.nodeAddr(n)
	if n == g.me && h.Chance(0.8) {
		a = eth0
	}
	switch h.Intn(10) {
	case 0:
		return "parent"
	case 1:
		return fmt.Sprintf("vtepdel %d", n)
	case 2:
		return fmt.Sprintf("hostmetadel %d", n)
	case 3, 4, 5:
		t := g.tunnelAddr(n)
		if h.Chance(0.5) {
			t = ip4(192, 168, 0, n)
		}
		return fmt.Sprintf("vtep %d %d %d", n, t, a)
	default:
		if h.Chance(0.1) {
			a = 0
		}
		return fmt.Sprintf("hostmeta %d %d", n, a)
	}
}

func genCase(h *rt.H) []string {
	g := &gen{h: h, nodes: 2 + h.Intn(3)}
	g.me = h.Intn(g.nodes)
	g.pt = 1 + h.Intn(3)
	g.messy = h.Chance(0.15)
	eth0, _ := g.nodeAddr(g.me)
	if h.Chance(0.1) {
		eth0 = ip4(10, 9, 9, 9)
	}
	ops := []string{fmt.Sprintf("new %d %d %d", g.me, g.pt, eth0)}
	n := 6 + h.Intn(30)
	if h.Tier == "thorough" {
		n += h.Intn(30)
	}
	for i := 0; i < n; i++ {
		switch k := h.Intn(20); {
		case k < 5:
			ops = append(ops, g.nodeOp())
		case k < 8:
			ops = append(ops, g.poolOp())
		case k < 13:
			ops = append(ops, g.blockOp())
		case k < 15:
			ops = append(ops, g.wepOp())
		case k < 18:
			ops = append(ops, g.mgrOp(eth0))
		default:
			ops = append(ops, "apply")
		}
	}
	ops = append(ops, "apply", "sent")
	return ops
}

func main() {
	gomega.RegisterFailHandler(func(msg string, _ ...int) { panic("gomega: " + msg) })
	h := rt.New()
	defer h.Close()
	h.Rule = "case = one resolver (local node me) + one manager (no-encap|vxlan|ipip) and 6..65 ops over " +
		"{node,nodedel,pool,pooldel,block,blockdel,wep,vtep,vtepdel,hostmeta,hostmetadel,parent,apply,sent} drawn from small " +
		"colliding dual-stack address plans (2 IPv4 + 2 IPv6 host subnets, 8+4 pool CIDRs, 9+5 block CIDRs incl. /32, /30, /122, /128, tunnel IPs inside blocks; single-stack, dual-stack and v6-only nodes); " +
		"non-trivial = the final route table holds at least one direct or tunnel route and the case saw a same-subnet route"
	run := func(ops []string, tag string) {
		h.Case(tag)
		s := &state{}
		sawSS := false
		for _, op := range ops {
			w := strings.Fields(op)[0]
			if s.res == nil && w != "new" {
				// replays/shrinks may have lost the `new` line
				h.Op(op, "bad-state")
				continue
			}
			out := apply(s, op)
			h.Op(op, out)
			h.Count("op:" + w)
			if w == "apply" {
				oracleKinds(h, s, ops)
				if strings.Contains(out, "|ne|") {
					h.Count("table:direct")
					sawSS = true
				}
				if strings.Contains(out, "|vx|") || strings.Contains(out, "|ol|") {
					h.Count("table:tunnel")
				}
				if strings.Contains(out, "|di|") {
					h.Count("table:direct-tunnel-ep")
				}
				if strings.Contains(out, "|bh|") {
					h.Count("table:blackhole")
				}
			}
			if strings.HasPrefix(out, "U:") || strings.HasPrefix(out, "R:") {
				for _, e := range strings.Split(out, ";") {
					f := strings.Split(e, ":")
					if f[0] == "R" {
						h.Count("ev:remove")
						continue
					}
					h.Count("ev:update")
					if f[6][0] == '1' {
						h.Count("ev:sameSubnet")
					}
					if f[6][3] == '1' {
						h.Count("ev:borrowed")
					}
					if f[7] != "-" {
						h.Count("ev:tunnel")
					}
				}
			}
		}
		if s.res != nil {
			h.Count(fmt.Sprintf("mgr:%d", s.pt))
			oracleOrder(h, s, ops)
			if sawSS && len(s.table.cur) > 0 {
				h.Nontrivial(strings.Join(ops, ";"))
			}
		}
		h.Sample()
	}
	if h.Replay != "" {
		run(h.ReplayLines(), "replay")
		return
	}
	for i := 0; i < h.N; i++ {
		run(genCase(h), "gen")
	}
}
