package main

import (
	"fmt"

	windataplane "github.com/projectcalico/calico/felix/dataplane/windows"
)

func try(a, b string) {
	defer func() {
		if r := recover(); r != nil {
			fmt.Printf("combinePorts(%q,%q) PANIC: %v\n", a, b, r)
		}
	}()
	s, err := windataplane.VerifCombinePorts(a, b)
	fmt.Printf("combinePorts(%q,%q) = %q %v\n", a, b, s, err)
}

func main() {
	try("80", "443")
	try("80-90", "100-110")
	try("80-90", "85-100")
	try("80", "80")
	try("1-62", "62")
	try("60000-65535", "1-65535")
	try("65535", "65535")
	try("63", "63")
	try("1-63", "1-63")
	try("1-127", "100-127")
	try("1-10,20-30", "5-25")
	try("0-5", "0-3")
}
