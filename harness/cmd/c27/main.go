// C27 correspondence harness: drives the real felix/config.Config (New, UpdateFrom,
// UpdateFromConfigUpdate, Params) and evaluates the property's own oracle on the real code.
//
// Go map iteration order is the one input the harness cannot put into an op line.  resolve() sorts
// each source's keys, so the result must not depend on it; the oracle checks that on the real code by
// re-running with shuffled map insertion and, for keys of one source that differ only in case, by
// watching the real code's own log ("Parsing value for …") until each variant has been seen last.
package main

import (
	"crypto/sha256"
	"encoding/hex"
	"fmt"
	"math/rand"
	"net"
	"reflect"
	"regexp"
	"sort"
	"strconv"
	"strings"

	"github.com/sirupsen/logrus"

	"github.com/projectcalico/calico/felix/config"
	"github.com/projectcalico/calico/felix/proto"

	"verif/harness/rt"
)

// ---- canonical rendering of field values (injective up to config.SafeParamsEqual) ---------------

func renderV(b *strings.Builder, v reflect.Value) {
	if !v.IsValid() {
		b.WriteString("<invalid>")
		return
	}
	t := v.Type()
	switch {
	case t == reflect.TypeOf((*regexp.Regexp)(nil)):
		if v.IsNil() {
			b.WriteString("re:nil")
		} else {
			b.WriteString("re:" + strconv.Quote(v.Interface().(*regexp.Regexp).String()))
		}
		return
	case t == reflect.TypeOf(net.IP(nil)):
		ip := v.Interface().(net.IP)
		// net.IP.Equal: 4-byte and 16-byte forms of one address are equal; all other lengths compare bytewise
		if ip4 := ip.To4(); ip4 != nil {
			b.WriteString("ip:" + hex.EncodeToString(ip4.To16()))
		} else {
			b.WriteString("ip:" + hex.EncodeToString(ip))
		}
		return
	}
	switch v.Kind() {
	case reflect.Bool:
		fmt.Fprintf(b, "%v", v.Bool())
	case reflect.Int, reflect.Int8, reflect.Int16, reflect.Int32, reflect.Int64:
		fmt.Fprintf(b, "%d", v.Int())
	case reflect.Uint, reflect.Uint8, reflect.Uint16, reflect.Uint32, reflect.Uint64, reflect.Uintptr:
		fmt.Fprintf(b, "%d", v.Uint())
	case reflect.Float32, reflect.Float64:
		fmt.Fprintf(b, "%x", v.Float())
	case reflect.String:
		b.WriteString(strconv.Quote(v.String()))
	case reflect.Pointer:
		if v.IsNil() {
			b.WriteString("nil")
		} else {
			b.WriteString("&")
			renderV(b, v.Elem())
		}
	case reflect.Interface:
		if v.IsNil() {
			b.WriteString("nil")
		} else {
			b.WriteString("(" + v.Elem().Type().String() + ")")
			renderV(b, v.Elem())
		}
	case reflect.Slice, reflect.Array:
		if v.Kind() == reflect.Slice && v.IsNil() {
			b.WriteString("nil[]")
			return
		}
		b.WriteString("[")
		for i := 0; i < v.Len(); i++ {
			if i > 0 {
				b.WriteString(",")
			}
			renderV(b, v.Index(i))
		}
		b.WriteString("]")
	case reflect.Map:
		if v.IsNil() {
			b.WriteString("nil{}")
			return
		}
		var items []string
		iter := v.MapRange()
		for iter.Next() {
			var kb strings.Builder
			renderV(&kb, iter.Key())
			kb.WriteString(":")
			renderV(&kb, iter.Value())
			items = append(items, kb.String())
		}
		sort.Strings(items)
		b.WriteString("{" + strings.Join(items, ",") + "}")
	case reflect.Struct:
		b.WriteString(t.String() + "{")
		for i := 0; i < v.NumField(); i++ {
			if i > 0 {
				b.WriteString(",")
			}
			b.WriteString(t.Field(i).Name + ":")
			renderV(b, v.Field(i))
		}
		b.WriteString("}")
	default:
		panic("cannot render kind " + v.Kind().String())
	}
}

func render(x any) string {
	var b strings.Builder
	if x == nil {
		b.WriteString("untyped-nil")
	} else {
		v := reflect.ValueOf(x)
		b.WriteString(v.Type().String() + "=")
		renderV(&b, v)
	}
	return b.String()
}

func tok(x any) string {
	h := sha256.Sum256([]byte(render(x)))
	return hex.EncodeToString(h[:5])
}

func fieldOf(c *config.Config, name string) any {
	return reflect.ValueOf(c).Elem().FieldByName(name).Interface()
}

// ---- protocol state ------------------------------------------------------------------------

type kv struct{ k, v, tok string }

type state struct {
	cfg      *config.Config
	decls    []string // lower-case names in declaration order
	declared map[string]bool
	srcs     map[config.Source][]kv // what the real config currently holds, as ordered lists
}

var pristine *config.Config // a fresh Config: what applyDefaults leaves in every field

func srcOf(w string) (config.Source, bool) {
	n, err := strconv.Atoi(w)
	if err != nil || n < 1 || n > 6 {
		return 0, false
	}
	return config.Source(n), true
}

func parseKV(w string) (kv, bool) {
	p := strings.Split(w, "=")
	if len(p) != 2 {
		return kv{}, false
	}
	q := strings.Split(p[1], ":")
	if len(q) != 2 || p[0] == "" || q[1] == "" {
		return kv{}, false
	}
	raw, err := hex.DecodeString(q[0])
	if err != nil || strings.ToLower(q[0]) != q[0] {
		return kv{}, false
	}
	return kv{p[0], string(raw), q[1]}, true
}

func parseTok(p config.Param, raw string) string {
	v, err := p.Parse(raw)
	if err != nil {
		return "!"
	}
	return tok(v)
}

// checkKVs: "" if fine, else the protocol answer.
func (s *state) checkKVs(kvs []kv) string {
	exact := map[string]bool{}
	for _, e := range kvs {
		if exact[e.k] {
			return "bad-op" // a Go map cannot hold one key twice
		}
		exact[e.k] = true
	}
	for _, e := range kvs {
		l := strings.ToLower(e.k)
		if _, ok := config.Params()[l]; ok && !s.declared[l] {
			return "undeclared"
		}
	}
	for _, e := range kvs {
		l := strings.ToLower(e.k)
		p, ok := config.Params()[l]
		if !ok {
			if e.tok != "-" {
				return "tokmismatch"
			}
			continue
		}
		if parseTok(p, e.v) != e.tok {
			return "tokmismatch"
		}
	}
	return ""
}

// ---- log capture: the order in which resolve() processed the keys --------------------------------

type orderHook struct{ msgs []string }

func (o *orderHook) Levels() []logrus.Level { return []logrus.Level{logrus.InfoLevel} }
func (o *orderHook) Fire(e *logrus.Entry) error {
	if strings.HasPrefix(e.Message, "Parsing value for ") {
		o.msgs = append(o.msgs, e.Message)
	}
	return nil
}

var hook = &orderHook{}

func parsingMsg(name, raw string, src config.Source) string {
	return fmt.Sprintf("Parsing value for %v: %v (from %v)", name, raw, src)
}

// group = keys of one source with the same lower-case name of a known parameter (>= 2 of them)
type group struct {
	src     config.Source
	lname   string
	name    string
	members []kv // in list order
}

func groupsOf(srcs map[config.Source][]kv) []group {
	var out []group
	for _, src := range config.SourcesInDescendingOrder {
		by := map[string][]kv{}
		var order []string
		for _, e := range srcs[src] {
			l := strings.ToLower(e.k)
			if _, ok := config.Params()[l]; !ok {
				continue
			}
			if _, seen := by[l]; !seen {
				order = append(order, l)
			}
			by[l] = append(by[l], e)
		}
		for _, l := range order {
			if len(by[l]) >= 2 {
				out = append(out, group{src, l, config.Params()[l].GetMetadata().Name, by[l]})
			}
		}
	}
	return out
}

// lastProcessed returns the index (into g.members) of the member the real code processed last
// according to the captured log, or -1 if none of them was parsed.
func lastProcessed(g group, msgs []string) int {
	best, bestAt := -1, -1
	for i, m := range g.members {
		want := parsingMsg(g.name, m.v, g.src)
		for at := len(msgs) - 1; at >= 0; at-- {
			if msgs[at] == want {
				if at > bestAt || (at == bestAt && i > best) {
					best, bestAt = i, at
				}
				break
			}
		}
	}
	return best
}

var orderRng = rand.New(rand.NewSource(27)) // only decides map insertion order; outputs do not depend on it

func mapOf(kvs []kv) map[string]string {
	m := map[string]string{}
	idx := orderRng.Perm(len(kvs))
	for _, i := range idx {
		m[kvs[i].k] = kvs[i].v
	}
	return m
}

func configUpdateOf(srcs map[config.Source][]kv) *proto.ConfigUpdate {
	cu := &proto.ConfigUpdate{SourceToRawConfig: map[uint32]*proto.RawConfig{}, Config: map[string]string{}}
	for src, kvs := range srcs {
		cu.SourceToRawConfig[uint32(src)] = &proto.RawConfig{Source: src.String(), Config: mapOf(kvs)}
	}
	return cu
}

const maxTries = 4000

// runOrdered runs the update on the real Config.  (Before commit f0ff295 resolve() walked each
// source's Go map in map order and this function had to search for an execution in the listed
// order; resolve() now sorts the keys, so one run is THE result.  If the sort is ever lost, the
// results become run-dependent: the correspondence then disagrees and the case-variant-order
// oracle below reports it.)
func (s *state) runOrdered(h *rt.H, after map[config.Source][]kv, do func(c *config.Config) error) (c *config.Config, err error, ok bool) {
	hook.msgs = hook.msgs[:0]
	err = do(s.cfg)
	return s.cfg, err, true
}

func cloneSrcs(m map[config.Source][]kv) map[config.Source][]kv {
	out := map[config.Source][]kv{}
	for k, v := range m {
		out[k] = append([]kv(nil), v...)
	}
	return out
}

func changedFieldNames(a, b *config.Config) []string {
	var out []string
	t := reflect.TypeOf(*a)
	for i := 0; i < t.NumField(); i++ {
		f := t.Field(i)
		if f.Tag.Get("config") == "" {
			continue
		}
		if !config.SafeParamsEqual(fieldOf(a, f.Name), fieldOf(b, f.Name)) {
			out = append(out, f.Name)
		}
	}
	sort.Strings(out)
	return out
}

// exec runs one protocol op on the REAL code.
func exec(h *rt.H, s *state, op string) string {
	w := strings.Fields(op)
	if len(w) == 0 {
		return "bad-op"
	}
	switch w[0] {
	case "new":
		if len(w) != 1 {
			return "bad-op"
		}
		s.cfg = config.New()
		s.decls, s.declared = nil, map[string]bool{}
		s.srcs = map[config.Source][]kv{}
		return "ok"
	case "srcs":
		if len(w) != 1 {
			return "bad-op"
		}
		var out []string
		for _, src := range config.SourcesInDescendingOrder {
			x := strconv.Itoa(int(src))
			if src.Local() {
				x += "L"
			}
			out = append(out, x)
		}
		return strings.Join(out, " ")
	case "decl":
		if len(w) != 5 {
			return "bad-op"
		}
		p, ok := config.Params()[w[1]]
		if !ok {
			return "unknown"
		}
		md := p.GetMetadata()
		if tok(fieldOf(pristine, md.Name)) != w[2] || tok(md.Default) != w[3] || tok(md.ZeroValue) != w[4] {
			return "tokmismatch"
		}
		if !s.declared[w[1]] {
			s.declared[w[1]] = true
		} else {
			for i, l := range s.decls {
				if l == w[1] {
					s.decls = append(s.decls[:i], s.decls[i+1:]...)
					break
				}
			}
		}
		s.decls = append(s.decls, w[1])
		b := func(x bool) string {
			if x {
				return "1"
			}
			return "0"
		}
		return md.Name + " " + b(md.Local) + b(md.DieOnParseFailure) + b(md.NonZero)
	case "upd":
		if len(w) < 2 {
			return "bad-op"
		}
		src, ok := srcOf(w[1])
		if !ok {
			return "bad-op"
		}
		var kvs []kv
		for _, x := range w[2:] {
			e, ok := parseKV(x)
			if !ok {
				return "bad-op"
			}
			kvs = append(kvs, e)
		}
		if r := s.checkKVs(kvs); r != "" {
			return r
		}
		after := cloneSrcs(s.srcs)
		var kept []kv
		for _, e := range kvs {
			if e.v != "" {
				kept = append(kept, e)
			}
		}
		after[src] = kept
		var changed bool
		c, err, reached := s.runOrdered(h, after, func(c *config.Config) error {
			var err error
			changed, err = c.UpdateFrom(mapOf(kvs), src)
			return err
		})
		if !reached {
			return "order-unreachable"
		}
		s.cfg, s.srcs = c, after
		if err != nil && c.Err == nil {
			return "err-not-stored"
		}
		if err != nil {
			h.Count("upd:err")
			return "err"
		}
		if changed {
			return "changed=1"
		}
		return "changed=0"
	case "all":
		after := map[config.Source][]kv{}
		var cur config.Source
		have := false
		for _, x := range w[1:] {
			if strings.HasPrefix(x, "s") && !strings.Contains(x, "=") {
				src, ok := srcOf(x[1:])
				if !ok {
					return "bad-op"
				}
				cur, have = src, true
				if _, dup := after[cur]; dup {
					return "bad-op"
				}
				after[cur] = nil
				continue
			}
			e, ok := parseKV(x)
			if !ok || !have || e.v == "" {
				// UpdateFromConfigUpdate is fed from ToConfigUpdate, i.e. from maps that went through
				// UpdateFrom's empty-value filter: an empty value is not an input of this op.
				return "bad-op"
			}
			after[cur] = append(after[cur], e)
		}
		for _, pass := range []string{"bad-op", "undeclared", "tokmismatch"} {
			for _, kvs := range after {
				if r := s.checkKVs(kvs); r == pass {
					return r
				}
			}
		}
		before := s.cfg.Copy()
		c, err, reached := s.runOrdered(h, after, func(c *config.Config) error {
			_, err := c.UpdateFromConfigUpdate(configUpdateOf(after))
			return err
		})
		if !reached {
			return "order-unreachable"
		}
		s.cfg, s.srcs = c, after
		if err != nil {
			h.Count("all:err")
			return "err"
		}
		return "changed:" + strings.Join(changedFieldNames(before, c), ",")
	case "get":
		if len(w) != 1 {
			return "bad-op"
		}
		e := "0"
		if s.cfg.Err != nil {
			e = "1"
		}
		oracle(h, s)
		var fs, rs []string
		for _, l := range s.decls {
			name := config.Params()[l].GetMetadata().Name
			fs = append(fs, name+"="+tok(fieldOf(s.cfg, name)))
		}
		raw := s.cfg.RawValues()
		keys := make([]string, 0, len(raw))
		for k := range raw {
			keys = append(keys, k)
		}
		sort.Strings(keys)
		for _, k := range keys {
			rs = append(rs, k+"="+hex.EncodeToString([]byte(raw[k])))
		}
		return "err=" + e + " f:" + strings.Join(fs, ",") + " r:" + strings.Join(rs, ",")
	}
	return "bad-op"
}

// ---- the property's own oracle, evaluated on the real code -------------------------------------

func describe(srcs map[config.Source][]kv) map[string]any {
	out := map[string]any{}
	for src, kvs := range srcs {
		var l []string
		for _, e := range kvs {
			l = append(l, e.k+"="+e.v)
		}
		out[src.String()] = l
	}
	return out
}

// freshResolve resolves `srcs` on a brand-new Config; the boolean says whether Err was set.
func freshResolve(srcs map[config.Source][]kv) (*config.Config, bool) {
	c := config.New()
	hook.msgs = hook.msgs[:0]
	_, err := c.UpdateFromConfigUpdate(configUpdateOf(srcs))
	return c, err != nil || c.Err != nil
}

// The property text: "datastore values for local-only parameters never affect the result".  The three
// datastore sources are named here, NOT taken from Source.Local(), so that a wrong Local() is caught.
func ignoredLocal(md *config.Metadata, src config.Source) bool {
	datastore := src == config.DatastoreGlobal || src == config.DatastorePerSelector || src == config.DatastorePerHost
	return md.Local && datastore
}

// deciding returns, for a known parameter, the highest-priority source holding a key for it that is
// not a datastore value of a local-only parameter, and that source's keys for it.
func deciding(srcs map[config.Source][]kv, lname string) (config.Source, []kv, bool) {
	md := config.Params()[lname].GetMetadata()
	for _, src := range config.SourcesInDescendingOrder {
		if ignoredLocal(md, src) {
			continue
		}
		var ms []kv
		for _, e := range srcs[src] {
			if strings.ToLower(e.k) == lname {
				ms = append(ms, e)
			}
		}
		if len(ms) > 0 {
			return src, ms, true
		}
	}
	return 0, nil, false
}

// expected value of one raw value according to the property text; fatal=true if it is a fatal value.
func expectedOf(p config.Param, raw string) (val any, fatal bool) {
	md := p.GetMetadata()
	if strings.ToLower(raw) == "none" {
		if md.NonZero {
			return nil, true
		}
		return md.ZeroValue, false
	}
	v, err := p.Parse(raw)
	if err != nil {
		if md.DieOnParseFailure {
			return nil, true
		}
		return md.Default, false
	}
	return v, false
}

func oracle(h *rt.H, s *state) {
	srcs := s.srcs
	// touched known parameters
	touched := map[string]bool{}
	for _, kvs := range srcs {
		for _, e := range kvs {
			l := strings.ToLower(e.k)
			if _, ok := config.Params()[l]; ok {
				touched[l] = true
			}
		}
	}
	if len(touched) == 0 {
		return
	}
	var names []string
	for l := range touched {
		names = append(names, l)
	}
	sort.Strings(names)

	base, baseErr := freshResolve(srcs)

	// (1) resolution by priority: the deciding source's value decides.
	anyDecidingFatal := false
	multi := false
	for _, l := range names {
		p := config.Params()[l]
		_, ms, ok := deciding(srcs, l)
		if !ok {
			continue
		}
		if len(ms) > 1 {
			multi = true
		}
		for _, m := range ms {
			if _, fatal := expectedOf(p, m.v); fatal {
				anyDecidingFatal = true
			}
		}
	}
	if anyDecidingFatal && !baseErr {
		h.OracleFail("fatal-missed", "the deciding value of a parameter is fatal but Err is not set", describe(srcs))
	}
	if !baseErr {
		for _, l := range names {
			p := config.Params()[l]
			md := p.GetMetadata()
			got := fieldOf(base, md.Name)
			_, ms, ok := deciding(srcs, l)
			if !ok {
				if !config.SafeParamsEqual(got, fieldOf(pristine, md.Name)) {
					h.OracleFail("priority-wrong", "parameter set by no admissible source does not hold its default: "+md.Name, describe(srcs))
				}
				continue
			}
			match := false
			for _, m := range ms { // several only if they differ in case: any of them is acceptable here
				want, _ := expectedOf(p, m.v)
				if config.SafeParamsEqual(got, want) {
					match = true
				}
			}
			if !match {
				h.OracleFail("priority-wrong", "effective value is not the one given by the highest-priority source: "+md.Name, describe(srcs))
			}
		}
	}

	// (2) shadowed values never affect the result: drop every key of a known parameter that sits in a
	// source below the deciding one and resolve again.
	pruned := map[config.Source][]kv{}
	nShadowed := 0
	for src, kvs := range srcs {
		for _, e := range kvs {
			l := strings.ToLower(e.k)
			if _, ok := config.Params()[l]; ok {
				if dsrc, _, ok := deciding(srcs, l); ok && src < dsrc && !ignoredLocal(config.Params()[l].GetMetadata(), src) {
					nShadowed++
					continue
				}
			}
			pruned[src] = append(pruned[src], e)
		}
	}
	if nShadowed > 0 {
		h.Count("oracle:shadowed-evaluated")
		pc, pErr := freshResolve(pruned)
		if pErr != baseErr {
			h.OracleFail("shadowed-fatal", "removing only shadowed lower-priority values changes whether Err is set", map[string]any{"with": describe(srcs), "without-shadowed": describe(pruned), "err-with": baseErr, "err-without": pErr})
		} else if !baseErr && !multi {
			if d := changedFieldNames(base, pc); len(d) > 0 {
				h.OracleFail("shadowed-affects-value", "removing only shadowed lower-priority values changes fields "+strings.Join(d, ","), map[string]any{"with": describe(srcs), "without-shadowed": describe(pruned)})
			}
		}
	}

	// (3) datastore values of local-only parameters never affect the result.
	noNonLocal := map[config.Source][]kv{}
	nIgnored := 0
	for src, kvs := range srcs {
		for _, e := range kvs {
			l := strings.ToLower(e.k)
			if p, ok := config.Params()[l]; ok && ignoredLocal(p.GetMetadata(), src) {
				nIgnored++
				continue
			}
			noNonLocal[src] = append(noNonLocal[src], e)
		}
	}
	if nIgnored > 0 {
		h.Count("oracle:nonlocal-evaluated")
		nc, nErr := freshResolve(noNonLocal)
		if nErr != baseErr {
			h.OracleFail("nonlocal-affects-local", "a datastore value of a local-only parameter changes whether Err is set", describe(srcs))
		} else if !baseErr && !multi {
			if d := changedFieldNames(base, nc); len(d) > 0 {
				h.OracleFail("nonlocal-affects-local", "a datastore value of a local-only parameter changes fields "+strings.Join(d, ","), describe(srcs))
			}
		}
	}

	// (4) the result does not depend on the order in which keys are read.
	gs := groupsOf(srcs)
	var decidingGroups []group
	for _, g := range gs {
		if dsrc, _, ok := deciding(srcs, g.lname); ok && dsrc == g.src {
			decidingGroups = append(decidingGroups, g)
		}
	}
	if len(decidingGroups) == 0 {
		// no case variants: two more fresh runs with re-shuffled insertion must agree completely
		for i := 0; i < 2; i++ {
			c2, e2 := freshResolve(srcs)
			if e2 != baseErr {
				h.OracleFail("order-dependent", "Err differs between two runs on the same sources", describe(srcs))
			} else if !baseErr {
				if d := changedFieldNames(base, c2); len(d) > 0 {
					h.OracleFail("order-dependent", "fields differ between two runs on the same sources: "+strings.Join(d, ","), describe(srcs))
				}
			}
		}
		return
	}
	if baseErr {
		return
	}
	h.Count("oracle:case-variant-evaluated")
	for _, g := range decidingGroups {
		// force every member to be processed last at least once, record the resulting field value
		seen := map[int]string{}
		distinctRaw := map[string]bool{}
		for _, m := range g.members {
			distinctRaw[m.v] = true
		}
		for try := 0; try < 96 && len(seen) < len(distinctRaw); try++ {
			c2, e2 := freshResolve(srcs)
			if e2 {
				break
			}
			lp := lastProcessed(g, hook.msgs)
			if lp >= 0 {
				if _, ok := seen[lp]; !ok {
					seen[lp] = tok(fieldOf(c2, g.name))
				}
			}
		}
		vals := map[string]bool{}
		for _, v := range seen {
			vals[v] = true
		}
		if len(vals) > 1 {
			h.OracleFail("case-variant-order", "two keys of one source differing only in case: the effective value of "+g.name+" depends on map iteration order", describe(srcs))
		}
	}
}

// ---- generator ---------------------------------------------------------------------------------

var pool = []string{
	"true", "false", "1", "0", "yes", "N", "42", "-5", "65535", "65536", "0x10", "3.5", "10", "100", "3000", "3001",
	"eth0", "cali", "tunl0,wg0", "ACCEPT", "RETURN", "DROP", "REJECT", "insert", "append", "Enabled", "Disabled",
	"Auto", "Strict", "off", "info", "debug", "TCP", "tunnel", "dsr", "kubernetes", "etcdv3", "http", "https",
	"127.0.0.1", "10.0.0.1", "fe80::1", "10.0.0.0/8", "10.0.0.0/8,192.168.0.0/16", "tcp:80", "tcp:80,udp:53",
	"1000-2000", "1-250", "a=b", "a=b,c=d", "x=10s", "host-1", "localhost:2379", "http://a:1,http://b:2",
	"/tmp", "/bin/sh", "/nonexistent/verif", "0xffff0000", "0xff", "1/second", "10/minute", "/eth.*/",
	"kube-system", "us-east", "all", "Info", "DEBUG", "Fatal", "bogus", "b@d!", "-", "999999999999999999999",
	"TunnelAddress", "HostAddress", "Netkit", "TCX", "TC", "Loose", "DoubleIfFull", "DoNothing", "Enable", "L2Only",
	"iptables", "nftables", "legacy", "nft", "Always", "Never", "CrossSubnet", "IPIP", "VXLAN", "None ", "no ne",
}

type pinfo struct {
	lname, name    string
	valid, invalid []string
}

var (
	allParams []pinfo
	byFlag    = map[string][]int{} // "die", "nonzero", "local", "plain", "die+nonzero" -> indices
)

func initParams() {
	var ls []string
	for l := range config.Params() {
		ls = append(ls, l)
	}
	sort.Strings(ls)
	for _, l := range ls {
		p := config.Params()[l]
		md := p.GetMetadata()
		pi := pinfo{lname: l, name: md.Name}
		cands := append([]string{}, pool...)
		if md.DefaultString != "" {
			cands = append(cands, md.DefaultString, strings.ToUpper(md.DefaultString))
		}
		seen := map[string]bool{}
		for _, c := range cands {
			if seen[c] || strings.ToLower(c) == "none" {
				continue
			}
			seen[c] = true
			if _, err := p.Parse(c); err == nil {
				pi.valid = append(pi.valid, c)
			} else {
				pi.invalid = append(pi.invalid, c)
			}
		}
		i := len(allParams)
		allParams = append(allParams, pi)
		switch {
		case md.Local:
			byFlag["local"] = append(byFlag["local"], i)
		case md.DieOnParseFailure && md.NonZero:
			byFlag["die+nonzero"] = append(byFlag["die+nonzero"], i)
		case md.DieOnParseFailure:
			byFlag["die"] = append(byFlag["die"], i)
		case md.NonZero:
			byFlag["nonzero"] = append(byFlag["nonzero"], i)
		default:
			byFlag["plain"] = append(byFlag["plain"], i)
		}
	}
}

func hx(s string) string { return hex.EncodeToString([]byte(s)) }

func caseVariant(h *rt.H, name string) string {
	switch h.Intn(5) {
	case 0:
		return name
	case 1:
		return strings.ToLower(name)
	case 2:
		return strings.ToUpper(name)
	default:
		b := []byte(name)
		for i := range b {
			if h.Bool() {
				b[i] = strings.ToUpper(string(b[i]))[0]
			} else {
				b[i] = strings.ToLower(string(b[i]))[0]
			}
		}
		return string(b)
	}
}

func genValue(h *rt.H, pi *pinfo) (string, string) {
	md := config.Params()[pi.lname].GetMetadata()
	for {
		v, cat := genValue1(h, pi)
		// fatal values end the case's interesting part (Felix would exit): keep them, but rarer
		fatal := (cat == "none" && md.NonZero) || (cat == "invalid" && md.DieOnParseFailure)
		if fatal && h.Intn(100) < 70 {
			continue
		}
		if fatal {
			cat = "fatal-" + cat
		}
		return v, cat
	}
}

func genValue1(h *rt.H, pi *pinfo) (string, string) {
	r := h.Intn(100)
	switch {
	case r < 45 && len(pi.valid) > 0:
		return rt.Pick(h, pi.valid), "valid"
	case r < 72 && len(pi.invalid) > 0:
		return rt.Pick(h, pi.invalid), "invalid"
	case r < 92:
		return rt.Pick(h, []string{"none", "NONE", "None", "nOnE"}), "none"
	case r < 96:
		return "", "empty"
	default:
		if len(pi.valid) > 0 {
			return rt.Pick(h, pi.valid), "valid"
		}
		return "bogus", "invalid"
	}
}

var unknownKeys = []string{"VerifUnknownA", "verifunknowna", "VERIFUNKNOWNA", "VerifUnknownB", "Verif_Plugin.key"}

func genKVs(h *rt.H, ps []int, allowVariants bool, allowEmpty bool) []string {
	var out []string
	used := map[string]bool{}
	variantDone := false       // usually one variant group per source;
	multi := h.Intn(10) == 0 // several in one source exercise the re-seat path of runOrdered
	add := func(k, v, t string) {
		if used[k] {
			return
		}
		used[k] = true
		out = append(out, k+"="+hx(v)+":"+t)
	}
	for _, i := range ps {
		if h.Intn(100) < 35 {
			continue
		}
		pi := &allParams[i]
		p := config.Params()[pi.lname]
		v, cat := genValue(h, pi)
		for v == "" && !allowEmpty {
			v, cat = genValue(h, pi)
		}
		h.Count("val:" + cat)
		add(caseVariant(h, pi.name), v, parseTok(p, v))
		if allowVariants && (!variantDone || multi) && h.Intn(100) < 30 {
			variantDone = true
			// a second (sometimes third) key of the same source differing only in case, other value
			for n := 1 + h.Intn(2); n > 0; n-- {
				v2, _ := genValue(h, pi)
				if v2 == "" || v2 == v {
					continue
				}
				add(caseVariant(h, pi.name), v2, parseTok(p, v2))
				h.Count("gen:case-variant-key")
			}
		}
	}
	if h.Intn(100) < 20 {
		for n := 1 + h.Intn(2); n > 0; n-- {
			uv := rt.Pick(h, []string{"x", "y", "none", "", "some value"})
			if uv == "" && !allowEmpty {
				uv = "z"
			}
			add(rt.Pick(h, unknownKeys), uv, "-")
			h.Count("gen:unknown-key")
		}
	}
	h.Rng.Shuffle(len(out), func(a, b int) { out[a], out[b] = out[b], out[a] })
	return out
}

func genCase(h *rt.H) []string {
	ops := []string{"new"}
	if h.Intn(20) == 0 {
		ops = append(ops, "srcs")
	}
	// 1..4 parameters, biased to the flag classes the property distinguishes
	n := 1 + h.Intn(4)
	var ps []int
	seen := map[int]bool{}
	for len(ps) < n {
		var i int
		switch h.Intn(10) {
		case 0, 1:
			i = rt.Pick(h, byFlag["die"])
		case 2, 3:
			i = rt.Pick(h, byFlag["die+nonzero"])
		case 4:
			i = rt.Pick(h, byFlag["nonzero"])
		case 5, 6:
			i = rt.Pick(h, byFlag["local"])
		case 7:
			i = rt.Pick(h, byFlag["plain"])
		default:
			i = h.Intn(len(allParams))
		}
		if !seen[i] {
			seen[i] = true
			ps = append(ps, i)
		}
	}
	for _, i := range ps {
		pi := allParams[i]
		md := config.Params()[pi.lname].GetMetadata()
		ops = append(ops, fmt.Sprintf("decl %s %s %s %s", pi.lname, tok(fieldOf(pristine, md.Name)), tok(md.Default), tok(md.ZeroValue)))
	}
	if h.Intn(25) == 0 {
		ops = append(ops, "decl notaparam 00 00 00")
	}
	variants := h.Intn(100) < 30
	nUpd := 1 + h.Intn(7)
	for u := 0; u < nUpd; u++ {
		if h.Intn(8) == 0 {
			// UpdateFromConfigUpdate: all sources at once
			line := "all"
			perm := h.Rng.Perm(6)
			for _, s := range perm[:1+h.Intn(4)] {
				line += fmt.Sprintf(" s%d", s+1)
				if kvs := genKVs(h, ps, variants, false); len(kvs) > 0 {
					line += " " + strings.Join(kvs, " ")
				}
			}
			ops = append(ops, line)
		} else {
			src := 1 + h.Intn(6)
			line := fmt.Sprintf("upd %d", src)
			if kvs := genKVs(h, ps, variants, true); len(kvs) > 0 {
				line += " " + strings.Join(kvs, " ")
			}
			ops = append(ops, line)
		}
		if h.Intn(3) == 0 {
			ops = append(ops, "get")
		}
	}
	ops = append(ops, "get")
	return ops
}

func main() {
	h := rt.New()
	defer h.Close()
	// rt.New silences logrus; the harness needs the Info stream (only through the hook) to see the
	// order in which resolve() walks each source's map.
	logrus.SetLevel(logrus.InfoLevel)
	logrus.AddHook(hook)
	config.Params()
	pristine = config.New()
	initParams()
	h.Rule = "case = fresh Config + 1..4 declared parameters (biased to die-on-fail / non-zero / local-only classes, else any of the 218) + 1..7 updates " +
		"(UpdateFrom of one of the six sources, or UpdateFromConfigUpdate of several) whose values are valid / invalid / 'none' (any case) / empty per the REAL parser, " +
		"keys in canonical, lower, upper or random case, optional unknown keys and optional same-source case-variant duplicates; " +
		"distinct = distinct op sequence; non-trivial = at least two sources set the same parameter, or a fatal value, or a case-variant duplicate occurred"
	run := func(ops []string, tag string) {
		h.Case(tag)
		s := &state{cfg: config.New(), declared: map[string]bool{}, srcs: map[config.Source][]kv{}}
		nontriv := false
		for _, op := range ops {
			out := exec(h, s, op)
			h.Op(op, out)
			f := strings.Fields(op)
			if len(f) > 0 {
				h.Count("op:" + f[0])
			}
			if out == "err" {
				nontriv = true
			}
			if f[0] == "upd" || f[0] == "all" {
				per := map[string]int{}
				for _, kvs := range s.srcs {
					seen := map[string]bool{}
					for _, e := range kvs {
						l := strings.ToLower(e.k)
						if seen[l] {
							nontriv = true
						}
						seen[l] = true
					}
					for l := range seen {
						per[l]++
						if per[l] >= 2 {
							nontriv = true
						}
					}
				}
			}
		}
		if nontriv {
			h.Nontrivial(strings.Join(ops, ";"))
		}
		h.Sample()
	}
	if h.Replay != "" {
		run(h.ReplayLines(), "replay")
		return
	}
	for i := 0; i < h.N; i++ {
		run(genCase(h), "gen")
	}
}
