package main

// Reference verdict semantics (Go twin of CalicoVerif/Model/C11Ref.lean; the two
// are compared on every packet line).  Written from the documented meaning of
// tiers / pass / end-of-tier / profiles / host-policy kinds, not from the
// instruction stream.

import (
	"math/big"
	"strings"
)

type pkt struct {
	Src, Pre, Post       [16]byte
	Sport, Dport         uint16
	PreDport, PostDport  uint16
	Proto                uint8
	Flags                uint64
	RC                   uint32
	Hits                 uint8
}

const (
	legSrc = iota
	legDst
	legDstPre
)

func (p *pkt) addr(leg int) [16]byte {
	switch leg {
	case legSrc:
		return p.Src
	case legDstPre:
		return p.Pre
	}
	return p.Post
}

func (p *pkt) port(leg int) uint16 {
	switch leg {
	case legSrc:
		return p.Sport
	case legDstPre:
		return p.PreDport
	}
	return p.PostDport
}

func protoNumberRef(p *gProto) (int, bool) {
	if !p.IsName {
		if p.Num >= 0 && p.Num <= 255 {
			return int(p.Num), true
		}
		return 0, false
	}
	switch strings.ToLower(p.Name) {
	case "tcp":
		return 6, true
	case "udp":
		return 17, true
	case "icmp":
		return 1, true
	case "sctp":
		return 132, true
	case "icmpv6":
		return 58, true
	case "udplite":
		return 136, true
	}
	return 0, false
}

func protoIs(p *pkt, pr *gProto) bool {
	n, ok := protoNumberRef(pr)
	return ok && int(p.Proto) == n
}

func netContains(v6 bool, a [16]byte, n gNet) bool {
	nbits := 32
	al := 4
	if v6 {
		nbits, al = 128, 16
	}
	av := new(big.Int).SetBytes(a[:al])
	pfx := n.Pfx
	if pfx > nbits {
		pfx = nbits
	}
	sh := uint(nbits - pfx)
	x := new(big.Int).Rsh(av, sh)
	nv := new(big.Int).Set(n.Addr)
	if !v6 {
		nv.And(nv, big.NewInt(0xffffffff))
	}
	y := new(big.Int).Rsh(nv, sh)
	return x.Cmp(y) == 0
}

func portIn(p uint16, r gPorts) bool { return r.First <= int32(p) && int32(p) <= r.Last }

func mod256(x int32) int { return int(((x % 256) + 256) % 256) }

func icmpIs(p *pkt, i gIcmp) bool {
	t, c := int(p.Dport%256), int(p.Dport/256)
	switch i.Kind {
	case 0:
		return true
	case 1:
		return t == mod256(i.T)
	}
	return t == mod256(i.T) && c == mod256(i.C)
}

func (e *env) mem(p *pkt, leg int, id uint64) bool {
	a := p.addr(leg)
	if !e.c.V6 {
		for i := 4; i < 16; i++ {
			a[i] = 0
		}
	}
	for _, m := range e.members {
		if m.ID == id && m.Addr == a && m.Port == p.port(leg) && m.Proto == p.Proto {
			return true
		}
	}
	return false
}

func isV6Net(n gNet) bool { return n.V6 }

// filterNets / filterRule: rules.FilterRuleToIPVersion semantics (part of the
// reference: a rule that does not apply to this IP version is skipped).
func filterNets(ns []gNet, v6 bool, negated bool) ([]gNet, bool) {
	if len(ns) == 0 {
		return nil, false
	}
	all := true
	var out []gNet
	for _, n := range ns {
		if n.V6 != v6 {
			continue
		}
		if negated && n.Addr.Sign() == 0 && n.Pfx == 0 {
			return nil, true
		}
		out = append(out, n)
		all = false
	}
	return out, all
}

func filterRule(v6 bool, r *gRule) *gRule {
	want := 4
	if v6 {
		want = 6
	}
	if r.IPVer != 0 && r.IPVer != want {
		return nil
	}
	c := *r
	var all bool
	if c.SrcNet, all = filterNets(r.SrcNet, v6, false); all {
		return nil
	}
	if c.NotSrcNet, all = filterNets(r.NotSrcNet, v6, true); all {
		return nil
	}
	if c.DstNet, all = filterNets(r.DstNet, v6, false); all {
		return nil
	}
	if c.NotDstNet, all = filterNets(r.NotDstNet, v6, true); all {
		return nil
	}
	return &c
}

func ruleMatch(e *env, p *pkt, destLeg int, r *gRule) bool {
	v6 := e.c.V6
	anyNet := func(ns []gNet, a [16]byte) bool {
		for _, n := range ns {
			if netContains(v6, a, n) {
				return true
			}
		}
		return false
	}
	allMem := func(leg int, ids []uint64) bool {
		for _, id := range ids {
			if !e.mem(p, leg, id) {
				return false
			}
		}
		return true
	}
	anyMem := func(leg int, ids []uint64) bool {
		for _, id := range ids {
			if e.mem(p, leg, id) {
				return true
			}
		}
		return false
	}
	ports := func(leg int, rs []gPorts, named []uint64) bool {
		for _, r := range rs {
			if portIn(p.port(leg), r) {
				return true
			}
		}
		return anyMem(leg, named)
	}
	if r.Proto != nil && !protoIs(p, r.Proto) {
		return false
	}
	if r.NotProto != nil && protoIs(p, r.NotProto) {
		return false
	}
	if len(r.SrcNet) > 0 && !anyNet(r.SrcNet, p.Src) {
		return false
	}
	if anyNet(r.NotSrcNet, p.Src) {
		return false
	}
	if len(r.DstNet) > 0 && !anyNet(r.DstNet, p.addr(destLeg)) {
		return false
	}
	if anyNet(r.NotDstNet, p.addr(destLeg)) {
		return false
	}
	if !allMem(legSrc, r.SrcSets) || anyMem(legSrc, r.NotSrcSets) {
		return false
	}
	if len(r.DstSets) > 0 && !anyMem(destLeg, r.DstSets) {
		return false
	}
	if anyMem(destLeg, r.NotDstSets) || !allMem(destLeg, r.DstPortSets) {
		return false
	}
	if (len(r.SrcPorts) > 0 || len(r.SrcNamed) > 0) && !ports(legSrc, r.SrcPorts, r.SrcNamed) {
		return false
	}
	if (len(r.NotSrcPorts) > 0 || len(r.NotSrcNamed) > 0) && ports(legSrc, r.NotSrcPorts, r.NotSrcNamed) {
		return false
	}
	if (len(r.DstPorts) > 0 || len(r.DstNamed) > 0) && !ports(destLeg, r.DstPorts, r.DstNamed) {
		return false
	}
	if (len(r.NotDstPorts) > 0 || len(r.NotDstNamed) > 0) && ports(destLeg, r.NotDstPorts, r.NotDstNamed) {
		return false
	}
	if !icmpIs(p, r.Icmp) {
		return false
	}
	if r.NotIcmp.Kind != 0 && icmpIs(p, r.NotIcmp) {
		return false
	}
	return true
}

const (
	decAllow = iota
	decDeny
	decPass
	decNoMatch
)

func evalRules(e *env, p *pkt, destLeg int, rs []gRule) int {
	for i := range rs {
		fr := filterRule(e.c.V6, &rs[i])
		if fr == nil {
			continue
		}
		if !ruleMatch(e, p, destLeg, fr) {
			continue
		}
		switch strings.ToLower(rs[i].Action) {
		case "allow":
			return decAllow
		case "deny":
			return decDeny
		case "pass", "next-tier":
			return decPass
		case "log":
			continue
		default:
			return decDeny
		}
	}
	return decNoMatch
}

func evalPolicies(e *env, p *pkt, destLeg int, ps []gPolicy) int {
	for _, pol := range ps {
		if d := evalRules(e, p, destLeg, pol.Rules); d != decNoMatch {
			return d
		}
	}
	return decNoMatch
}

func evalTiers(e *env, p *pkt, destLeg int, ts []gTier) int {
	for _, t := range ts {
		switch evalPolicies(e, p, destLeg, t.Policies) {
		case decAllow:
			return decAllow
		case decDeny:
			return decDeny
		case decPass:
			continue
		default:
			if t.End == "p" {
				continue
			}
			return decDeny
		}
	}
	return decNoMatch
}

// evalProfiles: passDeny selects the meaning of a `pass` rule in a profile
// (true: deny — BPF builder / app-policy; false: go on to the next profile —
// iptables/nftables).
func evalProfiles(passDeny bool, e *env, p *pkt, ps []gPolicy) int {
	for _, pr := range ps {
		switch evalRules(e, p, legDst, pr.Rules) {
		case decAllow:
			return decAllow
		case decDeny:
			return decDeny
		case decPass:
			if passDeny {
				return decDeny
			}
		}
	}
	return decDeny
}

func workloadVerdict(e *env, p *pkt) string {
	c := e.c
	if c.HostIface {
		return "allow"
	}
	switch evalTiers(e, p, legDst, c.T) {
	case decAllow:
		return "allow"
	case decDeny:
		return "deny"
	}
	if evalProfiles(true, e, p, c.P) == decAllow {
		return "allow"
	}
	return "deny"
}

func verdict(e *env, p *pkt) string {
	c := e.c
	if c.XDP {
		if c.Suppress {
			return workloadVerdict(e, p)
		}
		switch evalTiers(e, p, legDstPre, c.HN) {
		case decAllow:
			return workloadVerdict(e, p)
		case decDeny:
			return "deny"
		}
		return "xdp_pass"
	}
	switch evalTiers(e, p, legDstPre, c.HP) {
	case decAllow:
		return workloadVerdict(e, p)
	case decDeny:
		return "deny"
	}
	if p.Flags&12 != 0 {
		if c.Suppress {
			return workloadVerdict(e, p)
		}
		switch evalTiers(e, p, legDst, c.HN) {
		case decAllow:
			return workloadVerdict(e, p)
		case decDeny:
			return "deny"
		}
		if evalProfiles(true, e, p, c.HPR) == decAllow {
			return workloadVerdict(e, p)
		}
		return "deny"
	}
	if evalTiers(e, p, legDst, c.HF) == decDeny {
		return "deny"
	}
	return workloadVerdict(e, p)
}

type obs struct {
	kind   string
	target uint64
	rc     int64 // -1 unspecified
}

func expectedObs(e *env, v string) obs {
	shot := uint64(2)
	if e.c.XDP {
		shot = 1
	}
	switch v {
	case "allow":
		if e.tailOK {
			t := uint64(e.cb0)
			if e.c.UseJmps {
				t = uint64(uint32(int32(e.c.AllowJmp)))
			}
			return obs{"tail", t, 1}
		}
		return obs{"exit", shot, 10}
	case "deny":
		if e.tailOK {
			t := uint64(e.cb1)
			if e.c.UseJmps {
				t = uint64(uint32(int32(e.c.DenyJmp)))
			}
			return obs{"tail", t, 2}
		}
		return obs{"exit", shot, 2}
	}
	return obs{"exit", 2, -1}
}
