package main

// A small eBPF interpreter for the instruction subset the policy builder emits,
// written independently of (and cross-checked line by line against) the Lean
// interpreter CalicoVerif/Model/C11Interp.lean.  It runs the REAL builder's
// instructions; the property oracle compares its outcome with the reference
// verdict (ref.go).

import (
	"encoding/binary"
	"math/bits"

	"github.com/projectcalico/calico/felix/bpf/asm"
)

const (
	stackTop      = 0x70000000
	stackSize     = 512
	stateBase     = 0x50000000
	stateSize     = 512
	ctxBase       = 0x30000000
	ipsetValPtr   = 0x60000000
	mapHandleBase = 0x4000000000000000
)

type member struct {
	ID    uint64
	Addr  [16]byte // v4: first 4 bytes
	Port  uint16
	Proto uint8
}

type env struct {
	c                          *gCfg
	stateOK, tailOK, polTailOK bool
	members                    []member
	cb0, cb1                   uint32
}

type mach struct {
	regs    [11]uint64
	valid   [11]bool
	stack   [stackSize]byte
	stackOK [stackSize]bool
	st      []byte
}

type outcome struct {
	kind   string // exit | tail | fault
	target uint64 // exit: r0, tail: index
	fd     int
	st     []byte
}

func newMach(st []byte) *mach {
	m := &mach{st: st}
	m.regs[1], m.valid[1] = ctxBase, true
	m.regs[10], m.valid[10] = stackTop, true
	return m
}

func (m *mach) clobber() {
	for r := 1; r <= 5; r++ {
		m.valid[r] = false
	}
}

// region: 0 none, 1 stack, 2 state, 3 ctx
func region(addr uint64, n uint64) (int, int) {
	switch {
	case addr >= stackTop-stackSize && addr+n <= stackTop:
		return 1, int(addr - (stackTop - stackSize))
	case addr >= stateBase && addr+n <= stateBase+stateSize:
		return 2, int(addr - stateBase)
	case addr >= ctxBase && addr+n <= ctxBase+192:
		return 3, int(addr - ctxBase)
	}
	return 0, 0
}

func le(b []byte) uint64 {
	var v uint64
	for i := len(b) - 1; i >= 0; i-- {
		v = v<<8 | uint64(b[i])
	}
	return v
}

func (m *mach) load(e *env, addr uint64, n int) (uint64, bool) {
	r, i := region(addr, uint64(n))
	switch r {
	case 1:
		for k := 0; k < n; k++ {
			if !m.stackOK[i+k] {
				return 0, false
			}
		}
		return le(m.stack[i : i+n]), true
	case 2:
		if i+n > len(m.st) {
			return 0, false
		}
		return le(m.st[i : i+n]), true
	case 3:
		if n == 4 && i == 48 {
			return uint64(e.cb0), true
		}
		if n == 4 && i == 52 {
			return uint64(e.cb1), true
		}
	}
	return 0, false
}

func (m *mach) store(addr uint64, n int, v uint64) bool {
	r, i := region(addr, uint64(n))
	switch r {
	case 1:
		for k := 0; k < n; k++ {
			m.stack[i+k] = byte(v >> (8 * k))
			m.stackOK[i+k] = true
		}
		return true
	case 2:
		if i+n > len(m.st) {
			return false
		}
		for k := 0; k < n; k++ {
			m.st[i+k] = byte(v >> (8 * k))
		}
		return true
	}
	return false
}

func mapHandle(fd int) uint64 { return mapHandleBase + uint64(int64(fd)) }

func alu(code uint8, d, s uint64, w uint) (uint64, bool) {
	switch code {
	case 0x0:
		return d + s, true
	case 0x4:
		return d | s, true
	case 0x5:
		return d & s, true
	case 0x6:
		return d << (s % uint64(w)), true
	case 0xb:
		return s, true
	}
	return 0, false
}

func cond(code uint8, d, s uint64) (bool, bool) {
	switch code {
	case 0x1:
		return d == s, true
	case 0x2:
		return d > s, true
	case 0x3:
		return d >= s, true
	case 0x5:
		return d != s, true
	case 0xa:
		return d < s, true
	case 0xb:
		return d <= s, true
	}
	return false, false
}

func (m *mach) ipsetLookup(e *env, i int) (bool, bool) {
	n := 20
	if e.c.V6 {
		n = 32
	}
	if i+n > stackSize {
		return false, false
	}
	for k := 0; k < n; k++ {
		if !m.stackOK[i+k] {
			return false, false
		}
	}
	k := m.stack[i : i+n]
	pfx := binary.LittleEndian.Uint32(k[0:4])
	id := binary.BigEndian.Uint64(k[4:12])
	al := 4
	want := uint32(128)
	if e.c.V6 {
		al = 16
		want = 224
	}
	var addr [16]byte
	copy(addr[:], k[12:12+al])
	rest := k[12+al:]
	port := binary.LittleEndian.Uint16(rest[0:2])
	proto := rest[2]
	pad := rest[3]
	if pfx != want || pad != 0 {
		return false, false
	}
	for _, mb := range e.members {
		if mb.ID == id && mb.Addr == addr && mb.Port == port && mb.Proto == proto {
			return true, true
		}
	}
	return false, true
}

// run executes one program. Jumps must be forward.
func run(e *env, prog asm.Insns, st []byte) outcome {
	m := newMach(st)
	pc := 0
	fault := outcome{kind: "fault"}
	for {
		if pc >= len(prog) {
			return fault
		}
		in := prog[pc]
		op := uint8(in.OpCode())
		dst, src := int(in.Dst()), int(in.Src())
		off, imm := in.Off(), in.Imm()
		cls := op % 8
		code := op / 16
		srcReg := (op/8)%2 == 1
		simm := uint64(int64(imm))
		switch {
		case op == 0x18:
			if pc+1 >= len(prog) || prog[pc+1].OpCode() != 0 || dst >= 10 {
				return fault
			}
			if src == 1 {
				m.regs[dst], m.valid[dst] = mapHandle(int(imm)), true
			} else if src == 0 {
				m.regs[dst], m.valid[dst] = uint64(uint32(imm))|uint64(uint32(prog[pc+1].Imm()))<<32, true
			} else {
				return fault
			}
			pc += 2
		case cls == 7 || cls == 4:
			if dst >= 10 {
				return fault
			}
			var s uint64
			if srcReg {
				if src > 10 || !m.valid[src] {
					return fault
				}
				s = m.regs[src]
			} else {
				s = simm
			}
			d := m.regs[dst]
			if code != 0xb && !m.valid[dst] {
				return fault
			}
			if code == 0xb && !m.valid[dst] {
				d = 0
			}
			if cls == 7 {
				v, ok := alu(code, d, s, 64)
				if !ok {
					return fault
				}
				m.regs[dst], m.valid[dst] = v, true
			} else {
				v, ok := alu(code, uint64(uint32(d)), uint64(uint32(s)), 32)
				if !ok {
					return fault
				}
				m.regs[dst], m.valid[dst] = uint64(uint32(v)), true
			}
			pc++
		case cls == 5 || cls == 6:
			taken := false
			switch {
			case op == 0x05:
				taken = true
			case op == 0x95:
				if !m.valid[0] {
					return fault
				}
				return outcome{kind: "exit", target: m.regs[0], st: m.st}
			case op == 0x85:
				switch imm {
				case 1:
					if !m.valid[1] || !m.valid[2] {
						return fault
					}
					r1, r2 := m.regs[1], m.regs[2]
					if r1 == mapHandle(e.c.FDs[1]) {
						k, ok := m.load(e, r2, 4)
						if !ok {
							return fault
						}
						m.clobber()
						if k == 0 && e.stateOK {
							m.regs[0] = stateBase
						} else {
							m.regs[0] = 0
						}
						m.valid[0] = true
					} else if r1 == mapHandle(e.c.FDs[0]) {
						n := uint64(20)
						if e.c.V6 {
							n = 32
						}
						rg, i := region(r2, n)
						if rg != 1 {
							return fault
						}
						hit, ok := m.ipsetLookup(e, i)
						if !ok {
							return fault
						}
						m.clobber()
						if hit {
							m.regs[0] = ipsetValPtr
						} else {
							m.regs[0] = 0
						}
						m.valid[0] = true
					} else {
						return fault
					}
				case 12:
					if !m.valid[1] || !m.valid[2] || !m.valid[3] {
						return fault
					}
					if m.regs[1] != ctxBase {
						return fault
					}
					idx := uint64(uint32(m.regs[3]))
					if m.regs[2] == mapHandle(e.c.FDs[2]) {
						if e.tailOK {
							return outcome{kind: "tail", target: idx, fd: e.c.FDs[2], st: m.st}
						}
					} else if m.regs[2] == mapHandle(e.c.FDs[3]) {
						if e.polTailOK {
							return outcome{kind: "tail", target: idx, fd: e.c.FDs[3], st: m.st}
						}
					} else {
						return fault
					}
					m.clobber()
					m.regs[0], m.valid[0] = ^uint64(1), true // -2
				default:
					return fault
				}
			default:
				if dst > 10 || !m.valid[dst] {
					return fault
				}
				var s uint64
				if srcReg {
					if src > 10 || !m.valid[src] {
						return fault
					}
					s = m.regs[src]
				} else {
					s = simm
				}
				d := m.regs[dst]
				if cls == 6 {
					d, s = uint64(uint32(d)), uint64(uint32(s))
				}
				t, ok := cond(code, d, s)
				if !ok {
					return fault
				}
				taken = t
			}
			if taken {
				if off < 0 {
					return fault
				}
				pc += 1 + int(off)
			} else {
				pc++
			}
		case cls == 1:
			n := map[uint8]int{0x71: 1, 0x69: 2, 0x61: 4, 0x79: 8}[op]
			if n == 0 || dst >= 10 || src > 10 || !m.valid[src] {
				return fault
			}
			v, ok := m.load(e, m.regs[src]+uint64(int64(off)), n)
			if !ok {
				return fault
			}
			m.regs[dst], m.valid[dst] = v, true
			pc++
		case cls == 3:
			n := map[uint8]int{0x73: 1, 0x6b: 2, 0x63: 4, 0x7b: 8}[op]
			if n == 0 || dst > 10 || src > 10 || !m.valid[dst] || !m.valid[src] {
				return fault
			}
			if !m.store(m.regs[dst]+uint64(int64(off)), n, m.regs[src]) {
				return fault
			}
			pc++
		default:
			return fault
		}
	}
}

// runChain follows tail calls through the policy jump map into later programs.
func runChain(e *env, progs []asm.Insns, st []byte) outcome {
	k := 0
	for {
		if k >= len(progs) {
			return outcome{kind: "fault"}
		}
		o := run(e, progs[k], st)
		if o.kind == "tail" && o.fd == e.c.FDs[3] && o.fd != e.c.FDs[2] {
			d := int64(o.target) - int64(e.c.PolIdx)
			if e.c.PolStride > 0 && d >= 0 && d%int64(e.c.PolStride) == 0 {
				k2 := int(d / int64(e.c.PolStride))
				if k < k2 && k2 < len(progs) {
					k, st = k2, o.st
					continue
				}
			}
			return outcome{kind: "fault"}
		}
		return o
	}
}

var _ = bits.ReverseBytes32
