package main

// Generated configuration (the harness' own description of a polprog.Rules +
// builder options), its encoding as a protocol line, and its conversion to the
// REAL types.

import (
	"fmt"
	"math/big"
	"net"
	"strconv"
	"strings"

	"github.com/projectcalico/calico/felix/bpf/polprog"
	"github.com/projectcalico/calico/felix/proto"
)

type gNet struct {
	V6   bool
	Addr *big.Int // numeric address (32 or 128 bit)
	Pfx  int
}

type gPorts struct{ First, Last int32 }

type gProto struct {
	IsName bool
	Name   string
	Num    int32
}

type gIcmp struct {
	Kind int // 0 none, 1 type, 2 type+code
	T, C int32
}

type gRule struct {
	Action                               string
	MatchID                              uint64
	IPVer                                int
	Proto, NotProto                      *gProto
	SrcNet, NotSrcNet, DstNet, NotDstNet []gNet
	SrcSets, NotSrcSets, DstSets         []uint64
	NotDstSets, DstPortSets              []uint64
	SrcPorts, NotSrcPorts                []gPorts
	DstPorts, NotDstPorts                []gPorts
	SrcNamed, NotSrcNamed                []uint64
	DstNamed, NotDstNamed                []uint64
	Icmp, NotIcmp                        gIcmp
}

type gPolicy struct{ Rules []gRule }

type gTier struct {
	End      string // d p u
	EndID    uint64
	Policies []gPolicy
}

type gCfg struct {
	V6, FlowLogs, Debug, UseJmps bool
	AllowJmp, DenyJmp            int
	PolIdx, PolStride            int
	MaxJumps                     int
	TrampStride                  int
	FDs                          [4]int // ipset, state, static, poljump
	HostIface, Suppress, XDP     bool
	NoProfileID                  uint64
	T, HP, HF, HN                []gTier
	P, HPR                       []gPolicy
}

func recBits(c *gCfg) int {
	v := 0
	if c.FlowLogs {
		v |= 1
	}
	if c.Debug {
		v |= 2
	}
	return v
}

func b01(b bool) string {
	if b {
		return "1"
	}
	return "0"
}

func u64s(xs []uint64) string {
	s := make([]string, len(xs))
	for i, x := range xs {
		s[i] = strconv.FormatUint(x, 10)
	}
	return strings.Join(s, ",")
}

func netsS(ns []gNet) string {
	s := make([]string, len(ns))
	for i, n := range ns {
		f := "4"
		if n.V6 {
			f = "6"
		}
		s[i] = fmt.Sprintf("%s:%s/%d", f, n.Addr.String(), n.Pfx)
	}
	return strings.Join(s, ",")
}

func portsS(ps []gPorts) string {
	s := make([]string, len(ps))
	for i, p := range ps {
		s[i] = fmt.Sprintf("%d..%d", p.First, p.Last)
	}
	return strings.Join(s, ",")
}

func protoS(p *gProto) string {
	if p.IsName {
		return "S" + p.Name
	}
	return fmt.Sprintf("N%d", p.Num)
}

func icmpS(i gIcmp) string {
	if i.Kind == 1 {
		return fmt.Sprintf("%d", i.T)
	}
	return fmt.Sprintf("%d/%d", i.T, i.C)
}

func (r *gRule) tokens() []string {
	t := []string{fmt.Sprintf("r:%s:%d:%d", r.Action, r.MatchID, r.IPVer)}
	add := func(k, v string) { t = append(t, k+"="+v) }
	if r.Proto != nil {
		add("pr", protoS(r.Proto))
	}
	if r.NotProto != nil {
		add("npr", protoS(r.NotProto))
	}
	for _, x := range []struct {
		k string
		n []gNet
	}{{"sn", r.SrcNet}, {"nsn", r.NotSrcNet}, {"dn", r.DstNet}, {"ndn", r.NotDstNet}} {
		if len(x.n) > 0 {
			add(x.k, netsS(x.n))
		}
	}
	for _, x := range []struct {
		k string
		n []uint64
	}{{"ss", r.SrcSets}, {"nss", r.NotSrcSets}, {"ds", r.DstSets}, {"nds", r.NotDstSets}, {"dps", r.DstPortSets},
		{"spn", r.SrcNamed}, {"nspn", r.NotSrcNamed}, {"dpn", r.DstNamed}, {"ndpn", r.NotDstNamed}} {
		if len(x.n) > 0 {
			add(x.k, u64s(x.n))
		}
	}
	for _, x := range []struct {
		k string
		n []gPorts
	}{{"sp", r.SrcPorts}, {"nsp", r.NotSrcPorts}, {"dp", r.DstPorts}, {"ndp", r.NotDstPorts}} {
		if len(x.n) > 0 {
			add(x.k, portsS(x.n))
		}
	}
	if r.Icmp.Kind != 0 {
		add("ic", icmpS(r.Icmp))
	}
	if r.NotIcmp.Kind != 0 {
		add("nic", icmpS(r.NotIcmp))
	}
	return t
}

func (c *gCfg) line() string {
	t := []string{"prog",
		fmt.Sprintf("o:%s:%d:%s:%d:%d:%d:%d:%d:%d:%d:%d:%d:%d", b01(c.V6), recBits(c), b01(c.UseJmps),
			c.AllowJmp, c.DenyJmp, c.PolIdx, c.PolStride, c.MaxJumps, c.TrampStride, c.FDs[0], c.FDs[1], c.FDs[2], c.FDs[3]),
		fmt.Sprintf("f:%s:%s:%s:%d", b01(c.HostIface), b01(c.Suppress), b01(c.XDP), c.NoProfileID)}
	tiers := func(tag string, ts []gTier) {
		if len(ts) == 0 {
			return
		}
		t = append(t, tag)
		for _, ti := range ts {
			t = append(t, fmt.Sprintf("t:%s:%d", ti.End, ti.EndID))
			for _, p := range ti.Policies {
				t = append(t, "p")
				for i := range p.Rules {
					t = append(t, p.Rules[i].tokens()...)
				}
			}
		}
	}
	profs := func(tag string, ps []gPolicy) {
		if len(ps) == 0 {
			return
		}
		t = append(t, tag)
		for _, p := range ps {
			t = append(t, "p")
			for i := range p.Rules {
				t = append(t, p.Rules[i].tokens()...)
			}
		}
	}
	tiers("HP", c.HP)
	tiers("HF", c.HF)
	tiers("HN", c.HN)
	profs("HPR", c.HPR)
	tiers("T", c.T)
	profs("P", c.P)
	return strings.Join(t, " ")
}

// ---- conversion to the real types -----------------------------------------

func (n gNet) String() string {
	var ip net.IP
	if n.V6 {
		b := n.Addr.FillBytes(make([]byte, 16))
		ip = net.IP(b)
		// net.IP.String prints v4-mapped addresses in dotted form; keep pure v6 text
		s := ip.String()
		if !strings.Contains(s, ":") {
			s = "::ffff:" + s
		}
		return fmt.Sprintf("%s/%d", s, n.Pfx)
	}
	b := n.Addr.FillBytes(make([]byte, 4))
	ip = net.IP(b)
	return fmt.Sprintf("%s/%d", ip.String(), n.Pfx)
}

func netStrs(ns []gNet) []string {
	var out []string
	for _, n := range ns {
		out = append(out, n.String())
	}
	return out
}

func setNames(ids []uint64) []string {
	var out []string
	for _, id := range ids {
		out = append(out, fmt.Sprintf("s:%d", id))
	}
	return out
}

func protoPorts(ps []gPorts) []*proto.PortRange {
	var out []*proto.PortRange
	for _, p := range ps {
		out = append(out, &proto.PortRange{First: p.First, Last: p.Last})
	}
	return out
}

func toProto(p *gProto) *proto.Protocol {
	if p == nil {
		return nil
	}
	if p.IsName {
		return &proto.Protocol{NumberOrName: &proto.Protocol_Name{Name: p.Name}}
	}
	return &proto.Protocol{NumberOrName: &proto.Protocol_Number{Number: p.Num}}
}

func (r *gRule) real() polprog.Rule {
	pr := &proto.Rule{
		Action:                  r.Action,
		IpVersion:               proto.IPVersion(r.IPVer),
		Protocol:                toProto(r.Proto),
		NotProtocol:             toProto(r.NotProto),
		SrcNet:                  netStrs(r.SrcNet),
		NotSrcNet:               netStrs(r.NotSrcNet),
		DstNet:                  netStrs(r.DstNet),
		NotDstNet:               netStrs(r.NotDstNet),
		SrcIpSetIds:             setNames(r.SrcSets),
		NotSrcIpSetIds:          setNames(r.NotSrcSets),
		DstIpSetIds:             setNames(r.DstSets),
		NotDstIpSetIds:          setNames(r.NotDstSets),
		DstIpPortSetIds:         setNames(r.DstPortSets),
		SrcPorts:                protoPorts(r.SrcPorts),
		NotSrcPorts:             protoPorts(r.NotSrcPorts),
		DstPorts:                protoPorts(r.DstPorts),
		NotDstPorts:             protoPorts(r.NotDstPorts),
		SrcNamedPortIpSetIds:    setNames(r.SrcNamed),
		NotSrcNamedPortIpSetIds: setNames(r.NotSrcNamed),
		DstNamedPortIpSetIds:    setNames(r.DstNamed),
		NotDstNamedPortIpSetIds: setNames(r.NotDstNamed),
	}
	switch r.Icmp.Kind {
	case 1:
		pr.Icmp = &proto.Rule_IcmpType{IcmpType: r.Icmp.T}
	case 2:
		pr.Icmp = &proto.Rule_IcmpTypeCode{IcmpTypeCode: &proto.IcmpTypeAndCode{Type: r.Icmp.T, Code: r.Icmp.C}}
	}
	switch r.NotIcmp.Kind {
	case 1:
		pr.NotIcmp = &proto.Rule_NotIcmpType{NotIcmpType: r.NotIcmp.T}
	case 2:
		pr.NotIcmp = &proto.Rule_NotIcmpTypeCode{NotIcmpTypeCode: &proto.IcmpTypeAndCode{Type: r.NotIcmp.T, Code: r.NotIcmp.C}}
	}
	return polprog.Rule{Rule: pr, MatchID: r.MatchID}
}

func realPolicies(ps []gPolicy) []polprog.Policy {
	var out []polprog.Policy
	for i, p := range ps {
		rp := polprog.Policy{Name: fmt.Sprintf("pol%d", i), Kind: "GlobalNetworkPolicy"}
		for j := range p.Rules {
			rp.Rules = append(rp.Rules, p.Rules[j].real())
		}
		out = append(out, rp)
	}
	return out
}

func realTiers(ts []gTier) []polprog.Tier {
	var out []polprog.Tier
	for i, t := range ts {
		rt := polprog.Tier{Name: fmt.Sprintf("tier%d", i), EndRuleID: t.EndID, Policies: realPolicies(t.Policies)}
		switch t.End {
		case "d":
			rt.EndAction = polprog.TierEndDeny
		case "p":
			rt.EndAction = polprog.TierEndPass
		default:
			rt.EndAction = polprog.TierEndUndef
		}
		out = append(out, rt)
	}
	return out
}

func (c *gCfg) realRules() polprog.Rules {
	return polprog.Rules{
		ForHostInterface:         c.HostIface,
		SuppressNormalHostPolicy: c.Suppress,
		ForXDP:                   c.XDP,
		NoProfileMatchID:         c.NoProfileID,
		Tiers:                    realTiers(c.T),
		Profiles:                 realPolicies(c.P),
		HostPreDnatTiers:         realTiers(c.HP),
		HostForwardTiers:         realTiers(c.HF),
		HostNormalTiers:          realTiers(c.HN),
		HostProfiles:             realPolicies(c.HPR),
	}
}

// ---- parsing a protocol line back (replay / shrinking) ---------------------

func parseU64s(s string) []uint64 {
	var out []uint64
	for _, t := range strings.Split(s, ",") {
		v, err := strconv.ParseUint(t, 10, 64)
		if err != nil {
			panic("bad u64 list " + s)
		}
		out = append(out, v)
	}
	return out
}

func parseNetsS(s string) []gNet {
	var out []gNet
	for _, t := range strings.Split(s, ",") {
		f := strings.SplitN(t, ":", 2)
		ap := strings.SplitN(f[1], "/", 2)
		a, ok := new(big.Int).SetString(ap[0], 10)
		if !ok {
			panic("bad net " + t)
		}
		p, _ := strconv.Atoi(ap[1])
		out = append(out, gNet{V6: f[0] == "6", Addr: a, Pfx: p})
	}
	return out
}

func parsePortsS(s string) []gPorts {
	var out []gPorts
	for _, t := range strings.Split(s, ",") {
		ab := strings.SplitN(t, "..", 2)
		a, _ := strconv.ParseInt(ab[0], 10, 32)
		b, _ := strconv.ParseInt(ab[1], 10, 32)
		out = append(out, gPorts{int32(a), int32(b)})
	}
	return out
}

func parseProtoS(s string) *gProto {
	if strings.HasPrefix(s, "S") {
		return &gProto{IsName: true, Name: s[1:]}
	}
	n, _ := strconv.ParseInt(s[1:], 10, 32)
	return &gProto{Num: int32(n)}
}

func parseIcmpS(s string) gIcmp {
	tc := strings.Split(s, "/")
	t, _ := strconv.ParseInt(tc[0], 10, 32)
	if len(tc) == 1 {
		return gIcmp{Kind: 1, T: int32(t)}
	}
	c, _ := strconv.ParseInt(tc[1], 10, 32)
	return gIcmp{Kind: 2, T: int32(t), C: int32(c)}
}

func atoi(s string) int {
	v, err := strconv.Atoi(s)
	if err != nil {
		panic("bad int " + s)
	}
	return v
}

func parseCfgLine(line string) *gCfg {
	w := strings.Fields(line)
	c := &gCfg{}
	o := strings.Split(w[1], ":")
	c.V6, c.FlowLogs, c.Debug, c.UseJmps = o[1] == "1", atoi(o[2])&1 != 0, atoi(o[2])&2 != 0, o[3] == "1"
	c.AllowJmp, c.DenyJmp, c.PolIdx, c.PolStride, c.MaxJumps, c.TrampStride = atoi(o[4]), atoi(o[5]), atoi(o[6]), atoi(o[7]), atoi(o[8]), atoi(o[9])
	for i := 0; i < 4; i++ {
		c.FDs[i] = atoi(o[10+i])
	}
	f := strings.Split(w[2], ":")
	c.HostIface, c.Suppress, c.XDP = f[1] == "1", f[2] == "1", f[3] == "1"
	c.NoProfileID, _ = strconv.ParseUint(f[4], 10, 64)
	var curTiers *[]gTier
	var curProfs *[]gPolicy
	var curPols *[]gPolicy
	var curRule *gRule
	for _, tok := range w[3:] {
		switch tok {
		case "T":
			curTiers, curProfs = &c.T, nil
			continue
		case "HP":
			curTiers, curProfs = &c.HP, nil
			continue
		case "HF":
			curTiers, curProfs = &c.HF, nil
			continue
		case "HN":
			curTiers, curProfs = &c.HN, nil
			continue
		case "P":
			curProfs, curTiers, curPols = &c.P, nil, &c.P
			continue
		case "HPR":
			curProfs, curTiers, curPols = &c.HPR, nil, &c.HPR
			continue
		case "p":
			*curPols = append(*curPols, gPolicy{})
			continue
		}
		_ = curProfs
		if strings.HasPrefix(tok, "t:") {
			p := strings.Split(tok, ":")
			id, _ := strconv.ParseUint(p[2], 10, 64)
			*curTiers = append(*curTiers, gTier{End: p[1], EndID: id})
			curPols = &(*curTiers)[len(*curTiers)-1].Policies
			continue
		}
		if strings.HasPrefix(tok, "r:") {
			p := strings.Split(tok, ":")
			id, _ := strconv.ParseUint(p[2], 10, 64)
			pol := &(*curPols)[len(*curPols)-1]
			pol.Rules = append(pol.Rules, gRule{Action: p[1], MatchID: id, IPVer: atoi(p[3])})
			curRule = &pol.Rules[len(pol.Rules)-1]
			continue
		}
		kv := strings.SplitN(tok, "=", 2)
		r := curRule
		switch kv[0] {
		case "pr":
			r.Proto = parseProtoS(kv[1])
		case "npr":
			r.NotProto = parseProtoS(kv[1])
		case "sn":
			r.SrcNet = parseNetsS(kv[1])
		case "nsn":
			r.NotSrcNet = parseNetsS(kv[1])
		case "dn":
			r.DstNet = parseNetsS(kv[1])
		case "ndn":
			r.NotDstNet = parseNetsS(kv[1])
		case "ss":
			r.SrcSets = parseU64s(kv[1])
		case "nss":
			r.NotSrcSets = parseU64s(kv[1])
		case "ds":
			r.DstSets = parseU64s(kv[1])
		case "nds":
			r.NotDstSets = parseU64s(kv[1])
		case "dps":
			r.DstPortSets = parseU64s(kv[1])
		case "sp":
			r.SrcPorts = parsePortsS(kv[1])
		case "nsp":
			r.NotSrcPorts = parsePortsS(kv[1])
		case "dp":
			r.DstPorts = parsePortsS(kv[1])
		case "ndp":
			r.NotDstPorts = parsePortsS(kv[1])
		case "spn":
			r.SrcNamed = parseU64s(kv[1])
		case "nspn":
			r.NotSrcNamed = parseU64s(kv[1])
		case "dpn":
			r.DstNamed = parseU64s(kv[1])
		case "ndpn":
			r.NotDstNamed = parseU64s(kv[1])
		case "ic":
			r.Icmp = parseIcmpS(kv[1])
		case "nic":
			r.NotIcmp = parseIcmpS(kv[1])
		default:
			panic("bad token " + tok)
		}
	}
	return c
}
