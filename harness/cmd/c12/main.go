// C12 correspondence harness: the same workload policy state (tiers + profiles,
// rules with protocol / not-protocol criteria and literal IPv4 CIDR matches, positive and
// negated, on both legs) and the same flow are evaluated by
//
//	alp: the REAL app-policy checker (checker.Evaluate),
//	bpf: the REAL BPF policy-program builder + the eBPF interpreter of C11,
//	ipt: the REAL iptables renderer (felix/rules) + a small evaluator of the
//	     rendered chains (mark/protocol matches, jump/return/set-mark/drop).
//
// Canonical output: `alp=<v> bpf=<v> ipt=<v>`; the Lean driver prints the three
// MODEL verdicts.  Property oracle: the three real verdicts must be equal
// (signature `profile-pass` when the disagreement involves a profile rule with
// action pass/next-tier).
package main

import (
	"fmt"
	"regexp"
	"strconv"
	"strings"

	"github.com/projectcalico/calico/app-policy/checker"
	"github.com/projectcalico/calico/app-policy/policystore"
	"github.com/projectcalico/calico/felix/bpf/asm"
	"github.com/projectcalico/calico/felix/bpf/maps"
	"github.com/projectcalico/calico/felix/bpf/polprog"
	intdataplane "github.com/projectcalico/calico/felix/dataplane/linux"
	"github.com/projectcalico/calico/felix/generictables"
	"github.com/projectcalico/calico/felix/ipsets"
	"github.com/projectcalico/calico/felix/iptables"
	"github.com/projectcalico/calico/felix/proto"
	"github.com/projectcalico/calico/felix/rules"
	"github.com/projectcalico/calico/felix/types"

	"net"

	"verif/harness/rt"
)

func fdOf(i int) maps.FD { return maps.FD(uint32(i)) }

type idProvider struct{}

func (idProvider) GetNoAlloc(name string) uint64 { return 0 }

// ---- configuration --------------------------------------------------------------

type cRule struct {
	Act       string // allow deny pass next-tier log
	Pr, NotPr string // "" or number or name
	// literal CIDRs, encoded <8 hex digits>_<prefix length> (IPv4) or <32 hex digits>_<prefix length> (IPv6)
	Src, NotSrc, Dst, NotDst []string
	IPVer                    int // proto.Rule.IpVersion: 0 (any), 4, 6
}

func (r *cRule) hasNets() bool { return len(r.Src)+len(r.NotSrc)+len(r.Dst)+len(r.NotDst) > 0 || r.IPVer != 0 }

func isV6Enc(e string) bool { return len(strings.Split(e, "_")[0]) == 32 }

// otherFamily: the rule names the other IP family (explicit version 6, or an IPv6 CIDR).
func (r *cRule) otherFamily() bool {
	if r.IPVer == 6 {
		return true
	}
	for _, l := range [][]string{r.Src, r.NotSrc, r.Dst, r.NotDst} {
		for _, e := range l {
			if isV6Enc(e) {
				return true
			}
		}
	}
	return false
}

// cidrStr turns the encoded CIDR into the API string (a.b.c.d/n).
func cidrStr(e string) string {
	f := strings.Split(e, "_")
	if len(f[0]) == 32 {
		ip := make(net.IP, 16)
		for i := 0; i < 16; i++ {
			b, _ := strconv.ParseUint(f[0][2*i:2*i+2], 16, 8)
			ip[i] = byte(b)
		}
		return ip.String() + "/" + f[1]
	}
	v, _ := strconv.ParseUint(f[0], 16, 32)
	return fmt.Sprintf("%d.%d.%d.%d/%s", byte(v>>24), byte(v>>16), byte(v>>8), byte(v), f[1])
}

func cidrStrs(es []string) []string {
	var out []string
	for _, e := range es {
		out = append(out, cidrStr(e))
	}
	return out
}

func cNetsS(es []string) string {
	if len(es) == 0 {
		return "x"
	}
	return strings.Join(es, "+")
}

func cParseNetsS(s string) []string {
	if s == "x" {
		return nil
	}
	return strings.Split(s, "+")
}

type cTier struct {
	Pass     bool
	Policies [][]cRule
	Staged   []bool // per policy: a Staged* kind (not enforced)
}

func (t *cTier) staged(i int) bool { return i < len(t.Staged) && t.Staged[i] }

func kindOf(staged bool) string {
	if staged {
		return "StagedGlobalNetworkPolicy"
	}
	return "GlobalNetworkPolicy"
}

type cCfg struct {
	Src, Dst uint32 // flow addresses (default 10.0.0.1 -> 10.0.0.2)
	Proto    int
	Tiers    []cTier
	Profiles [][]cRule
}

var actCode = map[string]string{"allow": "a", "deny": "d", "pass": "p", "next-tier": "n", "log": "l"}
var codeAct = map[string]string{"a": "allow", "d": "deny", "p": "pass", "n": "next-tier", "l": "log"}

func rulesS(rs []cRule) string {
	if len(rs) == 0 {
		return "_"
	}
	var out []string
	for _, r := range rs {
		pr, np := r.Pr, r.NotPr
		if pr == "" {
			pr = "x"
		}
		if np == "" {
			np = "x"
		}
		tok := actCode[r.Act] + "." + pr + "." + np
		if r.hasNets() {
			tok += "." + cNetsS(r.Src) + "." + cNetsS(r.NotSrc) + "." + cNetsS(r.Dst) + "." + cNetsS(r.NotDst)
			if r.IPVer != 0 {
				tok += "." + strconv.Itoa(r.IPVer)
			}
		}
		out = append(out, tok)
	}
	return strings.Join(out, ",")
}

func (c *cCfg) line() string {
	var ts, ps []string
	for _, t := range c.Tiers {
		var pols []string
		for i, p := range t.Policies {
			pre := ""
			if t.staged(i) {
				pre = "~"
			}
			pols = append(pols, pre+rulesS(p))
		}
		e := "D"
		if t.Pass {
			e = "P"
		}
		ts = append(ts, e+":"+strings.Join(pols, "/"))
	}
	for _, p := range c.Profiles {
		ps = append(ps, rulesS(p))
	}
	t, f := "-", "-"
	if len(ts) > 0 {
		t = strings.Join(ts, "|")
	}
	if len(ps) > 0 {
		f = strings.Join(ps, "|")
	}
	if c.Src == defSrc && c.Dst == defDst {
		return fmt.Sprintf("chk p=%d t=%s f=%s", c.Proto, t, f)
	}
	return fmt.Sprintf("chk p=%d s=%08x d=%08x t=%s f=%s", c.Proto, c.Src, c.Dst, t, f)
}

const defSrc, defDst = 0x0a000001, 0x0a000002

func parseRulesS(s string) []cRule {
	if s == "_" {
		return nil
	}
	var out []cRule
	for _, t := range strings.Split(s, ",") {
		f := strings.Split(t, ".")
		if (len(f) != 3 && len(f) != 7 && len(f) != 8) || codeAct[f[0]] == "" {
			panic("bad rule " + t)
		}
		r := cRule{Act: codeAct[f[0]]}
		if f[1] != "x" {
			r.Pr = f[1]
		}
		if f[2] != "x" {
			r.NotPr = f[2]
		}
		if len(f) >= 7 {
			r.Src, r.NotSrc, r.Dst, r.NotDst = cParseNetsS(f[3]), cParseNetsS(f[4]), cParseNetsS(f[5]), cParseNetsS(f[6])
		}
		if len(f) == 8 {
			r.IPVer, _ = strconv.Atoi(f[7])
		}
		out = append(out, r)
	}
	return out
}

func parseLine(op string) *cCfg {
	w := strings.Fields(op)
	if (len(w) != 4 && len(w) != 6) || w[0] != "chk" {
		return nil
	}
	c := &cCfg{Src: defSrc, Dst: defDst}
	c.Proto, _ = strconv.Atoi(strings.TrimPrefix(w[1], "p="))
	if len(w) == 6 {
		sv, _ := strconv.ParseUint(strings.TrimPrefix(w[2], "s="), 16, 32)
		dv, _ := strconv.ParseUint(strings.TrimPrefix(w[3], "d="), 16, 32)
		c.Src, c.Dst = uint32(sv), uint32(dv)
		w = []string{w[0], w[1], w[4], w[5]}
	}
	t := strings.TrimPrefix(w[2], "t=")
	if t != "-" {
		for _, ts := range strings.Split(t, "|") {
			ep := strings.SplitN(ts, ":", 2)
			ti := cTier{Pass: ep[0] == "P"}
			for _, p := range strings.Split(ep[1], "/") {
				st := strings.HasPrefix(p, "~")
				ti.Policies = append(ti.Policies, parseRulesS(strings.TrimPrefix(p, "~")))
				ti.Staged = append(ti.Staged, st)
			}
			c.Tiers = append(c.Tiers, ti)
		}
	}
	f := strings.TrimPrefix(w[3], "f=")
	if f != "-" {
		for _, p := range strings.Split(f, "|") {
			c.Profiles = append(c.Profiles, parseRulesS(p))
		}
	}
	return c
}

func toProtoP(s string) *proto.Protocol {
	if s == "" {
		return nil
	}
	if n, err := strconv.Atoi(s); err == nil {
		return &proto.Protocol{NumberOrName: &proto.Protocol_Number{Number: int32(n)}}
	}
	return &proto.Protocol{NumberOrName: &proto.Protocol_Name{Name: s}}
}

// alpFilterFamily: feed the checker only what rules.FilterRuleToIPVersion(4, ·) (the REAL function the
// dataplanes apply) leaves of each rule; used only to attribute a disagreement to the known finding.
var alpFilterFamily bool

func protoRulesAlp(rs []cRule) []*proto.Rule {
	out := protoRules(rs)
	if !alpFilterFamily {
		return out
	}
	var keep []*proto.Rule
	for _, r := range out {
		if f := rules.FilterRuleToIPVersion(4, r); f != nil {
			keep = append(keep, f)
		}
	}
	return keep
}

func protoRules(rs []cRule) []*proto.Rule {
	var out []*proto.Rule
	for _, r := range rs {
		out = append(out, &proto.Rule{Action: r.Act, Protocol: toProtoP(r.Pr), NotProtocol: toProtoP(r.NotPr),
			SrcNet: cidrStrs(r.Src), NotSrcNet: cidrStrs(r.NotSrc), DstNet: cidrStrs(r.Dst), NotDstNet: cidrStrs(r.NotDst),
			IpVersion: proto.IPVersion(r.IPVer)})
	}
	return out
}

func (c *cCfg) hasOtherFamily() bool {
	for _, t := range c.Tiers {
		for _, p := range t.Policies {
			for i := range p {
				if p[i].otherFamily() {
					return true
				}
			}
		}
	}
	for _, p := range c.Profiles {
		for i := range p {
			if p[i].otherFamily() {
				return true
			}
		}
	}
	return false
}

func (c *cCfg) hasProfilePass() bool {
	for _, p := range c.Profiles {
		for _, r := range p {
			if r.Act == "pass" || r.Act == "next-tier" {
				return true
			}
		}
	}
	return false
}

// ---- alp: the real app-policy checker ------------------------------------------------

type flow struct {
	proto    int
	src, dst uint32
}

func ip4(v uint32) net.IP { return net.IPv4(byte(v>>24), byte(v>>16), byte(v>>8), byte(v)) }

func (f flow) GetSourceIP() net.IP                  { return ip4(f.src) }
func (f flow) GetDestIP() net.IP                    { return ip4(f.dst) }
func (f flow) GetSourcePort() int                   { return 1234 }
func (f flow) GetDestPort() int                     { return 80 }
func (f flow) GetProtocol() int                     { return f.proto }
func (f flow) GetHttpMethod() *string               { return nil }
func (f flow) GetHttpPath() *string                 { return nil }
func (f flow) GetSourcePrincipal() *string          { return nil }
func (f flow) GetDestPrincipal() *string            { return nil }
func (f flow) GetSourceLabels() map[string]string   { return nil }
func (f flow) GetDestLabels() map[string]string     { return nil }

func polName(ti, pi int) string { return fmt.Sprintf("t%d.p%d", ti, pi) }

func alpVerdict(c *cCfg) string {
	store := policystore.NewPolicyStore()
	ep := &proto.WorkloadEndpoint{}
	for ti, t := range c.Tiers {
		da := "Deny"
		if t.Pass {
			da = "Pass"
		}
		info := &proto.TierInfo{Name: fmt.Sprintf("tier%d", ti), DefaultAction: da}
		for pi, p := range t.Policies {
			id := &proto.PolicyID{Name: polName(ti, pi), Kind: kindOf(t.staged(pi))}
			info.IngressPolicies = append(info.IngressPolicies, id)
			store.PolicyByID[types.ProtoToPolicyID(id)] = &proto.Policy{Tier: info.Name, InboundRules: protoRulesAlp(p)}
		}
		ep.Tiers = append(ep.Tiers, info)
	}
	for pi, p := range c.Profiles {
		name := fmt.Sprintf("prof%d", pi)
		ep.ProfileIds = append(ep.ProfileIds, name)
		store.ProfileByID[types.ProfileID{Name: name}] = &proto.Profile{InboundRules: protoRulesAlp(p)}
	}
	// the verdict is the status code of the real checkTiers (via the export hook); the public
	// Evaluate is run as well: it must not fail where checkTiers reached a verdict
	code := checker.VerifCheckStore(checker.EnforcedOnly, store, ep, rules.RuleDirIngress, flow{c.Proto, c.Src, c.Dst})
	_, err := checker.Evaluate(checker.EnforcedOnly, rules.RuleDirIngress, store, ep, flow{c.Proto, c.Src, c.Dst})
	switch code {
	case checker.OK:
		if err != nil {
			return "invalid"
		}
		return "allow"
	case checker.PERMISSION_DENIED:
		if err != nil {
			return "invalid"
		}
		return "deny"
	}
	return "invalid"
}

// ---- bpf: the real builder + the C11 interpreter ----------------------------------------

// endpointState builds the policy/profile maps and the endpoint's TierInfo list (ingress) that
// Felix's calculation graph would hand to the dataplanes.
func endpointState(c *cCfg) (map[types.PolicyID]*proto.Policy, map[types.ProfileID]*proto.Profile, []*proto.TierInfo, []string) {
	pols := map[types.PolicyID]*proto.Policy{}
	profs := map[types.ProfileID]*proto.Profile{}
	var tiers []*proto.TierInfo
	for ti, t := range c.Tiers {
		da := "Deny"
		if t.Pass {
			da = "Pass"
		}
		info := &proto.TierInfo{Name: fmt.Sprintf("tier%d", ti), DefaultAction: da}
		for pi, p := range t.Policies {
			id := &proto.PolicyID{Name: polName(ti, pi), Kind: kindOf(t.staged(pi))}
			info.IngressPolicies = append(info.IngressPolicies, id)
			pols[types.ProtoToPolicyID(id)] = &proto.Policy{Tier: info.Name, InboundRules: protoRules(p)}
		}
		tiers = append(tiers, info)
	}
	var names []string
	for pi, p := range c.Profiles {
		name := fmt.Sprintf("prof%d", pi)
		names = append(names, name)
		profs[types.ProfileID{Name: name}] = &proto.Profile{InboundRules: protoRules(p)}
	}
	return pols, profs, tiers, names
}

func bpfVerdict(c *cCfg) string {
	g := &gCfg{FDs: [4]int{11, 12, 13, 14}, MaxJumps: 7992, UseJmps: true, AllowJmp: 5, DenyJmp: 9, Suppress: true}
	var progs []asm.Insns
	func() {
		defer func() {
			if r := recover(); r != nil {
				progs = nil
			}
		}()
		// the REAL conversion endpoint state -> polprog.Rules (staged policies skipped, a tier with
		// only staged policies gets an end-of-tier pass): bpfEndpointManager.extractRules
		pols, profs, tiers, names := endpointState(c)
		rules := intdataplane.VerifC12ExtractRules(pols, profs, tiers, names, true)
		rules.SuppressNormalHostPolicy = true
		b := polprog.NewBuilder(idProvider{}, fdOf(11), fdOf(12), fdOf(13), fdOf(14), polprog.WithAllowDenyJumps(5, 9))
		var err error
		progs, err = b.Instructions(rules)
		if err != nil {
			progs = nil
		}
	}()
	if progs == nil {
		return "panic"
	}
	st := make([]byte, stateSize)
	st[104] = byte(c.Proto)
	// addresses in network byte order: ip_src at 8, pre-NAT dst at 40, post-NAT dst at 56
	for i := 0; i < 4; i++ {
		st[8+i] = byte(c.Src >> (24 - 8*i))
		st[40+i] = byte(c.Dst >> (24 - 8*i))
		st[56+i] = byte(c.Dst >> (24 - 8*i))
	}
	e := &env{c: g, stateOK: true, tailOK: true, polTailOK: true}
	o := runChain(e, progs, st)
	if o.kind == "tail" && o.target == 5 {
		return "allow"
	}
	if o.kind == "tail" && o.target == 9 {
		return "deny"
	}
	return "fault"
}

// ---- ipt: the real renderer + a small evaluator of the rendered chains ---------------------

var renderer rules.RuleRenderer
var rcfg = rules.Config{
	IPSetConfigV4: ipsets.NewIPVersionConfig(ipsets.IPFamilyV4, "cali", nil, nil),
	IPSetConfigV6: ipsets.NewIPVersionConfig(ipsets.IPFamilyV6, "cali", nil, nil),
	MarkAccept:    0x8, MarkPass: 0x10, MarkScratch0: 0x20, MarkScratch1: 0x40, MarkDrop: 0x80,
	MarkEndpoint: 0xff00, MarkNonCaliEndpoint: 0x0100,
	WorkloadIfacePrefixes: []string{"cali"},
}

var markRe = regexp.MustCompile(`^-m mark (! )?--mark (0x[0-9a-f]+|[0-9]+)/(0x[0-9a-f]+|[0-9]+)$`)
var protoRe = regexp.MustCompile(`^(! )?-p (\S+)$`)
var ctRe = regexp.MustCompile(`^-m conntrack --ctstate (\S+)$`)

var protoNames = map[string]int{"tcp": 6, "udp": 17, "icmp": 1, "sctp": 132, "icmpv6": 58, "udplite": 136}

type iptState struct {
	chains map[string]*generictables.Chain
	mark     uint32
	proto    int
	src, dst uint32
	unsup    string
}

var netRe = regexp.MustCompile(`^(! )?--(source|destination) (\d+)\.(\d+)\.(\d+)\.(\d+)/(\d+)$`)

// matches evaluates a rendered match fragment (a conjunction of the few criteria kinds that can
// occur for protocol-only rules on a NEW connection).
func (s *iptState) matches(frag string) bool {
	frag = strings.TrimSpace(frag)
	if frag == "" {
		return true
	}
	// split into criteria: each starts with "-m", "-p", "! -p"
	toks := strings.Fields(frag)
	var crit []string
	cur := ""
	for i := 0; i < len(toks); i++ {
		t := toks[i]
		isNet := func(x string) bool { return x == "--source" || x == "--destination" }
		starts := t == "-m" || ((t == "-p" || isNet(t)) && cur != "!") ||
			(t == "!" && i+1 < len(toks) && (toks[i+1] == "-p" || isNet(toks[i+1])))
		if starts && cur != "" {
			crit = append(crit, cur)
			cur = ""
		}
		if cur != "" {
			cur += " "
		}
		cur += t
	}
	if cur != "" {
		crit = append(crit, cur)
	}
	for _, c := range crit {
		if m := markRe.FindStringSubmatch(c); m != nil {
			v, _ := strconv.ParseUint(m[2], 0, 32)
			k, _ := strconv.ParseUint(m[3], 0, 32)
			ok := s.mark&uint32(k) == uint32(v)
			if m[1] != "" {
				ok = !ok
			}
			if !ok {
				return false
			}
		} else if m := protoRe.FindStringSubmatch(c); m != nil {
			n, err := strconv.Atoi(m[2])
			if err != nil {
				var found bool
				n, found = protoNames[strings.ToLower(m[2])]
				if !found {
					s.unsup = c
					return false
				}
			}
			ok := s.proto == n
			if m[1] != "" {
				ok = !ok
			}
			if !ok {
				return false
			}
		} else if m := netRe.FindStringSubmatch(c); m != nil {
			var a uint32
			for k := 3; k <= 6; k++ {
				b, _ := strconv.Atoi(m[k])
				a = a<<8 | uint32(b)
			}
			pl, _ := strconv.Atoi(m[7])
			var mask uint32
			if pl > 0 {
				mask = ^uint32(0) << (32 - pl)
			}
			ip := s.src
			if m[2] == "destination" {
				ip = s.dst
			}
			ok := ip&mask == a&mask
			if m[1] != "" {
				ok = !ok
			}
			if !ok {
				return false
			}
		} else if m := ctRe.FindStringSubmatch(c); m != nil {
			// the probe packet starts a NEW connection
			if !strings.Contains(m[1], "NEW") {
				return false
			}
		} else {
			s.unsup = c
			return false
		}
	}
	return true
}

// run evaluates a chain; returns "accept", "drop", or "" (returned / fell off the end).
func renderMatch(m generictables.MatchCriteria) string {
	if m == nil {
		return ""
	}
	return m.Render()
}

func (s *iptState) run(name string, depth int) string {
	ch := s.chains[name]
	if ch == nil || depth > 20 {
		s.unsup = "chain " + name
		return ""
	}
	for _, r := range ch.Rules {
		if s.unsup != "" {
			return ""
		}
		if !s.matches(renderMatch(r.Match)) {
			continue
		}
		switch a := r.Action.(type) {
		case nil:
		case iptables.JumpAction:
			if v := s.run(a.Target, depth+1); v != "" {
				return v
			}
		case iptables.GotoAction:
			return s.run(a.Target, depth+1)
		case iptables.ReturnAction:
			return ""
		case iptables.DropAction, iptables.RejectAction:
			return "drop"
		case iptables.AcceptAction:
			return "accept"
		case iptables.SetMarkAction:
			s.mark |= a.Mark
		case iptables.ClearMarkAction:
			s.mark &^= a.Mark
		case iptables.SetMaskedMarkAction:
			s.mark = (s.mark &^ a.Mask) | (a.Mark & a.Mask)
		case iptables.NflogAction, iptables.LogAction:
		default:
			s.unsup = fmt.Sprintf("action %T", r.Action)
			return ""
		}
	}
	return ""
}

func iptVerdict(c *cCfg, dump bool) string {
	s := &iptState{chains: map[string]*generictables.Chain{}, proto: c.Proto, src: c.Src, dst: c.Dst}
	add := func(chs ...*generictables.Chain) {
		for _, ch := range chs {
			if ch != nil {
				s.chains[ch.Name] = ch
			}
		}
	}
	var tiers []rules.TierPolicyGroups
	for ti, t := range c.Tiers {
		da := "Deny"
		if t.Pass {
			da = "Pass"
		}
		tg := rules.TierPolicyGroups{Name: fmt.Sprintf("tier%d", ti), DefaultAction: da}
		// even tiers with several policies: ONE policy group (exercises the group chain and its staged
		// members); otherwise one group per policy
		oneGroup := ti%2 == 0 && len(t.Policies) >= 2
		var shared *rules.PolicyGroup
		if oneGroup {
			shared = &rules.PolicyGroup{Direction: rules.PolicyDirectionInbound, Selector: fmt.Sprintf("s%d", ti)}
		}
		for pi, p := range t.Policies {
			id := &types.PolicyID{Name: polName(ti, pi), Kind: kindOf(t.staged(pi))}
			add(renderer.PolicyToIptablesChains(id, &proto.Policy{Tier: tg.Name, InboundRules: protoRules(p)}, 4)...)
			if oneGroup {
				shared.Policies = append(shared.Policies, id)
				continue
			}
			grp := &rules.PolicyGroup{Direction: rules.PolicyDirectionInbound, Policies: []*types.PolicyID{id}, Selector: fmt.Sprintf("s%d_%d", ti, pi)}
			add(renderer.PolicyGroupToIptablesChains(grp)...)
			tg.IngressPolicies = append(tg.IngressPolicies, grp)
		}
		if oneGroup {
			add(renderer.PolicyGroupToIptablesChains(shared)...)
			tg.IngressPolicies = append(tg.IngressPolicies, shared)
		}
		tiers = append(tiers, tg)
	}
	var profIDs []string
	for pi, p := range c.Profiles {
		name := fmt.Sprintf("prof%d", pi)
		profIDs = append(profIDs, name)
		in, out := renderer.ProfileToIptablesChains(&types.ProfileID{Name: name}, &proto.Profile{InboundRules: protoRules(p)}, 4)
		add(in, out)
	}
	epChains := renderer.WorkloadEndpointToIptablesChains("cali1234", rules.NewEndpointMarkMapper(0xff00, 0x0100), true, tiers, profIDs, nil)
	add(epChains...)
	if dump {
		for n, ch := range s.chains {
			fmt.Println("CHAIN", n)
			for _, r := range ch.Rules {
				fmt.Printf("   [%s] -> %T %v\n", renderMatch(r.Match), r.Action, r.Action)
			}
		}
	}
	// the "to workload" chain is the ingress policy of the endpoint
	v := s.run(rules.EndpointChainName(rules.WorkloadToEndpointPfx, "cali1234", 28), 0)
	if s.unsup != "" {
		return "unsupported:" + strings.ReplaceAll(s.unsup, " ", "_")
	}
	switch {
	case v == "drop":
		return "deny"
	case v == "accept":
		return "allow"
	case s.mark&rcfg.MarkAccept != 0:
		// the endpoint chain returns to the caller with the accept mark set: allowed
		return "allow"
	}
	return "deny"
}

// ---- protocol ops ----------------------------------------------------------------------

func exec(h *rt.H, op string) string {
	c := parseLine(op)
	if c == nil {
		return "bad-op"
	}
	alp, bpf, ipt := alpVerdict(c), bpfVerdict(c), iptVerdict(c, false)
	h.Count("alp:" + alp)
	h.Count("bpf:" + bpf)
	h.Count("ipt:" + strings.SplitN(ipt, ":", 2)[0])
	// property oracle: all implementations agree (only when each produced a verdict)
	isV := func(s string) bool { return s == "allow" || s == "deny" }
	if isV(alp) && isV(bpf) && isV(ipt) && !(alp == bpf && bpf == ipt) {
		sig := "dataplanes-disagree"
		needPass, needFam := c.hasProfilePass(), c.hasOtherFamily()
		if needPass || needFam {
			// attribute to the known findings only if the SAME state, repaired for them - every profile pass
			// rule turned into a deny rule (what pass means to BPF and app-policy), the checker given the
			// rules as rules.FilterRuleToIPVersion leaves them - makes all three agree on the BPF verdict
			d := parseLine(op)
			if needPass {
				for i := range d.Profiles {
					for j := range d.Profiles[i] {
						if a := d.Profiles[i][j].Act; a == "pass" || a == "next-tier" {
							d.Profiles[i][j].Act = "deny"
						}
					}
				}
			}
			eval := func(x *cCfg, fam bool) (string, string, string) {
				alpFilterFamily = fam
				a := alpVerdict(x)
				alpFilterFamily = false
				return a, bpfVerdict(x), iptVerdict(x, false)
			}
			agree := func(a, b, i string) bool { return a == b && b == i && b == bpf }
			if a, b, i := eval(d, false); needPass && agree(a, b, i) {
				sig = "profile-pass"
			} else if a, b, i := eval(c, true); needFam && agree(a, b, i) {
				sig = "checker-ip-family"
			} else if a, b, i := eval(d, true); needPass && needFam && agree(a, b, i) {
				sig = "checker-ip-family+profile-pass"
			}
		}
		h.OracleFail(sig, fmt.Sprintf("implementations disagree on the verdict: app-policy=%s bpf=%s iptables=%s", alp, bpf, ipt), map[string]any{"op": op})
	}
	return fmt.Sprintf("alp=%s bpf=%s ipt=%s", alp, bpf, ipt)
}

// famMix: the case also carries rules naming the other IP family (explicit ipVersion, IPv6 CIDRs).
var famMix bool

// CIDR pool of a case (encoded) and the flow addresses around their boundaries.
var cidrPool = []string{"0a000000_8", "0a010000_16", "0a010200_24", "0a010203_32", "0a800000_9", "c0a80000_16",
	"ac100000_12", "0a000002_32", "0a000000_30", "00000000_0", "80000000_1", "0a010280_25"}

func pickNets(h *rt.H, pool []string, allowAll bool) []string {
	n := 1 + h.Intn(2)
	var out []string
	for i := 0; i < n; i++ {
		c := rt.Pick(h, pool)
		if c == "00000000_0" && !allowAll {
			continue
		}
		out = append(out, c)
	}
	return out
}

// boundaryAddrs: first/last address of the CIDR, the addresses just outside, one inside.
func boundaryAddrs(h *rt.H, e string) []uint32 {
	f := strings.Split(e, "_")
	v, _ := strconv.ParseUint(f[0], 16, 32)
	pl, _ := strconv.Atoi(f[1])
	var size uint64 = 1 << (32 - uint(pl))
	first := uint32(v)
	last := uint32(uint64(first) + size - 1)
	out := []uint32{first, last, first - 1, last + 1}
	if size > 2 {
		out = append(out, uint32(uint64(first)+1+uint64(h.Intn(int(min64(size-2, 1<<20))))))
	}
	return out
}

func min64(a, b uint64) uint64 {
	if a < b {
		return a
	}
	return b
}

func genRules(h *rt.H, profile bool, passP float64) []cRule { return genRulesN(h, profile, passP, nil) }

func genRulesN(h *rt.H, profile bool, passP float64, pool []string) []cRule {
	n := h.Intn(4)
	var out []cRule
	for i := 0; i < n; i++ {
		acts := []string{"allow", "deny", "allow", "deny", "pass", "next-tier", "log"}
		if profile {
			acts = []string{"allow", "deny", "allow", "deny"}
			if h.Chance(passP) {
				acts = []string{"pass", "next-tier"}
			}
		}
		r := cRule{Act: rt.Pick(h, acts)}
		protos := []string{"6", "17", "1", "132", "tcp", "udp", "icmp", "sctp", "TCP"}
		switch h.Intn(4) {
		case 0:
			r.Pr = rt.Pick(h, protos)
		case 1:
			r.NotPr = rt.Pick(h, protos)
		case 2:
			if h.Chance(0.3) {
				r.Pr, r.NotPr = rt.Pick(h, protos), rt.Pick(h, protos)
			}
		}
		if famMix && h.Chance(0.25) {
			r.IPVer = rt.Pick(h, []int{4, 6, 6})
		}
		if pool != nil && h.Chance(0.6) {
			if h.Chance(0.35) {
				r.Src = pickNets(h, pool, true)
			}
			if h.Chance(0.35) {
				r.NotSrc = pickNets(h, pool, h.Chance(0.1))
			}
			if h.Chance(0.35) {
				r.Dst = pickNets(h, pool, true)
			}
			if h.Chance(0.35) {
				r.NotDst = pickNets(h, pool, h.Chance(0.1))
			}
			if famMix {
				// IPv6 CIDRs next to (or instead of) the IPv4 ones
				for _, l := range []*[]string{&r.Src, &r.NotSrc, &r.Dst, &r.NotDst} {
					if h.Chance(0.2) {
						if h.Chance(0.5) {
							*l = nil
						}
						*l = append(*l, rt.Pick(h, []string{"20010db8000000000000000000000000_32", "00000000000000000000000000000000_0", "fe800000000000000000000000000000_10"}))
					}
				}
			}
		}
		out = append(out, r)
	}
	return out
}

func genCase(h *rt.H) []string {
	c := &cCfg{Src: defSrc, Dst: defDst}
	// two thirds of the cases carry literal CIDR matches (positive and negated, both legs)
	var pool []string
	famMix = false
	if h.Chance(0.66) {
		famMix = h.Chance(0.3)
		k := 2 + h.Intn(3)
		for i := 0; i < k; i++ {
			pool = append(pool, rt.Pick(h, cidrPool))
		}
	}
	passP := 0.0
	if h.Chance(0.25) {
		passP = 0.4
	}
	nt := h.Intn(5)
	stagedP := rt.Pick(h, []float64{0, 0, 0.3, 0.6})
	for i := 0; i < nt; i++ {
		t := cTier{Pass: h.Chance(0.4)}
		np := 1 + h.Intn(3)
		allStaged := stagedP > 0 && h.Chance(0.3) // a tier holding only staged policies, in any position
		for j := 0; j < np; j++ {
			t.Policies = append(t.Policies, genRulesN(h, false, 0, pool))
			t.Staged = append(t.Staged, allStaged || h.Chance(stagedP))
		}
		c.Tiers = append(c.Tiers, t)
	}
	np := h.Intn(4)
	for i := 0; i < np; i++ {
		c.Profiles = append(c.Profiles, genRulesN(h, true, passP, pool))
	}
	var ops []string
	// flow addresses: the defaults, or (with CIDRs) source and destination chosen independently
	// around the boundaries of the case's CIDRs
	addrs := [][2]uint32{{defSrc, defDst}}
	if pool != nil {
		var cand []uint32
		for _, e := range pool {
			cand = append(cand, boundaryAddrs(h, e)...)
		}
		cand = append(cand, defSrc, defDst)
		addrs = nil
		for i := 0; i < 3; i++ {
			addrs = append(addrs, [2]uint32{rt.Pick(h, cand), rt.Pick(h, cand)})
		}
	}
	for _, p := range []int{6, 17, 1, 132, 47} {
		if h.Chance(0.6) {
			c.Proto = p
			for _, a := range addrs {
				if len(addrs) > 1 && !h.Chance(0.6) {
					continue
				}
				c.Src, c.Dst = a[0], a[1]
				ops = append(ops, c.line())
			}
		}
	}
	if len(ops) == 0 {
		c.Proto = 6
		c.Src, c.Dst = addrs[0][0], addrs[0][1]
		ops = append(ops, c.line())
	}
	return ops
}

func main() {
	h := rt.New()
	defer h.Close()
	renderer = rules.NewRenderer(rcfg, false)
	h.Rule = "case = one workload policy state (0..3 tiers × 1..3 policies × 0..3 rules, 0..3 profiles × 0..3 rules; actions allow/deny/pass/next-tier/log, " +
		"profile pass in a quarter of the cases; criteria protocol / not-protocol by number or name and, in two thirds of the cases, literal IPv4 CIDRs " +
		"(source / not-source / destination / not-destination, 1..2 each, incl. /0, /32 and nested ones; in a third of those cases also rules naming the other IP family: explicit ipVersion 4/6, IPv6 CIDRs alone or mixed in) with flow addresses chosen independently for source and destination around the CIDR boundaries) evaluated for 1..5 flow protocols x up to 3 address pairs by the real " +
		"app-policy checker, the real BPF builder+interpreter and the real iptables renderer+chain evaluator; non-trivial = the case reaches both verdicts or has a profile pass rule"
	runCase := func(ops []string, tag string) {
		h.Case(tag)
		seen := map[string]bool{}
		for _, op := range ops {
			out := exec(h, op)
			h.Op(op, out)
			seen[strings.Fields(out)[0]] = true
		}
		if c := parseLine(ops[0]); c != nil && (len(seen) > 1 || c.hasProfilePass()) {
			h.Nontrivial(ops[0])
		}
		h.Sample()
	}
	if h.Replay != "" {
		lines := h.ReplayLines()
		if len(lines) > 0 && lines[0] == "dump" {
			for _, l := range lines[1:] {
				if c := parseLine(l); c != nil {
					fmt.Println(l, "=>", iptVerdict(c, true))
				}
			}
			return
		}
		runCase(lines, "replay")
		return
	}
	for i := 0; i < h.N; i++ {
		runCase(genCase(h), "gen")
	}
}
