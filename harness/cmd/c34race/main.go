// C34 race probe: built with `go build -race`, calls the REAL AuthorizeTierOperation with a scripted
// authorizer whose three answers rendezvous (so the three goroutines' writes really overlap) and lets the
// Go race detector report. Exit code 66 = data race detected (GORACE exitcode), 0 = none.
package main

import (
	"context"
	"fmt"
	"os"
	"sync"

	"k8s.io/apiserver/pkg/authentication/user"
	k8sauth "k8s.io/apiserver/pkg/authorization/authorizer"
	genericapirequest "k8s.io/apiserver/pkg/endpoints/request"

	"github.com/projectcalico/calico/apiserver/pkg/registry/projectcalico/authorizer"
)

type scripted struct {
	bar *sync.WaitGroup
}

func (s *scripted) Authorize(ctx context.Context, a k8sauth.Attributes) (k8sauth.Decision, string, error) {
	// rendezvous: all three checks are in flight at once, then return together
	s.bar.Done()
	s.bar.Wait()
	return k8sauth.DecisionAllow, "", fmt.Errorf("scripted error for %s", a.GetName())
}

func (s *scripted) ConditionsAwareAuthorize(ctx context.Context, a k8sauth.Attributes) k8sauth.ConditionsAwareDecision {
	return k8sauth.ConditionsAwareDecisionFromParts(s.Authorize(ctx, a))
}

func (s *scripted) EvaluateConditions(ctx context.Context, decision k8sauth.ConditionsAwareDecision, data k8sauth.ConditionsData) (k8sauth.Decision, string, error) {
	return k8sauth.DecisionDeny, "", k8sauth.ErrorConditionEvaluationNotSupported
}

func main() {
	n := 20
	for i := 0; i < n; i++ {
		bar := &sync.WaitGroup{}
		bar.Add(3)
		ta := authorizer.NewTierAuthorizer(&scripted{bar})
		ctx := genericapirequest.WithUser(context.Background(), &user.DefaultInfo{Name: "u"})
		ctx = genericapirequest.WithRequestInfo(ctx, &genericapirequest.RequestInfo{
			IsResourceRequest: true, Path: "/apis/projectcalico.org/v3/networkpolicies/default.p", Verb: "get",
			APIGroup: "projectcalico.org", APIVersion: "v3", Resource: "networkpolicies", Name: "default.p", Namespace: "ns",
		})
		if err := ta.AuthorizeTierOperation(ctx, "default.p", "default"); err != nil {
			fmt.Println("unexpected deny:", err)
			os.Exit(3)
		}
	}
	fmt.Println("no race reported")
}
