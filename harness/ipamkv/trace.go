package ipamkv

import (
	"fmt"
	"sort"
	"strconv"
	"strings"

	"github.com/projectcalico/calico/libcalico-go/lib/backend/model"
)

// ThreadCtx is what the harness knows about the client operation a logical
// thread is executing (needed to name the block-level operation behind a write).
type ThreadCtx struct {
	Op           string        // autoassign | assignip | releaseips | releasebyhandle | claim | releaseaff | ...
	Host         int           // host id the op runs as
	Handle       int           // handle id (0 = none)
	ReqOrds      map[int][]int // releaseips: requested ordinals per block id
	ReqSeq       bool
	RequireEmpty bool // releaseaff / relhostaff with mustBeEmpty
}

// ReservedOrdinals of block b (ordinals covered by a reservation CIDR),
// computed by plain prefix arithmetic independent of the code's addrFilter.
func (e *Env) ReservedOrdinals(b int) []int {
	if b < 0 || b >= len(e.Blocks) {
		return nil
	}
	blk := e.Blocks[b]
	ones, bits := blk.Mask.Size()
	n := 1 << uint(bits-ones)
	var out []int
	for o := 0; o < n; o++ {
		ip := blk.NthIP(o)
		for _, r := range e.Resv {
			hit := false
			for _, c := range r.Spec.ReservedCIDRs {
				_, cn, err := parseCIDROrIP(c)
				if err == nil && cn.Contains(ip.IP) {
					hit = true
					break
				}
			}
			if hit {
				out = append(out, o)
				break
			}
		}
	}
	return out
}

// StepLine renders an executed backend call as (op line, implementation output).
//
//	op line : step <tid> <fault> <verb> <key tokens> rev=<r|-> <event tokens>
//	output  : <outcome> [<abstract value of the key after the call>]
//
// tid and fault are the COMMAND (what a replay re-executes); everything after
// them is the observation that the Lean model must be able to reproduce: the
// model computes the outcome from its own store (presence, revision, fault) and
// the value after from its own value before and the event tokens.
func (e *Env) StepLine(st *Step, ctx *ThreadCtx) (string, string) {
	rev := "-"
	if st.Rev != "" {
		rev = st.Rev
	}
	key := "list"
	if st.Key != nil {
		key = e.KeyTok(st.Key)
	} else if st.List != nil {
		switch st.List.(type) {
		case model.BlockListOptions:
			key = "list blk"
		case model.BlockAffinityListOptions:
			key = "list aff"
		case model.IPAMHandleListOptions:
			key = "list hdl"
		default:
			key = "list other"
		}
	}
	head := fmt.Sprintf("step %d %s %s %s rev=%s", st.TID, st.Fault, st.Verb, key, rev)
	if !st.IsWrite() {
		if st.Verb == VGet {
			return head, st.Outcome
		}
		return head, st.Outcome
	}
	ev := "ev=-"
	if st.Eff.Changed {
		ev = e.classify(st, ctx)
	}
	out := st.Outcome
	if st.Eff.Changed {
		out += " " + e.Digest(st.Key, st.Eff.After)
	}
	return head + " " + ev, out
}

func (e *Env) classify(st *Step, ctx *ThreadCtx) string {
	switch k := st.Key.(type) {
	case model.BlockKey:
		return e.classifyBlock(k, st, ctx)
	case model.IPAMHandleKey:
		before, after := map[int]int{}, map[int]int{}
		if st.Eff.Before != nil {
			before, _ = e.AbsHandleOf(*st.Eff.Before)
		}
		if st.Eff.After != nil {
			after, _ = e.AbsHandleOf(*st.Eff.After)
		}
		type d struct{ b, n int }
		var ds []d
		keys := map[int]bool{}
		for b := range before {
			keys[b] = true
		}
		for b := range after {
			keys[b] = true
		}
		for b := range keys {
			if before[b] != after[b] {
				ds = append(ds, d{b, after[b] - before[b]})
			}
		}
		if len(ds) != 1 {
			return "ev=unknown"
		}
		if ds[0].n > 0 {
			return fmt.Sprintf("ev=inc b=%d n=%d", ds[0].b, ds[0].n)
		}
		return fmt.Sprintf("ev=dec b=%d n=%d", ds[0].b, -ds[0].n)
	case model.BlockAffinityKey:
		if st.Eff.After == nil {
			return "ev=del"
		}
		return "ev=st " + strings.TrimPrefix(e.AbsAffOf(*st.Eff.After), "st=")
	}
	return "ev=other"
}

func (e *Env) classifyBlock(k model.BlockKey, st *Step, ctx *ThreadCtx) string {
	bid, ok := e.BlockOf[model.IPNetFromPrefix(k.CIDR).String()]
	if !ok {
		return "ev=unknown"
	}
	var before, after AbsBlock
	if st.Eff.Before != nil {
		before = e.AbsBlockOf(*st.Eff.Before)
	}
	if st.Eff.After != nil {
		after = e.AbsBlockOf(*st.Eff.After)
	}
	if st.Eff.Before == nil {
		// create: the model builds the fresh block itself
		if after.Aff < 0 {
			return "ev=unknown"
		}
		return fmt.Sprintf("ev=create a=%d n=%d", after.Aff, len(after.Slots))
	}
	deleted := st.Eff.After == nil
	if deleted {
		// what the client computed before deciding to delete: every released slot was freed
		after = AbsBlock{Aff: before.Aff, Slots: make([]string, len(before.Slots))}
		for i := range after.Slots {
			after.Slots[i] = "."
		}
	}
	if len(before.Slots) != len(after.Slots) {
		return "ev=unknown"
	}
	var newLive, g1, g2, rel []int
	h := -1
	for o := range before.Slots {
		b, a := before.Slots[o], after.Slots[o]
		if b == a {
			continue
		}
		switch {
		case strings.HasPrefix(a, "L"):
			if strings.HasPrefix(b, "L") {
				return "ev=unknown" // live -> live with another owner
			}
			hid, err := strconv.Atoi(a[1:])
			if err != nil || (h >= 0 && h != hid) {
				return "ev=unknown"
			}
			h = hid
			newLive = append(newLive, o)
			if b == "c" {
				g1 = append(g1, o)
			}
		case b == "c" && a == ".":
			g1 = append(g1, o)
		case strings.HasPrefix(b, "L") && a == "c":
			rel = append(rel, o)
		case strings.HasPrefix(b, "L") && a == ".":
			rel = append(rel, o)
			g2 = append(g2, o)
		default:
			return "ev=unknown"
		}
	}
	gc := fmt.Sprintf("g1=%s g2=%s", joinInts(g1), joinInts(g2))
	affChanged := before.Aff != after.Aff
	switch {
	case affChanged && (after.Aff != -1 || len(newLive)+len(rel) > 0):
		return "ev=unknown"
	case affChanged:
		return "ev=clearaff " + gc
	case len(newLive) > 0 && len(rel) > 0:
		return "ev=unknown"
	case len(newLive) > 0:
		own := "own=-"
		if e.Strict && ctx != nil {
			own = fmt.Sprintf("own=%d", ctx.Host)
		}
		if ctx != nil && ctx.Op == "assignip" && len(newLive) == 1 {
			return fmt.Sprintf("ev=assignip h=%d o=%d %s %s", h, newLive[0], gc, own)
		}
		return fmt.Sprintf("ev=assign h=%d k=%d rv=%s %s %s", h, len(newLive), joinInts(e.ReservedOrdinals(bid)), gc, own)
	case len(rel) > 0:
		kind := "upd"
		if deleted {
			kind = "del"
		}
		if ctx != nil && ctx.Op == "releasebyhandle" {
			// the handle being released: the one every released slot belonged to
			rh := -1
			for _, o := range rel {
				hid, err := strconv.Atoi(before.Slots[o][1:])
				if err != nil || (rh >= 0 && rh != hid) {
					return "ev=unknown"
				}
				rh = hid
			}
			return fmt.Sprintf("ev=relh h=%d w=%s %s", rh, kind, gc)
		}
		if ctx != nil && ctx.Op == "cniadd" {
			// cmdAdd's dual-stack rollback: ReleaseIPs of the addresses just assigned, no handle given
			return fmt.Sprintf("ev=release h=0 ords=%s w=%s %s", joinInts(rel), kind, gc)
		}
		if ctx != nil && ctx.Op == "releaseips" {
			ords := append([]int(nil), ctx.ReqOrds[bid]...)
			sort.Ints(ords)
			return fmt.Sprintf("ev=release h=%d ords=%s w=%s %s", ctx.Handle, joinInts(ords), kind, gc)
		}
		return "ev=unknown"
	case deleted:
		return "ev=delete " + gc
	default:
		return "ev=bump " + gc
	}
}
