package ipamkv

import (
	"context"
	"encoding/json"
	"fmt"
	"math/big"
	"sort"
	"strconv"
	"strings"
	"time"

	v3 "github.com/projectcalico/api/pkg/apis/projectcalico/v3"
	metav1 "k8s.io/apimachinery/pkg/apis/meta/v1"

	"github.com/projectcalico/calico/libcalico-go/lib/apis/internalapi"
	"github.com/projectcalico/calico/libcalico-go/lib/backend/model"
	"github.com/projectcalico/calico/libcalico-go/lib/ipam"
	cnet "github.com/projectcalico/calico/libcalico-go/lib/net"
	"github.com/projectcalico/calico/libcalico-go/lib/options"
)

// Env is the static world of one case: hosts, handles, pools (hence the
// universe of block CIDRs, numbered 0..), reservations, and the store.
type Env struct {
	Hosts      []string
	Handles    []string
	Pools      []v3.IPPool
	Resv       []v3.IPReservation
	Blocks     []cnet.IPNet // every block CIDR of every pool, pool order then address order
	BlockOf    map[string]int
	PoolOf     []int // block id -> pool index
	S          *Store
	NodeLabels map[string]map[string]string
	Strict     bool // IPAM config StrictAffinity (allocations are made with the affinity check)
}

// ---- pools / reservations accessors handed to ipam.NewIPAMClient -------------

func (e *Env) GetEnabledPools(ctx context.Context, ipVersion int) ([]v3.IPPool, error) {
	var out []v3.IPPool
	for _, p := range e.Pools {
		if p.Spec.Disabled {
			continue
		}
		_, n, err := cnet.ParseCIDR(p.Spec.CIDR)
		if err != nil {
			continue
		}
		if n.Version() == ipVersion {
			out = append(out, p)
		}
	}
	return out, nil
}

func (e *Env) GetAllPools(ctx context.Context) ([]v3.IPPool, error) {
	return append([]v3.IPPool(nil), e.Pools...), nil
}

type resvLister struct{ e *Env }

func (r resvLister) List(ctx context.Context, opts options.ListOptions) (*v3.IPReservationList, error) {
	return &v3.IPReservationList{Items: append([]v3.IPReservation(nil), r.e.Resv...)}, nil
}

// Reservations returns the IPReservationInterface of the environment.
func (e *Env) Reservations() ipam.IPReservationInterface { return resvLister{e} }

// MkPool builds an enabled, automatic, workload+tunnel pool.
func MkPool(name, cidr string, blockSize int) v3.IPPool {
	p := v3.NewIPPool()
	p.Name = name
	p.Spec.CIDR = cidr
	p.Spec.BlockSize = blockSize
	am := v3.Automatic
	p.Spec.AssignmentMode = &am
	p.Spec.AllowedUses = []v3.IPPoolAllowedUse{v3.IPPoolAllowedUseWorkload, v3.IPPoolAllowedUseTunnel}
	return *p
}

// Index computes Blocks / BlockOf / PoolOf from Pools.
func (e *Env) Index() {
	e.Blocks, e.PoolOf = nil, nil
	e.BlockOf = map[string]int{}
	for pi, p := range e.Pools {
		_, n, err := cnet.ParseCIDR(p.Spec.CIDR)
		if err != nil {
			continue
		}
		ones, bits := n.Mask.Size()
		if p.Spec.BlockSize < ones || p.Spec.BlockSize-ones > 8 {
			continue
		}
		nb := 1 << uint(p.Spec.BlockSize-ones)
		per := new(big.Int).Lsh(big.NewInt(1), uint(bits-p.Spec.BlockSize))
		ip := cnet.IP{IP: n.IP}
		for i := 0; i < nb; i++ {
			b := cnet.MustParseCIDR(fmt.Sprintf("%s/%d", ip.String(), p.Spec.BlockSize))
			if _, dup := e.BlockOf[b.String()]; !dup {
				e.BlockOf[b.String()] = len(e.Blocks)
				e.Blocks = append(e.Blocks, b)
				e.PoolOf = append(e.PoolOf, pi)
			}
			ip = cnet.IncrementIP(ip, per)
		}
	}
}

// Setup writes the static objects (nodes, IPAM config) into the store.
func (e *Env) Setup(cfg *model.IPAMConfig, nodeLabels map[string]map[string]string) {
	d := Direct{e.S}
	for _, h := range e.Hosts {
		n := internalapi.NewNode()
		n.Name = h
		n.Labels = nodeLabels[h]
		_, err := d.Create(context.Background(), &model.KVPair{Key: model.ResourceKey{Kind: internalapi.KindNode, Name: h}, Value: n})
		if err != nil {
			panic(err)
		}
	}
	if cfg != nil {
		if _, err := d.Apply(context.Background(), &model.KVPair{Key: model.IPAMConfigKey{}, Value: cfg}); err != nil {
			panic(err)
		}
	}
}

func (e *Env) HostID(name string) int {
	for i, h := range e.Hosts {
		if h == name {
			return i
		}
	}
	return -1
}

func (e *Env) HandleID(name string) int {
	for i, h := range e.Handles {
		if h == name {
			return i + 1 // 0 is "no handle"
		}
	}
	return -1
}

// ---- abstraction of stored objects ---------------------------------------------

// AbsBlock is the abstract value of an allocation block: affinity host id
// (-1 none, -2 unknown), one slot per ordinal, the Unallocated queue.
type AbsBlock struct {
	Aff     int
	Slots   []string // "." free, "c" cooldown, "L<h>" live with handle id h (0 = no handle, ? = unknown handle)
	Unalloc []int
	Seq     map[int]uint64 // per-ordinal allocation sequence number (not part of the rendered value)
	WFErr   string         // non-empty: the stored block violates a structural well-formedness condition
}

func (e *Env) ParseBlock(val string) (*model.AllocationBlock, error) {
	var b model.AllocationBlock
	if err := json.Unmarshal([]byte(val), &b); err != nil {
		return nil, err
	}
	return &b, nil
}

func (e *Env) AbsBlockOf(val string) AbsBlock {
	b, err := e.ParseBlock(val)
	if err != nil {
		return AbsBlock{Aff: -2, WFErr: "unparsable"}
	}
	a := AbsBlock{Aff: -1, Seq: map[int]uint64{}}
	for o := range b.Allocations {
		a.Seq[o] = b.GetSequenceNumberForOrdinal(o)
	}
	if b.Affinity != nil {
		a.Aff = -2
		if strings.HasPrefix(*b.Affinity, "host:") {
			if id := e.HostID(strings.TrimPrefix(*b.Affinity, "host:")); id >= 0 {
				a.Aff = id
			}
		}
	}
	n := b.NumAddresses()
	if len(b.Allocations) != n {
		a.WFErr = fmt.Sprintf("allocations-len %d != %d", len(b.Allocations), n)
	}
	for o, idx := range b.Allocations {
		switch {
		case idx == nil:
			a.Slots = append(a.Slots, ".")
		case *idx < 0 || *idx >= len(b.Attributes):
			a.Slots = append(a.Slots, "L?")
			a.WFErr = fmt.Sprintf("ordinal %d: attribute index %d out of range", o, *idx)
		default:
			at := b.Attributes[*idx]
			if at.ReleasedAt != nil {
				a.Slots = append(a.Slots, "c")
			} else if at.HandleID == nil {
				a.Slots = append(a.Slots, "L0")
			} else if id := e.HandleID(*at.HandleID); id > 0 {
				a.Slots = append(a.Slots, "L"+strconv.Itoa(id))
			} else {
				a.Slots = append(a.Slots, "L?")
			}
		}
	}
	a.Unalloc = append([]int(nil), b.Unallocated...)
	return a
}

func joinInts(xs []int) string {
	if len(xs) == 0 {
		return "-"
	}
	s := make([]string, len(xs))
	for i, x := range xs {
		s[i] = strconv.Itoa(x)
	}
	return strings.Join(s, ",")
}

func (a AbsBlock) String() string {
	aff := "-"
	if a.Aff >= 0 {
		aff = strconv.Itoa(a.Aff)
	} else if a.Aff == -2 {
		aff = "?"
	}
	sl := "-"
	if len(a.Slots) > 0 {
		sl = strings.Join(a.Slots, ",")
	}
	return fmt.Sprintf("a=%s s=%s u=%s", aff, sl, joinInts(a.Unalloc))
}

// LiveCount is the number of ordinals live for handle id h.
func (a AbsBlock) LiveCount(h int) int {
	n := 0
	for _, s := range a.Slots {
		if s == "L"+strconv.Itoa(h) {
			n++
		}
	}
	return n
}

func (a AbsBlock) Empty() bool {
	for _, s := range a.Slots {
		if s != "." {
			return false
		}
	}
	return true
}

// AbsHandleOf: block id -> count (sorted rendering "b:n,b:n").
func (e *Env) AbsHandleOf(val string) (map[int]int, string) {
	var h model.IPAMHandle
	if err := json.Unmarshal([]byte(val), &h); err != nil {
		return nil, "?"
	}
	m := map[int]int{}
	var ks []int
	for cidr, n := range h.Block {
		id, ok := e.BlockOf[cidr]
		if !ok {
			id = 900 + len(ks)
		}
		m[id] = n
		ks = append(ks, id)
	}
	sort.Ints(ks)
	parts := []string{}
	for _, k := range ks {
		parts = append(parts, fmt.Sprintf("%d:%d", k, m[k]))
	}
	if len(parts) == 0 {
		return m, "h=-"
	}
	return m, "h=" + strings.Join(parts, ",")
}

func (e *Env) AbsAffOf(val string) string {
	var a model.BlockAffinity
	if val == "" {
		val = "{}"
	}
	if err := json.Unmarshal([]byte(val), &a); err != nil {
		return "st=?"
	}
	if a.State == "" {
		return "st=none"
	}
	return "st=" + string(a.State)
}

// KeyTok renders a key as protocol tokens: "blk <b>", "aff <host> <b>",
// "hdl <h>", "cfg", "node <host>", "other".
func (e *Env) KeyTok(k model.Key) string {
	switch key := k.(type) {
	case model.BlockKey:
		if id, ok := e.BlockOf[model.IPNetFromPrefix(key.CIDR).String()]; ok {
			return fmt.Sprintf("blk %d", id)
		}
		return "blk 999"
	case model.BlockAffinityKey:
		b, ok := e.BlockOf[model.IPNetFromPrefix(key.CIDR).String()]
		if !ok {
			b = 999
		}
		h := e.HostID(key.Host)
		if h < 0 || (key.AffinityType != "" && key.AffinityType != "host") {
			h = 99
		}
		return fmt.Sprintf("aff %d %d", h, b)
	case model.IPAMHandleKey:
		h := e.HandleID(key.HandleID)
		if h < 0 {
			h = 99
		}
		return fmt.Sprintf("hdl %d", h)
	case model.IPAMConfigKey:
		return "cfg"
	case model.ResourceKey:
		return "res " + key.Kind
	}
	return "other"
}

// Digest renders the abstract value of a stored object ("absent" if nil).
func (e *Env) Digest(k model.Key, val *string) string {
	if val == nil {
		return "absent"
	}
	switch k.(type) {
	case model.BlockKey:
		return e.AbsBlockOf(*val).String()
	case model.BlockAffinityKey:
		return e.AbsAffOf(*val)
	case model.IPAMHandleKey:
		_, s := e.AbsHandleOf(*val)
		return s
	}
	return "v"
}

// ---- invariants evaluated on the REAL store ------------------------------------

// Violation of an invariant on the real store.
type Violation struct {
	Sig  string
	Desc string
	Info map[string]any
}

// World is the abstract view of the whole store.
type World struct {
	Blocks  map[int]AbsBlock
	Handles map[int]map[int]int // handle id -> block id -> count
	Affs    map[[2]int]string   // (host, block) -> state
	Other   []string
}

func (e *Env) World() World {
	w := World{Blocks: map[int]AbsBlock{}, Handles: map[int]map[int]int{}, Affs: map[[2]int]string{}}
	snap := e.S.Snapshot()
	for p, v := range snap {
		if k := (model.BlockListOptions{}).KeyFromDefaultPath(p); k != nil {
			id, ok := e.BlockOf[model.IPNetFromPrefix(k.(model.BlockKey).CIDR).String()]
			if !ok {
				w.Other = append(w.Other, p)
				continue
			}
			w.Blocks[id] = e.AbsBlockOf(v)
		} else if k := (model.BlockAffinityListOptions{}).KeyFromDefaultPath(p); k != nil {
			ak := k.(model.BlockAffinityKey)
			b, ok := e.BlockOf[model.IPNetFromPrefix(ak.CIDR).String()]
			h := e.HostID(ak.Host)
			if !ok || h < 0 {
				w.Other = append(w.Other, p)
				continue
			}
			w.Affs[[2]int{h, b}] = strings.TrimPrefix(e.AbsAffOf(v), "st=")
		} else if k := (model.IPAMHandleListOptions{}).KeyFromDefaultPath(p); k != nil {
			id := e.HandleID(k.(model.IPAMHandleKey).HandleID)
			m, _ := e.AbsHandleOf(v)
			w.Handles[id] = m
		}
	}
	return w
}

// CheckWF: structural well-formedness of every stored block: the Unallocated
// queue has no duplicates and holds exactly the ordinals whose allocation is
// nil, and attribute indexes are in range.
func (w World) CheckWF() []Violation {
	var out []Violation
	for id, b := range w.Blocks {
		if b.WFErr != "" {
			out = append(out, Violation{"wf-struct", "stored block is structurally malformed: " + b.WFErr, map[string]any{"block": id, "value": b.String()}})
		}
		seen := map[int]bool{}
		for _, o := range b.Unalloc {
			if o < 0 || o >= len(b.Slots) || seen[o] || b.Slots[o] != "." {
				out = append(out, Violation{"wf-unalloc", "Unallocated queue has a duplicate / out of range / allocated ordinal", map[string]any{"block": id, "ordinal": o, "value": b.String()}})
			}
			seen[o] = true
		}
		for o, s := range b.Slots {
			if s == "." && !seen[o] {
				out = append(out, Violation{"wf-lost", "free ordinal missing from the Unallocated queue", map[string]any{"block": id, "ordinal": o, "value": b.String()}})
			}
		}
	}
	return out
}

// AgeClaims rewrites every stored block's affinity claim time to `age` ago (so
// that the empty-block reclaim path of findUsableBlock becomes reachable).
// Revisions are kept: no client compares claim times through the revision.
func (e *Env) AgeClaims(age time.Duration) {
	for p, v := range e.S.Snapshot() {
		if (model.BlockListOptions{}).KeyFromDefaultPath(p) == nil {
			continue
		}
		b, err := e.ParseBlock(v)
		if err != nil || b.AffinityClaimTime == nil {
			continue
		}
		t := metav1.NewTime(time.Now().Add(-age))
		b.AffinityClaimTime = &t
		nb, _ := json.Marshal(b)
		e.S.RawPutKeepRev(p, string(nb))
	}
}

// Ordinal of an address inside block id b (or -1).
func (e *Env) Ordinal(b int, ip cnet.IP) int {
	if b < 0 || b >= len(e.Blocks) {
		return -1
	}
	blk := model.AllocationBlock{CIDR: e.Blocks[b]}
	o, err := blk.IPToOrdinal(ip)
	if err != nil {
		return -1
	}
	return o
}

// Locate maps an address to (block id, ordinal) by the block universe.
func (e *Env) Locate(ip cnet.IP) (int, int) {
	for id, c := range e.Blocks {
		if c.Contains(ip.IP) {
			return id, e.Ordinal(id, ip)
		}
	}
	return -1, -1
}
