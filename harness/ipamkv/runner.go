package ipamkv

import (
	"context"
	"fmt"
	"sort"
	"strconv"
	"strings"
	"sync"
	"time"

	v3 "github.com/projectcalico/api/pkg/apis/projectcalico/v3"
	corev1 "k8s.io/api/core/v1"

	bapi "github.com/projectcalico/calico/libcalico-go/lib/backend/api"
	"github.com/projectcalico/calico/libcalico-go/lib/backend/model"
	"github.com/projectcalico/calico/libcalico-go/lib/ipam"
	cnet "github.com/projectcalico/calico/libcalico-go/lib/net"

	"verif/harness/rt"
)

func parseCIDROrIP(c string) (*cnet.IP, *cnet.IPNet, error) {
	return cnet.ParseCIDROrIP(strings.TrimSpace(c))
}

// NamespaceFor builds the namespace object with label team=t<k> (nil for 0).
func NamespaceFor(k int) *corev1.Namespace {
	if k <= 0 {
		return nil
	}
	ns := &corev1.Namespace{}
	ns.Name = fmt.Sprintf("ns%d", k)
	ns.Labels = map[string]string{"team": fmt.Sprintf("t%d", k)}
	return ns
}

// OpResult is what a client operation returned.
type OpResult struct {
	Err   error
	Addrs [][2]int // (block id, ordinal) of returned addresses
	Nets  []cnet.IPNet
	Extra string
}

// Runner executes the command lines of one case on the REAL ipam client over
// the scheduled in-memory backend, and emits the op/impl line pairs.
//
// Commands (what a replay file contains; everything else is observation and is
// regenerated on every run):
//
//	new hosts=<n> handles=<n> pools=<cidr/bs;...> cool=<sec> strict=<0|1> maxblk=<n> [resv=<cidr;...>]
//	begin <tid> <op> k=v ...      start a client operation as a logical thread
//	step <tid> <fault> ...        let thread tid perform its next backend call
//	age                           make every block's affinity claim 2 minutes old
//	quiesce                       let every parked thread run to completion (no faults)
type Runner struct {
	H   *rt.H
	Env *Env
	Sc  *Sched
	Ctx map[int]*ThreadCtx
	Res map[int]*OpResult

	mu      sync.Mutex
	ended   map[int]bool
	Faulted bool // a fault or crash was injected in this case
	Params  map[string]string
	Cmds    []string // command lines executed so far in this case (a replayable script)
	// StaleDelete: some releaseByHandle had its block compare-and-delete answered
	// NotFound and went on to decrement the handle (known defect, see known_findings).
	StaleDelete bool
	StalePairs  map[[2]int]bool           // (handle id, block id) whose count went through that path
	lastRead    map[int]map[string]string // tid -> block path -> value last read

	// property hooks
	OnStep      func(r *Runner, st *Step, ctx *ThreadCtx)
	OnEnd       func(r *Runner, tid int, ctx *ThreadCtx, res *OpResult)
	OnQuiescent func(r *Runner)
	// ExtraOp lets a harness add its own begin-ops: returns nil if unknown.
	ExtraOp func(r *Runner, tid int, op string, kv map[string]string) (ctx *ThreadCtx, fn func(c bapi.Client) *OpResult)
}

func NewRunner(h *rt.H) *Runner {
	return &Runner{H: h, Ctx: map[int]*ThreadCtx{}, Res: map[int]*OpResult{}, ended: map[int]bool{}}
}

func kvs(toks []string) map[string]string {
	m := map[string]string{}
	for _, t := range toks {
		if i := strings.IndexByte(t, '='); i > 0 {
			m[t[:i]] = t[i+1:]
		}
	}
	return m
}

func atoi(s string) int { n, _ := strconv.Atoi(s); return n }

func parseInts(s string) []int {
	if s == "" || s == "-" {
		return nil
	}
	var out []int
	for _, p := range strings.Split(s, ",") {
		out = append(out, atoi(p))
	}
	return out
}

// Client builds the real IPAM client for a logical thread.
func (r *Runner) Client(c bapi.Client) ipam.Interface {
	return ipam.NewIPAMClient(c, r.Env, r.Env.Reservations())
}

// Exec runs one command line.  Returns false if the line is not a command
// (observation lines of a replay file are skipped).
func (r *Runner) Exec(line string) bool {
	w := strings.Fields(line)
	if len(w) == 0 {
		return false
	}
	switch w[0] {
	case "new", "begin", "age", "quiesce":
		r.Cmds = append(r.Cmds, line)
	case "step":
		if len(w) >= 3 {
			r.Cmds = append(r.Cmds, strings.Join(w[:3], " "))
		}
	}
	switch w[0] {
	case "new":
		r.Cmds = []string{line}
		r.doNew(kvs(w[1:]))
	case "begin":
		if len(w) < 3 || r.Env == nil {
			return false
		}
		r.doBegin(atoi(w[1]), w[2], kvs(w[3:]))
	case "step":
		if len(w) < 3 || r.Env == nil {
			return false
		}
		r.doStep(atoi(w[1]), w[2])
	case "age":
		if r.Env == nil {
			return false
		}
		r.Env.AgeClaims(2 * time.Minute)
		r.H.Op("age", "ok")
	case "quiesce":
		if r.Env == nil {
			return false
		}
		r.Quiesce()
	default:
		return false
	}
	return true
}

func (r *Runner) doNew(p map[string]string) {
	e := &Env{S: NewStore()}
	for i := 0; i < atoi(p["hosts"]); i++ {
		e.Hosts = append(e.Hosts, fmt.Sprintf("h%d", i))
	}
	for i := 0; i < atoi(p["handles"]); i++ {
		e.Handles = append(e.Handles, fmt.Sprintf("hd%d", i+1))
	}
	if hn := p["hnames"]; hn != "" {
		e.Handles = strings.Split(hn, ",") // explicit handle names (handle id = position+1)
	}
	for i, ps := range strings.Split(p["pools"], ";") {
		if ps == "" {
			continue
		}
		j := strings.LastIndexByte(ps, '/')
		e.Pools = append(e.Pools, MkPool(fmt.Sprintf("pool%d", i), ps[:j], atoi(ps[j+1:])))
	}
	if rv := p["resv"]; rv != "" && rv != "-" {
		res := v3.NewIPReservation()
		res.Name = "resv"
		res.Spec.ReservedCIDRs = strings.Split(rv, ";")
		e.Resv = append(e.Resv, *res)
	}
	// optional per-pool attributes: <E|D>:<uses>:n<k>:s<k>:<A|M> ; ...
	if pa := p["pattrs"]; pa != "" {
		for i, a := range strings.Split(pa, ";") {
			f := strings.Split(a, ":")
			if i >= len(e.Pools) || len(f) != 5 {
				continue
			}
			pl := &e.Pools[i]
			pl.Spec.Disabled = f[0] == "D"
			pl.Spec.AllowedUses = nil
			for _, c := range f[1] {
				switch c {
				case 'W':
					pl.Spec.AllowedUses = append(pl.Spec.AllowedUses, v3.IPPoolAllowedUseWorkload)
				case 'T':
					pl.Spec.AllowedUses = append(pl.Spec.AllowedUses, v3.IPPoolAllowedUseTunnel)
				case 'L':
					pl.Spec.AllowedUses = append(pl.Spec.AllowedUses, v3.IPPoolAllowedUseLoadBalancer)
				}
			}
			if f[2] != "n0" {
				pl.Spec.NodeSelector = fmt.Sprintf("zone == 'z%s'", f[2][1:])
			}
			if f[3] != "s0" {
				pl.Spec.NamespaceSelector = fmt.Sprintf("team == 't%s'", f[3][1:])
			}
			am := v3.Automatic
			if f[4] == "M" {
				am = v3.Manual
			}
			pl.Spec.AssignmentMode = &am
		}
	}
	nodeLabels := map[string]map[string]string{}
	for i, z := range parseInts(p["zones"]) {
		if i < len(e.Hosts) && z > 0 {
			nodeLabels[e.Hosts[i]] = map[string]string{"zone": fmt.Sprintf("z%d", z)}
		}
	}
	e.NodeLabels = nodeLabels
	e.Index()
	e.Strict = p["strict"] == "1"
	cfg := &model.IPAMConfig{StrictAffinity: p["strict"] == "1", AutoAllocateBlocks: true, MaxBlocksPerHost: atoi(p["maxblk"]), IPCooldownSeconds: atoi(p["cool"])}
	e.Setup(cfg, nodeLabels)
	r.Env = e
	r.Sc = NewSched(e.S)
	r.Sc.Static = IsStaticPath
	r.Ctx, r.Res, r.ended, r.Faulted, r.Params = map[int]*ThreadCtx{}, map[int]*OpResult{}, map[int]bool{}, false, p
	r.StaleDelete, r.StalePairs, r.lastRead = false, nil, nil
	var sizes []int
	for _, b := range e.Blocks {
		ones, bits := b.Mask.Size()
		sizes = append(sizes, 1<<uint(bits-ones))
	}
	keys := make([]string, 0, len(p))
	for k := range p {
		if k != "nb" && k != "bsz" && k != "rev0" && k != "bbase" && k != "bpool" && k != "rrange" {
			keys = append(keys, k)
		}
	}
	sort.Strings(keys)
	line := "new"
	for _, k := range keys {
		line += " " + k + "=" + p[k]
	}
	// integer view of the IPv4 world for the models that do CIDR arithmetic themselves (C20):
	// block base addresses, pool of each block, reservation ranges start:len
	var bases, bpool []int
	for i, b := range e.Blocks {
		base := 0
		if ip4 := b.IP.To4(); ip4 != nil {
			base = int(ip4[0])<<24 | int(ip4[1])<<16 | int(ip4[2])<<8 | int(ip4[3])
		}
		bases = append(bases, base)
		bpool = append(bpool, e.PoolOf[i])
	}
	var rr []string
	for _, rs := range e.Resv {
		for _, c := range rs.Spec.ReservedCIDRs {
			if _, cn, err := parseCIDROrIP(c); err == nil {
				if ip4 := cn.IP.To4(); ip4 != nil {
					ones, bits := cn.Mask.Size()
					rr = append(rr, fmt.Sprintf("%d:%d", int(ip4[0])<<24|int(ip4[1])<<16|int(ip4[2])<<8|int(ip4[3]), 1<<uint(bits-ones)))
				}
			}
		}
	}
	rrs := "-"
	if len(rr) > 0 {
		rrs = strings.Join(rr, ",")
	}
	line += fmt.Sprintf(" nb=%d bsz=%s bbase=%s bpool=%s rrange=%s rev0=%d", len(e.Blocks), joinInts(sizes), joinInts(bases), joinInts(bpool), rrs, e.S.Rev())
	r.H.Op(line, "ok")
}

func (r *Runner) addrsOf(ips []cnet.IPNet) [][2]int {
	var out [][2]int
	for _, ip := range ips {
		b, o := r.Env.Locate(cnet.IP{IP: ip.IP})
		out = append(out, [2]int{b, o})
	}
	return out
}

func (r *Runner) doBegin(tid int, op string, kv map[string]string) {
	if _, dup := r.Ctx[tid]; dup {
		return
	}
	e := r.Env
	host := atoi(kv["host"])
	hostName := ""
	if host >= 0 && host < len(e.Hosts) {
		hostName = e.Hosts[host]
	} else {
		return
	}
	hid := atoi(kv["h"])
	var handle *string
	if hid >= 1 && hid <= len(e.Handles) {
		handle = &e.Handles[hid-1]
	} else {
		hid = 0
	}
	bid := atoi(kv["b"])
	if bid < 0 || bid >= len(e.Blocks) {
		bid = 0
	}
	ctx := &ThreadCtx{Op: op, Host: host, Handle: hid}
	var fn func(c bapi.Client) *OpResult
	bg := context.Background()
	switch op {
	case "autoassign":
		n := atoi(kv["n"])
		use := v3.IPPoolAllowedUseWorkload
		if kv["use"] == "T" {
			use = v3.IPPoolAllowedUseTunnel
		}
		ns := NamespaceFor(atoi(kv["ns"]))
		var req []cnet.IPNet
		for _, pi := range parseInts(kv["req"]) {
			if pi >= 0 && pi < len(e.Pools) {
				req = append(req, cnet.MustParseCIDR(e.Pools[pi].Spec.CIDR))
			} else {
				req = append(req, cnet.MustParseCIDR("192.168.77.0/24")) // a pool that does not exist
			}
		}
		fn = func(c bapi.Client) *OpResult {
			v4, v6, err := r.Client(c).AutoAssign(bg, ipam.AutoAssignArgs{Num4: n, Num6: atoi(kv["n6"]), HandleID: handle, Hostname: hostName,
				IntendedUse: use, MaxBlocksPerHost: atoi(kv["maxblk"]), Namespace: ns, IPv4Pools: req})
			res := &OpResult{Err: err}
			if v4 != nil {
				res.Addrs = r.addrsOf(v4.IPs)
				res.Nets = v4.IPs
			}
			if v6 != nil {
				res.Addrs = append(res.Addrs, r.addrsOf(v6.IPs)...)
			}
			return res
		}
	case "assignip":
		o := atoi(kv["o"])
		ip := e.Blocks[bid].NthIP(o)
		fn = func(c bapi.Client) *OpResult {
			err := r.Client(c).AssignIP(bg, ipam.AssignIPArgs{IP: ip, HandleID: handle, Hostname: hostName})
			res := &OpResult{Err: err}
			if err == nil {
				res.Addrs = [][2]int{{bid, o}}
			}
			return res
		}
	case "releaseips":
		ords := parseInts(kv["ords"])
		ctx.ReqOrds = map[int][]int{bid: ords}
		var opts []ipam.ReleaseOptions
		for _, o := range ords {
			ro := ipam.ReleaseOptions{Address: e.Blocks[bid].NthIP(o).String()}
			if handle != nil {
				ro.Handle = *handle
			}
			opts = append(opts, ro)
		}
		fn = func(c bapi.Client) *OpResult {
			_, _, err := r.Client(c).ReleaseIPs(bg, opts...)
			return &OpResult{Err: err}
		}
	case "relbyhandle":
		ctx.Op = "releasebyhandle"
		if handle == nil {
			return
		}
		fn = func(c bapi.Client) *OpResult {
			return &OpResult{Err: r.Client(c).ReleaseByHandle(bg, *handle)}
		}
	case "claim":
		fn = func(c bapi.Client) *OpResult {
			claimed, failed, err := r.Client(c).ClaimAffinity(bg, e.Blocks[bid], ipam.AffinityConfig{AffinityType: ipam.AffinityTypeHost, Host: hostName})
			return &OpResult{Err: err, Extra: fmt.Sprintf("claimed=%d failed=%d", len(claimed), len(failed))}
		}
	case "releaseaff":
		ctx.RequireEmpty = kv["empty"] == "1"
		fn = func(c bapi.Client) *OpResult {
			return &OpResult{Err: r.Client(c).ReleaseAffinity(bg, e.Blocks[bid], hostName, kv["empty"] == "1")}
		}
	case "relhostaff":
		ctx.RequireEmpty = kv["empty"] == "1"
		fn = func(c bapi.Client) *OpResult {
			return &OpResult{Err: r.Client(c).ReleaseHostAffinities(bg, ipam.AffinityConfig{AffinityType: ipam.AffinityTypeHost, Host: hostName}, kv["empty"] == "1")}
		}
	default:
		if r.ExtraOp != nil {
			ctx, fn = r.ExtraOp(r, tid, op, kv)
		}
		if fn == nil {
			return
		}
	}
	r.Ctx[tid] = ctx
	keys := make([]string, 0, len(kv))
	for k := range kv {
		keys = append(keys, k)
	}
	sort.Strings(keys)
	line := fmt.Sprintf("begin %d %s", tid, op)
	for _, k := range keys {
		line += " " + k + "=" + kv[k]
	}
	r.H.Op(line, "ok")
	r.H.Count("op:" + op)
	r.Sc.Spawn(tid, func(c bapi.Client) {
		res := fn(c)
		r.mu.Lock()
		r.Res[tid] = res
		r.mu.Unlock()
	})
	r.checkEnded()
}

// checkEnded emits `end` lines for threads that have returned.
func (r *Runner) checkEnded() {
	tids := make([]int, 0, len(r.Ctx))
	for t := range r.Ctx {
		tids = append(tids, t)
	}
	sort.Ints(tids)
	for _, t := range tids {
		if r.ended[t] || r.Sc.State(t) != "done" {
			continue
		}
		r.ended[t] = true
		r.mu.Lock()
		res := r.Res[t]
		r.mu.Unlock()
		if res == nil {
			res = &OpResult{}
		}
		status := "ok"
		if res.Err != nil {
			status = "err"
			r.H.Count("operr:" + r.Ctx[t].Op)
		}
		var as []string
		for _, a := range res.Addrs {
			as = append(as, fmt.Sprintf("%d:%d", a[0], a[1]))
		}
		al := "-"
		if len(as) > 0 {
			al = strings.Join(as, ",")
		}
		r.H.Op(fmt.Sprintf("end %d %s h=%d addrs=%s", t, status, r.Ctx[t].Handle, al), "ok")
		if r.OnEnd != nil {
			r.OnEnd(r, t, r.Ctx[t], res)
		}
	}
}

func (r *Runner) doStep(tid int, fault string) {
	switch fault {
	case FNone, FConflict, FError, FCrashBefore, FCrashAfter:
	default:
		fault = FNone
	}
	st := r.Sc.Step(tid, fault)
	if st == nil {
		return // thread not parked at a call (e.g. a shrunk replay): not a step
	}
	if st.Fault != FNone {
		r.Faulted = true
		r.H.Count("fault:" + st.Fault)
	}
	ctx := r.Ctx[tid]
	op, out := r.Env.StepLine(st, ctx)
	if _, isBlk := st.Key.(model.BlockKey); isBlk {
		if r.lastRead == nil {
			r.lastRead = map[int]map[string]string{}
		}
		if st.Verb == VGet && st.Outcome == OOK && st.Eff.Before != nil {
			if r.lastRead[tid] == nil {
				r.lastRead[tid] = map[string]string{}
			}
			r.lastRead[tid][st.Path] = *st.Eff.Before
		}
		if st.Verb == VDelete && st.Outcome == ONotFound && ctx != nil && ctx.Op == "releasebyhandle" {
			if v, ok := r.lastRead[tid][st.Path]; ok {
				n := r.Env.AbsBlockOf(v).LiveCount(ctx.Handle)
				// After repair e889066 the client re-reads instead of decrementing by this stale
				// count n; the event is only remembered so that a handle violation about this
				// (handle, block) pair is labelled (regression guard).
				_ = n
				r.StaleDelete = true
				if r.StalePairs == nil {
					r.StalePairs = map[[2]int]bool{}
				}
				if bid, ok := r.Env.BlockOf[model.IPNetFromPrefix(st.Key.(model.BlockKey).CIDR).String()]; ok {
					r.StalePairs[[2]int{ctx.Handle, bid}] = true
				}
				r.H.Count("stale-delete")
			}
		}
	}
	r.H.Op(op, out)
	r.H.Count("call:" + st.Verb + ":" + strings.Fields(r.keyKind(st))[0] + ":" + strings.TrimSuffix(st.Outcome, "+crashed"))
	if r.OnStep != nil {
		r.OnStep(r, st, ctx)
	}
	r.checkEnded()
}

func (r *Runner) keyKind(st *Step) string {
	if st.Key != nil {
		return r.Env.KeyTok(st.Key)
	}
	return "list"
}

// Quiesce lets every parked thread run to completion, lowest tid first.
func (r *Runner) Quiesce() {
	for {
		rd := r.Sc.Ready()
		if len(rd) == 0 {
			break
		}
		r.doStep(rd[0], FNone)
	}
	r.checkEnded()
	r.H.Op("quiesce", "ok")
	if r.OnQuiescent != nil {
		r.OnQuiescent(r)
	}
}

// Live threads (parked at a call).
func (r *Runner) Ready() []int { return r.Sc.Ready() }

// Crashed reports whether any thread of the case was crashed.
func (r *Runner) AnyCrashed() bool {
	for t := range r.Ctx {
		if r.Sc.State(t) == "crashed" {
			return true
		}
	}
	return false
}
