package ipamkv

import (
	"context"
	"errors"
	"fmt"
	"strings"
	"time"

	bapi "github.com/projectcalico/calico/libcalico-go/lib/backend/api"
	"github.com/projectcalico/calico/libcalico-go/lib/backend/model"
	cerrors "github.com/projectcalico/calico/libcalico-go/lib/errors"
)

// Faults that the controller can inject into the call it grants.
const (
	FNone        = "none"
	FConflict    = "conflict"    // write answered with ErrorResourceUpdateConflict, nothing applied
	FError       = "err"         // any call answered with ErrorDatastoreError, nothing applied
	FCrashBefore = "crashbefore" // thread stops forever instead of performing the call
	FCrashAfter  = "crashafter"  // call is performed, thread stops forever before seeing the answer
)

// Step is one executed backend call: the (op, key, revision, before, after) record.
type Step struct {
	TID     int
	Verb    string
	Key     model.Key
	List    model.ListInterface
	Path    string
	Rev     string // revision supplied by the client
	Fault   string
	Outcome string
	Eff     Effect
	Value   any // value the client tried to write (after backend normalisation this is Eff.After)
}

func (s *Step) IsWrite() bool {
	return s.Verb == VCreate || s.Verb == VUpdate || s.Verb == VApply || s.Verb == VDelete
}

type thrState int

const (
	tRunning thrState = iota // executing client code (not at a backend call)
	tWaiting                 // parked at a backend call
	tDone
	tCrashed
)

type pending struct {
	call  *Call
	reply chan Result
}

type event struct {
	tid  int
	call *pending // nil => thread function returned
}

type thread struct {
	state thrState
	pend  *pending
}

// Sched is the deterministic scheduler.  It is driven by exactly one
// controller goroutine (the harness) through Spawn / Ready / Step.
type Sched struct {
	S       *Store
	events  chan event
	threads map[int]*thread
	order   []int
	// Static reports paths whose reads are answered immediately (no scheduling
	// point): configuration that no thread writes during a case.
	Static func(path string) bool
	Log    []*Step
}

func NewSched(s *Store) *Sched {
	return &Sched{S: s, events: make(chan event, 64), threads: map[int]*thread{}}
}

// Spawn starts a logical client thread.  fn runs the REAL client code against
// the client it is given; every backend call it makes is a scheduling point.
func (sc *Sched) Spawn(tid int, fn func(c bapi.Client)) {
	if _, ok := sc.threads[tid]; ok {
		panic(fmt.Sprintf("thread %d already exists", tid))
	}
	sc.threads[tid] = &thread{state: tRunning}
	sc.order = append(sc.order, tid)
	go func() {
		fn(&schedClient{sc: sc, tid: tid})
		sc.events <- event{tid: tid}
	}()
}

// settle waits until no thread is executing client code.
func (sc *Sched) settle() {
	for {
		running := false
		for _, t := range sc.threads {
			if t.state == tRunning {
				running = true
			}
		}
		if !running {
			return
		}
		select {
		case ev := <-sc.events:
			t := sc.threads[ev.tid]
			if ev.call == nil {
				if t.state == tRunning {
					t.state = tDone
				}
				continue
			}
			if t.state != tRunning {
				panic(fmt.Sprintf("thread %d issued a backend call while %v (concurrent calls inside one logical thread are not supported)", ev.tid, t.state))
			}
			t.state, t.pend = tWaiting, ev.call
		case <-time.After(60 * time.Second):
			panic("scheduler: client code did not reach a backend call or return within 60s")
		}
	}
}

// Ready returns the threads parked at a backend call, in spawn order.
func (sc *Sched) Ready() []int {
	sc.settle()
	var r []int
	for _, tid := range sc.order {
		if sc.threads[tid].state == tWaiting {
			r = append(r, tid)
		}
	}
	return r
}

// Peek returns the call a ready thread is parked at.
func (sc *Sched) Peek(tid int) *Call {
	sc.settle()
	t := sc.threads[tid]
	if t == nil || t.state != tWaiting {
		return nil
	}
	return t.pend.call
}

// State of a thread: "running", "waiting", "done", "crashed", "" (unknown).
func (sc *Sched) State(tid int) string {
	sc.settle()
	t := sc.threads[tid]
	if t == nil {
		return ""
	}
	return [...]string{"running", "waiting", "done", "crashed"}[t.state]
}

// Forget drops finished / crashed threads so that ids can be reused.
func (sc *Sched) Forget(tid int) {
	if t := sc.threads[tid]; t != nil && (t.state == tDone || t.state == tCrashed) {
		delete(sc.threads, tid)
		for i, x := range sc.order {
			if x == tid {
				sc.order = append(sc.order[:i], sc.order[i+1:]...)
				break
			}
		}
	}
}

// Step grants the pending call of thread tid, with the given fault, and
// returns its record.  Returns nil if the thread is not parked at a call.
func (sc *Sched) Step(tid int, fault string) *Step {
	sc.settle()
	t := sc.threads[tid]
	if t == nil || t.state != tWaiting {
		return nil
	}
	p := t.pend
	c := p.call
	st := &Step{TID: tid, Verb: c.Verb, Key: c.Key, List: c.List, Path: c.Path, Rev: c.Rev, Fault: fault}
	if c.KVP != nil {
		st.Value = c.KVP.Value
	}
	isWrite := st.IsWrite()
	if fault == FConflict && !(isWrite && c.Verb != VCreate && c.Verb != VApply) {
		fault = FNone // a conflict only makes sense on a compare-and-swap
		st.Fault = fault
	}
	var res Result
	switch fault {
	case FCrashBefore:
		st.Outcome = "crashed"
		_, st.Eff = sc.S.Exec(&Call{Verb: VGet, Key: c.Key, Path: c.Path}, false)
		if c.Verb == VList {
			st.Eff = Effect{Path: c.Path}
		}
		t.state, t.pend = tCrashed, nil
		sc.Log = append(sc.Log, st)
		return st
	case FConflict:
		res, st.Eff = sc.S.Exec(c, false)
		if res.Outcome == OOK {
			res = Result{Err: cerrors.ErrorResourceUpdateConflict{Identifier: c.Key, Err: errors.New("injected conflict")}, Outcome: OConflict}
		}
	case FError:
		_, st.Eff = sc.S.Exec(&Call{Verb: VGet, Key: c.Key, Path: c.Path}, false)
		if c.Verb == VList {
			st.Eff = Effect{Path: c.Path}
		}
		res = Result{Err: cerrors.ErrorDatastoreError{Err: errors.New("injected datastore error"), Identifier: c.Key}, Outcome: OError}
	default:
		res, st.Eff = sc.S.Exec(c, true)
	}
	st.Outcome = res.Outcome
	sc.Log = append(sc.Log, st)
	if fault == FCrashAfter {
		st.Outcome = res.Outcome + "+crashed"
		t.state, t.pend = tCrashed, nil
		return st
	}
	t.state, t.pend = tRunning, nil
	p.reply <- res
	return st
}

// Kill marks a parked thread as crashed without executing its call.
func (sc *Sched) Kill(tid int) {
	sc.settle()
	if t := sc.threads[tid]; t != nil && t.state == tWaiting {
		t.state, t.pend = tCrashed, nil
	}
}

// schedClient is the bapi.Client handed to a logical thread.
type schedClient struct {
	sc  *Sched
	tid int
}

var _ bapi.Client = (*schedClient)(nil)

func (c *schedClient) do(verb string, key model.Key, kvp *model.KVPair, rev string, l model.ListInterface) Result {
	call, err := mkCall(verb, key, kvp, rev, l)
	if err != nil {
		return Result{Err: err, Outcome: OBadReq}
	}
	if (verb == VGet || verb == VList) && c.sc.Static != nil && c.sc.Static(call.Path) {
		r, _ := c.sc.S.Exec(call, true)
		return r
	}
	p := &pending{call: call, reply: make(chan Result, 1)}
	c.sc.events <- event{tid: c.tid, call: p}
	return <-p.reply // a crashed thread blocks here forever ("the thread stops")
}

func (c *schedClient) Create(ctx context.Context, o *model.KVPair) (*model.KVPair, error) {
	r := c.do(VCreate, o.Key, o, "", nil)
	return r.KVP, r.Err
}
func (c *schedClient) Update(ctx context.Context, o *model.KVPair) (*model.KVPair, error) {
	r := c.do(VUpdate, o.Key, o, o.Revision, nil)
	return r.KVP, r.Err
}
func (c *schedClient) Apply(ctx context.Context, o *model.KVPair) (*model.KVPair, error) {
	r := c.do(VApply, o.Key, o, "", nil)
	return r.KVP, r.Err
}
func (c *schedClient) Delete(ctx context.Context, k model.Key, rev string) (*model.KVPair, error) {
	r := c.do(VDelete, k, nil, rev, nil)
	return r.KVP, r.Err
}
func (c *schedClient) DeleteKVP(ctx context.Context, o *model.KVPair) (*model.KVPair, error) {
	return c.Delete(ctx, o.Key, o.Revision)
}
func (c *schedClient) Get(ctx context.Context, k model.Key, rev string) (*model.KVPair, error) {
	r := c.do(VGet, k, nil, "", nil)
	return r.KVP, r.Err
}
func (c *schedClient) List(ctx context.Context, l model.ListInterface, rev string) (*model.KVPairList, error) {
	r := c.do(VList, nil, nil, "", l)
	return r.KVPs, r.Err
}
func (c *schedClient) Watch(ctx context.Context, l model.ListInterface, o bapi.WatchOptions) (bapi.WatchInterface, error) {
	return nil, cerrors.ErrorOperationNotSupported{Operation: "Watch", Identifier: l}
}
func (c *schedClient) EnsureInitialized() error { return nil }
func (c *schedClient) Clean() error             { return nil }
func (c *schedClient) Close() error             { return nil }

// IsStaticPath is the default Static predicate: IPAM config and resource
// (node, pool, reservation) reads are not scheduling points.
func IsStaticPath(p string) bool {
	return strings.HasPrefix(p, "/calico/resources/") || strings.HasPrefix(p, "/calico/ipam/v2/config")
}
