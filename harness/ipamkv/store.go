// Package ipamkv is the shared machinery of the IPAM concurrency properties
// (C19, C20, C22, C38):
//
//   - Store: an in-memory compare-and-swap key/value datastore with the
//     semantics of libcalico-go's etcdv3 backend (keys -> default paths, values
//     round-tripped through model.SerializeValue / model.ParseValue, a global
//     revision counter, Create = "version == 0" transaction, Update/Delete =
//     "mod revision == rev" transaction).  /repo has no in-memory backend of its
//     own (the ipam tests' fakeClient is a pass-through interceptor living in a
//     _test.go file and needs a real etcd behind it), hence this one.
//   - Sched (sched.go): a deterministic scheduler.  Every logical client thread
//     gets its own bapi.Client; each backend call parks the calling goroutine
//     until the controller grants it, optionally with an injected fault
//     (spurious CAS conflict, datastore error without effect, crash before /
//     after the write).  Every executed call is logged as a Step
//     (verb, key, revision, before, after, outcome).
//   - abs.go: the abstraction of the stored IPAM objects into the canonical
//     tokens compared with the Lean model, and the invariants re-checked on the
//     real store after every step.
package ipamkv

import (
	"context"
	"fmt"
	"sort"
	"strconv"
	"strings"
	"sync"

	apiv3 "github.com/projectcalico/api/pkg/apis/projectcalico/v3"

	"github.com/projectcalico/calico/libcalico-go/lib/apis/internalapi"
	bapi "github.com/projectcalico/calico/libcalico-go/lib/backend/api"
	"github.com/projectcalico/calico/libcalico-go/lib/backend/model"
	cerrors "github.com/projectcalico/calico/libcalico-go/lib/errors"
)

type entry struct {
	val string
	rev int64
}

// Store is the datastore proper.  All methods are atomic.
type Store struct {
	mu   sync.Mutex
	data map[string]entry
	rev  int64
}

func NewStore() *Store { return &Store{data: map[string]entry{}, rev: 100} }

// Verbs of the backend API that the scheduler distinguishes.
const (
	VCreate = "create"
	VUpdate = "update"
	VApply  = "apply"
	VDelete = "delete"
	VGet    = "get"
	VList   = "list"
)

// Outcomes of a call.
const (
	OOK       = "ok"
	OExists   = "exists"
	ONotFound = "notfound"
	OConflict = "conflict"
	OError    = "error" // injected datastore error, nothing applied
	OBadReq   = "badreq"
)

// Call is one backend request.
type Call struct {
	Verb string
	Key  model.Key           // nil for list
	KVP  *model.KVPair       // create/update/apply
	Rev  string              // revision supplied by the client ("" = unconditional)
	List model.ListInterface // list
	Path string
}

// Result of a call.
type Result struct {
	KVP     *model.KVPair
	KVPs    *model.KVPairList
	Err     error
	Outcome string
}

// Effect is what a call did to the store.
type Effect struct {
	Path      string
	Before    *string // nil = absent
	After     *string
	BeforeRev int64
	AfterRev  int64
	Changed   bool
}

func prepForWrite(d *model.KVPair) *model.KVPair {
	// same conversion as etcdv3.prepForWrite (v3 BlockAffinity is stored as the internal type)
	if value, ok := d.Value.(*apiv3.BlockAffinity); ok {
		v1Obj := internalapi.NewBlockAffinity()
		v1Obj.ObjectMeta = value.ObjectMeta
		v1Obj.Spec = internalapi.BlockAffinitySpec{
			State: string(value.Spec.State), Node: value.Spec.Node, Type: value.Spec.Type,
			CIDR: value.Spec.CIDR, Deleted: fmt.Sprintf("%t", value.Spec.Deleted),
		}
		c := *d
		c.Value = v1Obj
		return &c
	}
	return d
}

func prepForReturn(d *model.KVPair) error {
	if value, ok := d.Value.(*internalapi.BlockAffinity); ok {
		v3Obj := apiv3.NewBlockAffinity()
		v3Obj.ObjectMeta = value.ObjectMeta
		deleted, err := strconv.ParseBool(value.Spec.Deleted)
		if err != nil {
			return err
		}
		v3Obj.Spec = apiv3.BlockAffinitySpec{
			State: apiv3.BlockAffinityState(value.Spec.State), Node: value.Spec.Node, Type: value.Spec.Type,
			CIDR: value.Spec.CIDR, Deleted: deleted,
		}
		d.Value = v3Obj
	}
	return nil
}

func toKVP(key model.Key, e entry) (*model.KVPair, error) {
	v, err := model.ParseValue(key, []byte(e.val))
	if err != nil {
		return nil, cerrors.ErrorParsingDatastoreEntry{RawKey: fmt.Sprint(key), RawValue: e.val, Err: err}
	}
	kvp := &model.KVPair{Key: key, Value: v, Revision: strconv.FormatInt(e.rev, 10)}
	if err := prepForReturn(kvp); err != nil {
		return nil, err
	}
	return kvp, nil
}

func sp(s string) *string { return &s }

// Exec runs one call atomically.  apply=false executes only the read part of a
// write (used for injected faults: the call is answered without touching the
// store).
func (s *Store) Exec(c *Call, apply bool) (Result, Effect) {
	s.mu.Lock()
	defer s.mu.Unlock()
	eff := Effect{Path: c.Path}
	cur, present := s.data[c.Path]
	if present {
		eff.Before, eff.BeforeRev = sp(cur.val), cur.rev
		eff.After, eff.AfterRev = eff.Before, eff.BeforeRev
	}
	put := func(val string) entry {
		s.rev++
		e := entry{val: val, rev: s.rev}
		s.data[c.Path] = e
		eff.After, eff.AfterRev, eff.Changed = sp(val), e.rev, true
		return e
	}
	parseRev := func() (int64, error) {
		r, err := strconv.ParseInt(c.Rev, 10, 64)
		if err != nil {
			return 0, cerrors.ErrorValidation{ErroredFields: []cerrors.ErroredField{{Name: "ResourceVersion", Value: c.Rev}}}
		}
		return r, nil
	}
	switch c.Verb {
	case VCreate, VUpdate, VApply:
		d := prepForWrite(c.KVP)
		bytes, err := model.SerializeValue(d)
		if err != nil {
			return Result{Err: cerrors.ErrorDatastoreError{Err: err, Identifier: c.Key}, Outcome: OBadReq}, eff
		}
		switch c.Verb {
		case VCreate:
			if present {
				existing, _ := toKVP(c.Key, cur)
				return Result{KVP: existing, Err: cerrors.ErrorResourceAlreadyExists{Identifier: c.Key}, Outcome: OExists}, eff
			}
		case VUpdate:
			rev, err := parseRev()
			if err != nil {
				return Result{Err: err, Outcome: OBadReq}, eff
			}
			if !present {
				return Result{Err: cerrors.ErrorResourceDoesNotExist{Identifier: c.Key}, Outcome: ONotFound}, eff
			}
			if cur.rev != rev {
				existing, _ := toKVP(c.Key, cur)
				return Result{KVP: existing, Err: cerrors.ErrorResourceUpdateConflict{Identifier: c.Key}, Outcome: OConflict}, eff
			}
		}
		if !apply {
			return Result{Outcome: OOK}, eff
		}
		e := put(string(bytes))
		out, err := toKVP(c.Key, e)
		if err != nil {
			return Result{Err: err, Outcome: OBadReq}, eff
		}
		// like etcdv3: the caller's KVPair is updated in place and returned
		c.KVP.Value = out.Value
		c.KVP.Revision = out.Revision
		return Result{KVP: c.KVP, Outcome: OOK}, eff
	case VDelete:
		if c.Rev != "" {
			rev, err := parseRev()
			if err != nil {
				return Result{Err: err, Outcome: OBadReq}, eff
			}
			if !present {
				return Result{Err: cerrors.ErrorResourceDoesNotExist{Identifier: c.Key}, Outcome: ONotFound}, eff
			}
			if cur.rev != rev {
				existing, _ := toKVP(c.Key, cur)
				return Result{KVP: existing, Err: cerrors.ErrorResourceUpdateConflict{Identifier: c.Key}, Outcome: OConflict}, eff
			}
		} else if !present {
			return Result{Err: cerrors.ErrorResourceDoesNotExist{Identifier: c.Key}, Outcome: ONotFound}, eff
		}
		if !apply {
			return Result{Outcome: OOK}, eff
		}
		prev, _ := toKVP(c.Key, cur)
		delete(s.data, c.Path)
		s.rev++
		eff.After, eff.AfterRev, eff.Changed = nil, 0, true
		return Result{KVP: prev, Outcome: OOK}, eff
	case VGet:
		if !present {
			return Result{Err: cerrors.ErrorResourceDoesNotExist{Identifier: c.Key}, Outcome: ONotFound}, eff
		}
		kvp, err := toKVP(c.Key, cur)
		if err != nil {
			return Result{Err: err, Outcome: OBadReq}, eff
		}
		return Result{KVP: kvp, Outcome: OOK}, eff
	case VList:
		root := model.ListOptionsToDefaultPathRoot(c.List)
		exact := false
		if !model.IsListOptionsLastSegmentPrefix(c.List) {
			if model.ListOptionsIsFullyQualified(c.List) {
				exact = true
			} else if !strings.HasSuffix(root, "/") {
				root += "/"
			}
		}
		paths := make([]string, 0, len(s.data))
		for p := range s.data {
			if (exact && p == root) || (!exact && strings.HasPrefix(p, root)) {
				paths = append(paths, p)
			}
		}
		sort.Strings(paths) // etcd returns keys in lexical order
		list := []*model.KVPair{}
		for _, p := range paths {
			k := c.List.KeyFromDefaultPath(p)
			if k == nil {
				continue
			}
			kvp, err := toKVP(k, s.data[p])
			if err != nil {
				continue
			}
			list = append(list, kvp)
		}
		return Result{KVPs: &model.KVPairList{KVPairs: list, Revision: strconv.FormatInt(s.rev, 10)}, Outcome: OOK}, eff
	}
	return Result{Err: fmt.Errorf("unsupported verb %s", c.Verb), Outcome: OBadReq}, eff
}

// Direct is an unscheduled client on the store (set-up, oracles, single
// threaded histories).
type Direct struct{ S *Store }

var _ bapi.Client = Direct{}

func mkCall(verb string, key model.Key, kvp *model.KVPair, rev string, l model.ListInterface) (*Call, error) {
	c := &Call{Verb: verb, Key: key, KVP: kvp, Rev: rev, List: l}
	if key != nil {
		var p string
		var err error
		if verb == VDelete {
			p, err = model.KeyToDefaultDeletePath(key)
		} else {
			p, err = model.KeyToDefaultPath(key)
		}
		if err != nil {
			return nil, cerrors.ErrorDatastoreError{Err: err, Identifier: key}
		}
		c.Path = p
	} else if l != nil {
		c.Path = model.ListOptionsToDefaultPathRoot(l)
	}
	return c, nil
}

func (d Direct) do(verb string, key model.Key, kvp *model.KVPair, rev string, l model.ListInterface) Result {
	c, err := mkCall(verb, key, kvp, rev, l)
	if err != nil {
		return Result{Err: err, Outcome: OBadReq}
	}
	r, _ := d.S.Exec(c, true)
	return r
}

func (d Direct) Create(ctx context.Context, o *model.KVPair) (*model.KVPair, error) {
	r := d.do(VCreate, o.Key, o, "", nil)
	return r.KVP, r.Err
}
func (d Direct) Update(ctx context.Context, o *model.KVPair) (*model.KVPair, error) {
	r := d.do(VUpdate, o.Key, o, o.Revision, nil)
	return r.KVP, r.Err
}
func (d Direct) Apply(ctx context.Context, o *model.KVPair) (*model.KVPair, error) {
	r := d.do(VApply, o.Key, o, "", nil)
	return r.KVP, r.Err
}
func (d Direct) Delete(ctx context.Context, k model.Key, rev string) (*model.KVPair, error) {
	r := d.do(VDelete, k, nil, rev, nil)
	return r.KVP, r.Err
}
func (d Direct) DeleteKVP(ctx context.Context, o *model.KVPair) (*model.KVPair, error) {
	return d.Delete(ctx, o.Key, o.Revision)
}
func (d Direct) Get(ctx context.Context, k model.Key, rev string) (*model.KVPair, error) {
	r := d.do(VGet, k, nil, "", nil)
	return r.KVP, r.Err
}
func (d Direct) List(ctx context.Context, l model.ListInterface, rev string) (*model.KVPairList, error) {
	r := d.do(VList, nil, nil, "", l)
	return r.KVPs, r.Err
}
func (d Direct) Watch(ctx context.Context, l model.ListInterface, o bapi.WatchOptions) (bapi.WatchInterface, error) {
	return nil, cerrors.ErrorOperationNotSupported{Operation: "Watch", Identifier: l}
}
func (d Direct) EnsureInitialized() error { return nil }
func (d Direct) Clean() error {
	d.S.mu.Lock()
	defer d.S.mu.Unlock()
	d.S.data = map[string]entry{}
	return nil
}
func (d Direct) Close() error { return nil }

// Raw access for oracles / the harness (consistent snapshot).
func (s *Store) Snapshot() map[string]string {
	s.mu.Lock()
	defer s.mu.Unlock()
	m := make(map[string]string, len(s.data))
	for k, v := range s.data {
		m[k] = v.val
	}
	return m
}

// Rev is the current global revision.
func (s *Store) Rev() int64 {
	s.mu.Lock()
	defer s.mu.Unlock()
	return s.rev
}

// RawGet returns the serialized value of a path.
func (s *Store) RawGet(path string) (string, int64, bool) {
	s.mu.Lock()
	defer s.mu.Unlock()
	e, ok := s.data[path]
	return e.val, e.rev, ok
}

// RawPut overwrites a value without going through a client (harness-level
// edits such as ageing a claim time); bumps the revision like any write.
func (s *Store) RawPut(path, val string) {
	s.mu.Lock()
	defer s.mu.Unlock()
	s.rev++
	s.data[path] = entry{val: val, rev: s.rev}
}

// RawPutKeepRev overwrites a value but keeps its revision (used only to age
// timestamps, which no client compares through the revision).
func (s *Store) RawPutKeepRev(path, val string) {
	s.mu.Lock()
	defer s.mu.Unlock()
	if e, ok := s.data[path]; ok {
		s.data[path] = entry{val: val, rev: e.rev}
	}
}
