// Package nfsem is shared by the C08/C09/C10 harnesses (owner: a10).
//
// It (1) renders real generictables chains through the REAL iptables / nftables
// renderers, and (2) parses that rendered text back and evaluates it on a packet
// with the same netfilter semantics as lean/CalicoVerif/Model/Netfilter.lean.
// (2) is what the property oracles run on the real code's output; it is
// cross-checked against the Lean semantics by the `eval`/`probe` ops of the
// correspondence streams.
package nfsem

import (
	"fmt"
	"math/big"
	"net/netip"
	"strconv"
	"strings"

	"github.com/projectcalico/calico/felix/environment"
	"github.com/projectcalico/calico/felix/generictables"
	"github.com/projectcalico/calico/felix/iptables"
	"github.com/projectcalico/calico/felix/nftables"
)

var Features = &environment.Features{NFLogSize: true}

// Esc makes arbitrary bytes safe for the line protocol (same function as Netfilter.escBytes).
func Esc(s string) string {
	var b strings.Builder
	for i := 0; i < len(s); i++ {
		c := s[i]
		if c >= 32 && c <= 126 && c != '%' {
			b.WriteByte(c)
		} else {
			fmt.Fprintf(&b, "%%%02x", c)
		}
	}
	return b.String()
}

// RenderRule renders one rule with the real renderer of the dataplane.
func RenderRule(nft bool, ipv uint8, chain string, r generictables.Rule) (out string) {
	defer func() {
		if e := recover(); e != nil {
			out = "panic"
		}
	}()
	if nft {
		return chain + ": " + nftables.NewNFTRenderer("", ipv).Render(chain, "", r, Features).Rule
	}
	return iptables.NewIptablesRenderer("").RenderAppend(&r, chain, "", Features)
}

type TextChain struct {
	Name  string
	Rules []string
}

func RenderChains(nft bool, ipv uint8, chains []*generictables.Chain) []TextChain {
	var out []TextChain
	for _, c := range chains {
		tc := TextChain{Name: c.Name}
		for _, r := range c.Rules {
			tc.Rules = append(tc.Rules, RenderRule(nft, ipv, c.Name, r))
		}
		out = append(out, tc)
	}
	return out
}

// Show is the canonical one-line form compared with the Lean driver's `showChains`.
func Show(cs []TextChain) string {
	parts := make([]string, len(cs))
	for i, c := range cs {
		parts[i] = "[" + c.Name + "] " + strings.Join(c.Rules, " ;; ")
	}
	return Esc(strings.Join(parts, " || "))
}

// ---------------------------------------------------------------------------
// Packet semantics of the rendered text.

type Pkt struct {
	V6                 bool
	Proto              int
	Src, Dst           *big.Int
	Sport, Dport       int
	IcmpType, IcmpCode int
	In, Out            string
	Ct                 string
}

type Env struct {
	NFT      bool
	IPSet    func(name string, addr *big.Int) bool
	IPPort   func(name string, addr *big.Int, proto, port int) bool
	Vmap     map[string]map[string]string // map name -> key -> "goto X"
	ProtoNum map[string]int
}

var DefaultProtoNum = map[string]int{"tcp": 6, "udp": 17, "icmp": 1, "icmpv6": 58, "ipv6-icmp": 58, "sctp": 132, "udplite": 136}

type Result struct {
	Kind  string // accept drop reject return missing fuel
	Mark  uint32
	Chain string
}

func (r Result) String() string {
	switch r.Kind {
	case "missing":
		return "to:" + r.Chain
	case "fuel":
		return "out-of-fuel"
	}
	return r.Kind
}

type clause func(e *Env, p *Pkt, mark uint32) bool

type action struct {
	kind       string // none accept drop reject return jump goto mark nop vmap
	target     string
	and, xor   uint32 // mark' = (mark & and) ^ xor
	vmapDir    string
	vmapName   string
}

type prule struct {
	clauses []clause
	act     action
}

func tokenize(s string) []string {
	var toks []string
	var cur strings.Builder
	inq := false
	has := false
	for i := 0; i < len(s); i++ {
		c := s[i]
		switch {
		case c == '"':
			inq = !inq
			has = true
		case c == ' ' && !inq:
			if has {
				toks = append(toks, cur.String())
				cur.Reset()
				has = false
			}
		default:
			cur.WriteByte(c)
			has = true
		}
	}
	if has {
		toks = append(toks, cur.String())
	}
	return toks
}

func hexU32(s string) uint32 {
	v, err := strconv.ParseUint(s, 0, 64)
	if err != nil {
		panic("nfsem: bad number " + s)
	}
	return uint32(v)
}

func atoi(s string) int {
	v, err := strconv.Atoi(s)
	if err != nil {
		panic("nfsem: bad int " + s)
	}
	return v
}

func AddrInt(a netip.Addr) *big.Int { return new(big.Int).SetBytes(a.AsSlice()) }

// CidrContains: does the CIDR text contain the address (given as integer + family)?
func CidrContains(cidr string, v6 bool, addr *big.Int) bool {
	p, err := netip.ParsePrefix(cidr)
	if err != nil {
		if a, err2 := netip.ParseAddr(cidr); err2 == nil {
			p = netip.PrefixFrom(a, a.BitLen())
		} else {
			return false
		}
	}
	if p.Addr().Is6() != v6 {
		return false
	}
	total := 32
	if v6 {
		total = 128
	}
	sh := uint(total - p.Bits())
	a := new(big.Int).Rsh(addr, sh)
	b := new(big.Int).Rsh(AddrInt(p.Addr()), sh)
	return a.Cmp(b) == 0
}

func ifaceMatch(wild byte, pat, iface string) bool {
	if len(pat) > 0 && pat[len(pat)-1] == wild {
		return strings.HasPrefix(iface, pat[:len(pat)-1])
	}
	return pat == iface
}

func isPortProto(n int) bool { return n == 6 || n == 17 || n == 132 || n == 33 || n == 136 }

type prange struct{ lo, hi int }

func parsePorts(s string, sep string) []prange {
	var out []prange
	for _, f := range strings.Split(s, ",") {
		f = strings.TrimSpace(f)
		if f == "" {
			continue
		}
		if i := strings.Index(f, sep); i >= 0 {
			out = append(out, prange{atoi(f[:i]), atoi(f[i+1:])})
		} else {
			out = append(out, prange{atoi(f), atoi(f)})
		}
	}
	return out
}

func inRanges(rs []prange, p int) bool {
	for _, r := range rs {
		if r.lo <= p && p <= r.hi {
			return true
		}
	}
	return false
}

func xorb(neg, b bool) bool {
	if neg {
		return !b
	}
	return b
}

func protoIs(e *Env, name string, n int) bool {
	if v, err := strconv.Atoi(name); err == nil {
		return v == n
	}
	pn := e.ProtoNum
	if pn == nil {
		pn = DefaultProtoNum
	}
	v, ok := pn[name]
	return ok && v == n
}

func ctIn(states, ct string) bool {
	for _, s := range strings.Split(states, ",") {
		if strings.EqualFold(s, ct) {
			return true
		}
	}
	return false
}

// parseIpt parses one line produced by iptablesRenderer.RenderAppend.
func parseIpt(line string) prule {
	t := tokenize(line)
	var r prule
	r.act.kind = "none"
	i := 0
	next := func() string {
		if i >= len(t) {
			panic("nfsem: truncated rule: " + line)
		}
		v := t[i]
		i++
		return v
	}
	neg := false
	takeNeg := func() bool { n := neg; neg = false; return n }
	for i < len(t) {
		tok := next()
		switch tok {
		case "-A":
			next()
		case "!":
			neg = true
		case "-m":
			mod := next()
			_ = mod
		case "--comment":
			next()
		case "--mark":
			n := takeNeg()
			vm := strings.SplitN(next(), "/", 2)
			v, m := hexU32(vm[0]), hexU32(vm[1])
			r.clauses = append(r.clauses, func(e *Env, p *Pkt, mark uint32) bool { return xorb(n, mark&m == v) })
		case "--in-interface":
			pat := next()
			r.clauses = append(r.clauses, func(e *Env, p *Pkt, mark uint32) bool { return ifaceMatch('+', pat, p.In) })
		case "--out-interface":
			pat := next()
			r.clauses = append(r.clauses, func(e *Env, p *Pkt, mark uint32) bool { return ifaceMatch('+', pat, p.Out) })
		case "-p":
			n := takeNeg()
			name := next()
			r.clauses = append(r.clauses, func(e *Env, p *Pkt, mark uint32) bool { return xorb(n, protoIs(e, name, p.Proto)) })
		case "--source", "--destination":
			n := takeNeg()
			c := next()
			src := tok == "--source"
			r.clauses = append(r.clauses, func(e *Env, p *Pkt, mark uint32) bool {
				a := p.Dst
				if src {
					a = p.Src
				}
				return xorb(n, CidrContains(c, p.V6, a))
			})
		case "--match-set":
			n := takeNeg()
			name := next()
			flags := next()
			r.clauses = append(r.clauses, func(e *Env, p *Pkt, mark uint32) bool {
				switch flags {
				case "src":
					return xorb(n, e.IPSet(name, p.Src))
				case "dst":
					return xorb(n, e.IPSet(name, p.Dst))
				case "src,src":
					return xorb(n, e.IPPort(name, p.Src, p.Proto, p.Sport))
				case "dst,dst":
					return xorb(n, e.IPPort(name, p.Dst, p.Proto, p.Dport))
				}
				panic("nfsem: set flags " + flags)
			})
		case "--source-ports", "--destination-ports":
			n := takeNeg()
			rs := parsePorts(next(), ":")
			src := tok == "--source-ports"
			r.clauses = append(r.clauses, func(e *Env, p *Pkt, mark uint32) bool {
				port := p.Dport
				if src {
					port = p.Sport
				}
				return isPortProto(p.Proto) && xorb(n, inRanges(rs, port))
			})
		case "--icmp-type", "--icmpv6-type":
			n := takeNeg()
			tc := strings.SplitN(next(), "/", 2)
			v6 := tok == "--icmpv6-type"
			ty := atoi(tc[0])
			code := -1
			if len(tc) == 2 {
				code = atoi(tc[1])
			}
			r.clauses = append(r.clauses, func(e *Env, p *Pkt, mark uint32) bool {
				want := 1
				if v6 {
					want = 58
				}
				if p.V6 != v6 || p.Proto != want {
					return false
				}
				m := p.IcmpType == ty && (code < 0 || p.IcmpCode == code)
				return xorb(n, m)
			})
		case "--ctstate":
			n := takeNeg()
			s := next()
			r.clauses = append(r.clauses, func(e *Env, p *Pkt, mark uint32) bool { return xorb(n, ctIn(s, p.Ct)) })
		case "--limit", "--limit-burst":
			next()
		case "--goto":
			r.act = action{kind: "goto", target: next()}
		case "--jump":
			tg := next()
			switch tg {
			case "ACCEPT":
				r.act = action{kind: "accept"}
			case "DROP":
				r.act = action{kind: "drop"}
			case "REJECT":
				r.act = action{kind: "reject"}
			case "RETURN":
				r.act = action{kind: "return"}
			case "NOTRACK":
				r.act = action{kind: "nop"}
			case "LOG", "NFLOG":
				r.act = action{kind: "nop"}
				i = len(t)
			case "MARK":
				if next() != "--set-mark" {
					panic("nfsem: MARK without --set-mark: " + line)
				}
				vm := strings.SplitN(next(), "/", 2)
				v, m := hexU32(vm[0]), hexU32(vm[1])
				// --set-mark v/m == --set-xmark v/(m|v)
				r.act = action{kind: "mark", and: ^(m | v), xor: v}
			default:
				r.act = action{kind: "jump", target: tg}
			}
		default:
			panic("nfsem: unknown iptables token " + tok + " in: " + line)
		}
	}
	return r
}

// parseNft parses "<chain>: <rule>" as produced by RenderRule for nftables.
func parseNft(line string) prule {
	if k := strings.Index(line, ": "); k >= 0 {
		line = line[k+2:]
	}
	t := tokenize(line)
	var r prule
	r.act.kind = "none"
	i := 0
	peek := func() string {
		if i < len(t) {
			return t[i]
		}
		return ""
	}
	next := func() string {
		if i >= len(t) {
			panic("nfsem: truncated nft rule: " + line)
		}
		v := t[i]
		i++
		return v
	}
	takeNeg := func() bool {
		if peek() == "!=" {
			i++
			return true
		}
		return false
	}
	for i < len(t) {
		tok := next()
		switch tok {
		case "continue":
		case "meta":
			switch next() {
			case "mark":
				if peek() == "set" {
					// action: meta mark set mark or M | mark & A [^ B]
					next()
					next() // "mark"
					op := next()
					if op == "or" {
						m := hexU32(next())
						r.act = action{kind: "mark", and: ^uint32(0) &^ 0, xor: 0}
						r.act.kind = "markor"
						r.act.xor = m
					} else {
						a := hexU32(next())
						var x uint32
						if peek() == "^" {
							next()
							x = hexU32(next())
						}
						r.act = action{kind: "mark", and: a, xor: x}
					}
					continue
				}
				next() // &
				m := hexU32(next())
				op := next()
				v := hexU32(next())
				n := op == "!="
				r.clauses = append(r.clauses, func(e *Env, p *Pkt, mark uint32) bool { return xorb(n, mark&m == v) })
			case "l4proto":
				n := takeNeg()
				name := next()
				r.clauses = append(r.clauses, func(e *Env, p *Pkt, mark uint32) bool { return xorb(n, protoIs(e, name, p.Proto)) })
			default:
				panic("nfsem: meta ? in " + line)
			}
		case "iifname", "oifname":
			in := tok == "iifname"
			if peek() == "vmap" {
				next()
				name := strings.TrimPrefix(next(), "@")
				d := "out"
				if in {
					d = "in"
				}
				r.act = action{kind: "vmap", vmapDir: d, vmapName: name}
				continue
			}
			pat := next()
			r.clauses = append(r.clauses, func(e *Env, p *Pkt, mark uint32) bool {
				if in {
					return ifaceMatch('*', pat, p.In)
				}
				return ifaceMatch('*', pat, p.Out)
			})
		case "ip", "ip6":
			fam6 := tok == "ip6"
			field := next() // saddr|daddr
			src := field == "saddr"
			if peek() == "." {
				// saddr . meta l4proto . th sport [!=] @set
				next()
				next()
				next()
				next()
				next()
				next()
				n := takeNeg()
				name := strings.TrimPrefix(next(), "@")
				r.clauses = append(r.clauses, func(e *Env, p *Pkt, mark uint32) bool {
					if p.V6 != fam6 {
						return false
					}
					if src {
						return xorb(n, e.IPPort(name, p.Src, p.Proto, p.Sport))
					}
					return xorb(n, e.IPPort(name, p.Dst, p.Proto, p.Dport))
				})
				continue
			}
			n := takeNeg()
			arg := next()
			r.clauses = append(r.clauses, func(e *Env, p *Pkt, mark uint32) bool {
				if p.V6 != fam6 {
					return false
				}
				a := p.Dst
				if src {
					a = p.Src
				}
				if strings.HasPrefix(arg, "@") {
					return xorb(n, e.IPSet(arg[1:], a))
				}
				return xorb(n, CidrContains(arg, p.V6, a))
			})
		case "tcp", "udp", "sctp":
			field := next()
			src := field == "sport"
			n := takeNeg()
			if next() != "{" {
				panic("nfsem: port set expected in " + line)
			}
			var sb []string
			for peek() != "}" {
				sb = append(sb, next())
			}
			next()
			rs := parsePorts(strings.Join(sb, ""), "-")
			want := map[string]int{"tcp": 6, "udp": 17, "sctp": 132}[tok]
			r.clauses = append(r.clauses, func(e *Env, p *Pkt, mark uint32) bool {
				if p.Proto != want {
					return false
				}
				port := p.Dport
				if src {
					port = p.Sport
				}
				return xorb(n, inRanges(rs, port))
			})
		case "icmp", "icmpv6":
			v6 := tok == "icmpv6"
			next() // type
			n := takeNeg()
			ty := atoi(next())
			code := -1
			ncode := false
			if peek() == "code" {
				next()
				ncode = takeNeg()
				code = atoi(next())
			}
			r.clauses = append(r.clauses, func(e *Env, p *Pkt, mark uint32) bool {
				want := 1
				if v6 {
					want = 58
				}
				if p.V6 != v6 || p.Proto != want {
					return false
				}
				ok := xorb(n, p.IcmpType == ty)
				if code >= 0 {
					ok = ok && xorb(ncode, p.IcmpCode == code)
				}
				return ok
			})
		case "ct":
			next() // state
			n := takeNeg()
			s := next()
			r.clauses = append(r.clauses, func(e *Env, p *Pkt, mark uint32) bool { return xorb(n, ctIn(s, p.Ct)) })
		case "limit":
			next() // rate
			next()
			if peek() == "burst" {
				next()
				next()
				next()
			}
		case "counter":
		case "accept", "drop", "reject":
			r.act = action{kind: tok}
		case "return":
			r.act = action{kind: "return"}
		case "jump", "goto":
			r.act = action{kind: tok, target: next()}
		case "log":
			r.act = action{kind: "nop"}
			i = len(t)
		case "notrack":
			r.act = action{kind: "nop"}
		default:
			panic("nfsem: unknown nft token " + tok + " in: " + line)
		}
	}
	return r
}

type Table struct {
	nft    bool
	chains map[string][]prule
}

func Parse(nft bool, cs []TextChain) *Table {
	t := &Table{nft: nft, chains: map[string][]prule{}}
	for _, c := range cs {
		var rs []prule
		for _, l := range c.Rules {
			if nft {
				rs = append(rs, parseNft(l))
			} else {
				rs = append(rs, parseIpt(l))
			}
		}
		t.chains[c.Name] = rs
	}
	return t
}

// Eval evaluates chain `name` (fuel = maximum nesting of jumps/gotos), as Netfilter.evalChain.
func (t *Table) Eval(e *Env, p *Pkt, fuel int, name string, mark uint32) Result {
	if fuel == 0 {
		return Result{Kind: "fuel"}
	}
	rules, ok := t.chains[name]
	if !ok {
		return Result{Kind: "missing", Chain: name}
	}
	for _, r := range rules {
		m := true
		for _, c := range r.clauses {
			if !c(e, p, mark) {
				m = false
				break
			}
		}
		if !m {
			continue
		}
		act := r.act
		if act.kind == "vmap" {
			key := p.Out
			if act.vmapDir == "in" {
				key = p.In
			}
			v, ok := e.Vmap[act.vmapName][key]
			if !ok {
				continue
			}
			if !strings.HasPrefix(v, "goto ") {
				panic("nfsem: vmap verdict " + v)
			}
			act = action{kind: "goto", target: v[5:]}
		}
		switch act.kind {
		case "accept", "drop", "reject":
			return Result{Kind: act.kind, Mark: mark}
		case "return":
			return Result{Kind: "return", Mark: mark}
		case "goto":
			return t.Eval(e, p, fuel-1, act.target, mark)
		case "jump":
			res := t.Eval(e, p, fuel-1, act.target, mark)
			if res.Kind != "return" {
				return res
			}
			mark = res.Mark
		case "mark":
			mark = (mark & act.and) ^ act.xor
		case "markor":
			mark = mark | act.xor
		}
	}
	return Result{Kind: "return", Mark: mark}
}
