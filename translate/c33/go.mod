module verif/translate/c33

go 1.23
