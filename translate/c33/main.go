// Translator for C33: regenerates lean/CalicoVerif/Gen/C33.lean from the CURRENT
// source of /repo (env VERIF_REPO), using go/parser + go/ast only.
//
// Facts extracted (a fact that can no longer be found is a fatal error = broken tie):
//   - libcalico-go/lib/consistenthash/primes.go: the `pr` table, the panic limit literal in
//     NextPrimeUint16, and the shape of its body (sort.Search with `int(pr[x]) >= i`, last-entry fallback)
//   - libcalico-go/lib/consistenthash/constants.go: MaglevEndpointLUTFactor
//   - felix/config/config_params.go: struct tag of BPFMaglevMaxEndpointsPerService (`int(lo:hi);default`)
//     and the body of BPFLUTSizeMaglev
//   - felix/bpf/consistenthash/consistenthash.go: the binary.ByteOrder identifier and the result type used in
//     hashFromString, the two seeds and the offset/skip formula of offsetAndSKip, the formula of permutation
//   - felix/bpf/proxy/syncer.go: the two hash constructors passed by newConsistentHash
package main

import (
	"bytes"
	"fmt"
	"go/ast"
	"go/parser"
	"go/printer"
	"go/token"
	"os"
	"path/filepath"
	"reflect"
	"regexp"
	"strconv"
	"strings"
)

var fset = token.NewFileSet()

// problems: modelled function bodies that changed shape.  They are a BROKEN TIE (exit 1), but the Gen file is
// still written with everything that could be read, so that the model driver keeps building and the
// correspondence run / property oracles can still produce a concrete failing input.
var problems []string

func problem(f string, a ...any) { problems = append(problems, fmt.Sprintf(f, a...)) }

func die(f string, a ...any) {
	fmt.Fprintf(os.Stderr, "c33 translator: BROKEN TIE: "+f+"\n", a...)
	os.Exit(1)
}

func parse(repo, rel string) *ast.File {
	f, err := parser.ParseFile(fset, filepath.Join(repo, rel), nil, parser.SkipObjectResolution)
	if err != nil {
		die("cannot parse %s: %v", rel, err)
	}
	return f
}

func str(n any) string {
	var b bytes.Buffer
	printer.Fprint(&b, fset, n)
	return strings.Join(strings.Fields(b.String()), " ")
}

func funcDecl(f *ast.File, name string) *ast.FuncDecl {
	for _, d := range f.Decls {
		if fd, ok := d.(*ast.FuncDecl); ok && fd.Name.Name == name {
			return fd
		}
	}
	die("function %s not found", name)
	return nil
}

func funcDeclOpt(f *ast.File, name string) *ast.FuncDecl {
	for _, d := range f.Decls {
		if fd, ok := d.(*ast.FuncDecl); ok && fd.Name.Name == name {
			return fd
		}
	}
	return nil
}

func orders0(o []string) string {
	if len(o) > 0 {
		return o[0]
	}
	return "?"
}

func intLit(e ast.Expr) (int64, bool) {
	bl, ok := e.(*ast.BasicLit)
	if !ok || bl.Kind != token.INT {
		return 0, false
	}
	v, err := strconv.ParseInt(bl.Value, 0, 64)
	return v, err == nil
}

func main() {
	repo := os.Getenv("VERIF_REPO")
	if repo == "" {
		repo = "/repo"
	}
	out := os.Getenv("VERIF_OUT")
	if out == "" {
		die("VERIF_OUT not set")
	}

	// ---- primes.go ---------------------------------------------------------
	pf := parse(repo, "libcalico-go/lib/consistenthash/primes.go")
	var pr []int64
	for _, d := range pf.Decls {
		gd, ok := d.(*ast.GenDecl)
		if !ok || gd.Tok != token.VAR {
			continue
		}
		for _, s := range gd.Specs {
			vs := s.(*ast.ValueSpec)
			if len(vs.Names) == 1 && vs.Names[0].Name == "pr" && len(vs.Values) == 1 {
				cl, ok := vs.Values[0].(*ast.CompositeLit)
				if !ok || str(cl.Type) != "[]uint16" {
					die("pr is not a []uint16 composite literal (%s)", str(vs.Values[0])[:40])
				}
				for _, e := range cl.Elts {
					v, ok := intLit(e)
					if !ok || v < 0 || v > 65535 {
						die("pr element %s is not a uint16 literal", str(e))
					}
					pr = append(pr, v)
				}
			}
		}
	}
	if len(pr) == 0 {
		die("prime table pr not found")
	}
	np := funcDecl(pf, "NextPrimeUint16")
	wantNP := regexp.MustCompile(`^\{ if i > (\d+) \{ .*Panic\(.*\) \} idx := sort\.Search\(len\(pr\), func\(x int\) bool \{ return int\(pr\[x\]\) >= i \}\) if idx == len\(pr\) \{ return pr\[len\(pr\)-1\] \} return pr\[idx\] \}$`)
	m := wantNP.FindStringSubmatch(str(np.Body))
	if m == nil || str(np.Type) != "func(i int) uint16" {
		die("NextPrimeUint16 no longer has the modelled shape: %s %s", str(np.Type), str(np.Body))
	}
	limit, _ := strconv.ParseInt(m[1], 10, 64)

	// ---- constants.go ------------------------------------------------------
	cf := parse(repo, "libcalico-go/lib/consistenthash/constants.go")
	factor := int64(-1)
	ast.Inspect(cf, func(n ast.Node) bool {
		if vs, ok := n.(*ast.ValueSpec); ok && len(vs.Names) == 1 && vs.Names[0].Name == "MaglevEndpointLUTFactor" && len(vs.Values) == 1 {
			if v, ok := intLit(vs.Values[0]); ok {
				factor = v
			}
		}
		return true
	})
	if factor < 0 {
		die("MaglevEndpointLUTFactor literal not found")
	}

	// ---- config_params.go --------------------------------------------------
	cfgf := parse(repo, "felix/config/config_params.go")
	var lo, hi, def int64 = -1, -1, -1
	ast.Inspect(cfgf, func(n ast.Node) bool {
		fl, ok := n.(*ast.Field)
		if !ok || fl.Tag == nil || len(fl.Names) != 1 || fl.Names[0].Name != "BPFMaglevMaxEndpointsPerService" {
			return true
		}
		tag, _ := strconv.Unquote(fl.Tag.Value)
		cfg := reflect.StructTag(tag).Get("config")
		mm := regexp.MustCompile(`^int\((\d+):(\d+)\);(\d+)$`).FindStringSubmatch(cfg)
		if mm == nil || str(fl.Type) != "int" {
			die("BPFMaglevMaxEndpointsPerService tag/type changed: %q %s", cfg, str(fl.Type))
		}
		lo, _ = strconv.ParseInt(mm[1], 10, 64)
		hi, _ = strconv.ParseInt(mm[2], 10, 64)
		def, _ = strconv.ParseInt(mm[3], 10, 64)
		return false
	})
	if lo < 0 {
		die("field BPFMaglevMaxEndpointsPerService not found")
	}
	ls := funcDecl(cfgf, "BPFLUTSizeMaglev")
	if got := str(ls.Body); got != "{ return int(consistenthash.NextPrimeUint16(config.BPFMaglevMaxEndpointsPerService * consistenthash.MaglevEndpointLUTFactor)) }" {
		die("BPFLUTSizeMaglev body changed: %s", got)
	}
	chImport := ""
	for _, im := range cfgf.Imports {
		p, _ := strconv.Unquote(im.Path.Value)
		if strings.HasSuffix(p, "/consistenthash") && (im.Name == nil || im.Name.Name == "consistenthash") {
			chImport = p
		}
	}
	if chImport != "github.com/projectcalico/calico/libcalico-go/lib/consistenthash" {
		die("config_params.go imports consistenthash from %q", chImport)
	}

	// ---- consistenthash.go -------------------------------------------------
	hf := parse(repo, "felix/bpf/consistenthash/consistenthash.go")
	hfs := funcDecl(hf, "hashFromString")
	// The byte order is read from either call shape:
	//   binary.Read(reader, binary.<Order>, &result)      (result's declared type gives the width)
	//   binary.<Order>.Uint32(sum) / .Uint16 / .Uint64
	var orders []string
	resType := ""
	ast.Inspect(hfs, func(n ast.Node) bool {
		switch x := n.(type) {
		case *ast.CallExpr:
			if str(x.Fun) == "binary.Read" && len(x.Args) == 3 {
				orders = append(orders, str(x.Args[1]))
			} else if m := regexp.MustCompile(`^(binary\.\w+)\.(Uint16|Uint32|Uint64)$`).FindStringSubmatch(str(x.Fun)); m != nil {
				orders = append(orders, m[1])
				if resType == "" {
					resType = strings.ToLower(m[2])
				}
			}
		case *ast.ValueSpec:
			if len(x.Names) == 1 && x.Names[0].Name == "result" && x.Type != nil {
				resType = str(x.Type)
			}
		}
		return true
	})
	order, srcOrder := "", ""
	known := map[string]string{"binary.LittleEndian": "littleEndian", "binary.BigEndian": "bigEndian", "binary.NativeEndian": "nativeEndian"}
	switch {
	case len(orders) == 1 && known[orders[0]] != "":
		order, srcOrder = orders[0], known[orders[0]]
	default:
		// unreadable: conservatively the CPU-dependent one, so that arch_independent cannot be proved by accident
		order, srcOrder = "UNREADABLE (found "+strings.Join(orders, ",")+"), conservatively binary.NativeEndian", "nativeEndian"
		problem("hashFromString: cannot read the byte order (found %v)", orders)
	}
	if resType != "uint32" {
		problem("hashFromString: decoded width is %q, model assumes uint32", resType)
	}
	wantHF := "{ reinitHash(h, seed) h.Write([]byte(s)) sum := h.Sum(nil) reader := bytes.NewReader(sum) var result uint32 err := binary.Read(reader, " + orders0(orders) + ", &result) if err != nil { return 0, err } return int(result), nil }"
	if got := str(hfs.Body); got != wantHF {
		problem("hashFromString body changed (byte order read as %s): %s", order, got)
	}
	if rh := funcDeclOpt(hf, "reinitHash"); rh == nil {
		problem("reinitHash is gone: the model resets the hash (h.Reset(); h.Write(seed)) before every hashFromString")
	} else if got := str(rh.Body); got != "{ h.Reset() h.Write(seed) }" {
		problem("reinitHash body changed: %s", got)
	}
	wantOS := "{ offset, err := hashFromString(s, ch.h1, []byte{0}) if err != nil { return 0, 0, err } skip, err := hashFromString(s, ch.h2, []byte{0xa}) if err != nil { return 0, 0, err } return (offset % ch.m), (skip % (ch.m - 1)) + 1, nil }"
	if got := str(funcDecl(hf, "offsetAndSKip").Body); got != wantOS {
		problem("offsetAndSKip body changed: %s", got)
	}
	permBody := str(funcDecl(hf, "permutation").Body)
	if !strings.Contains(permBody, "permutation := make([]int, ch.m) for j := range ch.m { permutation[j] = (offset + (j * skip)) % ch.m } return permutation, nil") {
		problem("permutation body changed: %s", permBody)
	}

	// ---- syncer.go ---------------------------------------------------------
	sf := parse(repo, "felix/bpf/proxy/syncer.go")
	nch := str(funcDecl(sf, "newConsistentHash").Body)
	if nch != "{ return consistenthash.New( s.maglevLUTSize, fnv.New32(), fnv.New32(), ) }" && nch != "{ return consistenthash.New(s.maglevLUTSize, fnv.New32(), fnv.New32()) }" {
		problem("newConsistentHash no longer passes fnv.New32(), fnv.New32(): %s", nch)
	}

	// ---- emit ----------------------------------------------------------------
	var b strings.Builder
	b.WriteString("/- GENERATED by translate/c33 from the current source of the repository. Do not edit. -/\n")
	b.WriteString("import CalicoVerif.Model.C33\nnamespace CalicoVerif.C33.Gen\nopen CalicoVerif.C33\n\n")
	const chunk = 128
	var names []string
	for i := 0; i < len(pr); i += chunk {
		j := i + chunk
		if j > len(pr) {
			j = len(pr)
		}
		name := fmt.Sprintf("prChunk%d", i/chunk)
		names = append(names, name)
		parts := make([]string, 0, chunk)
		for _, v := range pr[i:j] {
			parts = append(parts, strconv.FormatInt(v, 10))
		}
		fmt.Fprintf(&b, "def %s : List Nat := [%s]\n", name, strings.Join(parts, ", "))
	}
	fmt.Fprintf(&b, "\n/-- `pr` of libcalico-go/lib/consistenthash/primes.go (%d entries), in chunks of %d. -/\ndef prChunks : List (List Nat) := [%s]\n", len(pr), chunk, strings.Join(names, ", "))
	b.WriteString("def pr : List Nat := prChunks.flatten\n\n")
	fmt.Fprintf(&b, "/-- literal of `if i > … { Panic }` in NextPrimeUint16 -/\ndef primeLimit : Nat := %d\n", limit)
	fmt.Fprintf(&b, "/-- MaglevEndpointLUTFactor -/\ndef lutFactor : Nat := %d\n", factor)
	fmt.Fprintf(&b, "/-- BPFMaglevMaxEndpointsPerService `config:\"int(%d:%d);%d\"` -/\ndef cfgMin : Nat := %d\ndef cfgMax : Nat := %d\ndef cfgDefault : Nat := %d\n", lo, hi, def, lo, hi, def)
	fmt.Fprintf(&b, "/-- byte order named in hashFromString: `%s` -/\ndef hashByteOrder : SrcOrder := SrcOrder.%s\n", order, srcOrder)
	b.WriteString("\nend CalicoVerif.C33.Gen\n")
	if err := os.WriteFile(out, []byte(b.String()), 0o644); err != nil {
		die("write %s: %v", out, err)
	}
	if len(problems) > 0 {
		for _, p := range problems {
			fmt.Fprintf(os.Stderr, "c33 translator: BROKEN TIE: %s\n", p)
		}
		os.Exit(1)
	}
}
