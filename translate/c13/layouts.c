/* C13 translation unit: pulls in the struct definitions shared between the BPF programs and
 * Felix's Go code, WITHOUT libbpf (not available offline).  bpf.h is skipped through its include
 * guard; the few macros the type headers need from it are defined here.  None of them can change a
 * record layout (they only wrap function definitions / map declarations / static asserts). */
#define __CALI_BPF_H__
#include <linux/types.h>
#include <stddef.h>
#include <stdbool.h>
#define CALI_BPF_INLINE inline __attribute__((always_inline))
#define CALI_MAP_NAMED(name, base, ver, type, ktype, vtype, size, flags)
#define CALI_MAP(name, ver, type, ktype, vtype, size, flags)
#define CALI_MAP_V1(name, type, ktype, vtype, size, flags)
#define COMPILE_TIME_ASSERT(expr) {typedef char array[(expr) ? 1 : -1];}
#define bpf_htonl(x) __builtin_bswap32(x)
#define bpf_ntohl(x) __builtin_bswap32(x)
#include "ip_addr.h"
#include "types.h"
#include "policy.h"
#include "routes.h"
#include "ifstate.h"
#include "failsafe.h"
/* conntrack_cleanup.h only declares the cleanup-queue value and its map; counters.h / conntrack.h (which
 * need the real bpf.h) are skipped through their include guards, conntrack_types.h is already in. */
#define __CALI_COUNTERS_H__
#define __CALI_CONNTRACK_H__
#include "conntrack_cleanup.h"

/* force complete layouts of every shared record */
unsigned long __verif_sizes[] = {
	sizeof(struct cali_tc_state),
	sizeof(struct calico_ct_key), sizeof(struct calico_ct_value), sizeof(struct calico_ct_leg),
	sizeof(struct calico_ct_result),
	sizeof(struct calico_nat_key), sizeof(struct calico_nat_value),
	sizeof(struct calico_nat_secondary_key), sizeof(struct calico_nat_dest),
	sizeof(struct calico_nat_affinity_key), sizeof(struct calico_nat_affinity_val),
	sizeof(struct cali_maglev_key),
	sizeof(struct ip_set_key), sizeof(struct event_header), sizeof(struct fwd),
	sizeof(struct cali_rt_key), sizeof(struct cali_rt), sizeof(struct ifstate_val),
	sizeof(struct failsafe_key), sizeof(struct arp_key), sizeof(struct arp_value), sizeof(struct cali_ccq_value),
};
