#!/usr/bin/env python3
"""
C13 translator.  Regenerates lean/CalicoVerif/Gen/C13.lean from the CURRENT tree ($VERIF_REPO):

 C side   clang (-target bpf) parses translate/c13/layouts.c, which includes the real headers
          felix/bpf-gpl/{ip_addr,types,conntrack_types,nat_types,events_type,policy,routes,ifstate,failsafe,arp}.h (bpf.h is skipped
          through its include guard: libbpf is not available offline), once without and once with
          -DIPVER6.  From the AST (json) every shared record becomes a Lean `Rec` (field name,
          (size, align) of the field type, bit-field width, packed, union); nested records are
          emitted bottom-up.  The Lean layout algorithm (Model/C13.lean) computes offsets/sizes.
 cross    the same clang run with -fdump-record-layouts gives clang's own offsets/sizeof/alignof for
          every emitted record; the generated file proves  layout = clang  by `decide`.
 Go side  (1) harness/cmd/c13 -dump, built -tags verif against $VERIF_REPO, measures the offsets the
          real Go code uses (exported constants, reflect, probing of encoders/accessors);
          (2) the unexported polprog constants stateOff*/ipsKey*/v6Adjust are read from
          felix/bpf/polprog/pol_prog_builder.go (constant expressions evaluated here).
 theorem  per IP version: every Go row agrees with the C layout (`decide` over the finite table).
"""
import json, os, re, subprocess, sys, hashlib

ROOT = os.path.normpath(os.path.join(os.path.dirname(os.path.abspath(__file__)), "..", ".."))
REPO = os.path.normpath(os.environ.get("VERIF_REPO", "/repo"))
OUT = os.environ.get("VERIF_OUT") or os.path.join(ROOT, "lean/CalicoVerif/Gen/C13.lean")
BPF = os.path.join(REPO, "felix/bpf-gpl")
TU = os.path.join(ROOT, "translate/c13/layouts.c")

ROOTS = ["cali_tc_state", "calico_ct_key", "calico_ct_value", "calico_ct_leg", "calico_ct_result",
         "calico_nat", "calico_nat_key", "calico_nat_value", "calico_nat_secondary_key", "calico_nat_dest",
         "calico_nat_affinity_key", "calico_nat_affinity_val", "cali_maglev_key", "ip_set_key",
         "event_header", "fwd", "cali_rt_key", "cali_rt", "ifstate_val", "failsafe_key", "arp_key", "arp_value", "cali_ccq_value"]

BUILTIN = {"char": (1, 1), "signed char": (1, 1), "unsigned char": (1, 1), "_Bool": (1, 1), "bool": (1, 1),
           "short": (2, 2), "unsigned short": (2, 2), "int": (4, 4), "unsigned int": (4, 4),
           "long": (8, 8), "unsigned long": (8, 8), "long long": (8, 8), "unsigned long long": (8, 8)}


def die(msg):
    sys.stderr.write("c13 translator: %s\n" % msg)
    sys.exit(1)


def clang(ver6, extra):
    cmd = ["clang", "-target", "bpf", "-D__x86_64__", "-D__TARGET_ARCH_x86", "-I", BPF,
           "-I", "/usr/include/x86_64-linux-gnu", "-Wno-everything", "-fsyntax-only"]
    if ver6:
        cmd.append("-DIPVER6")
    p = subprocess.run(cmd + extra + [TU], capture_output=True, text=True)
    if p.returncode != 0:
        die("clang failed (%s): %s" % (" ".join(cmd + extra), p.stderr[-2000:]))
    return p.stdout


def lean_str(s):
    return '"' + s.replace("\\", "\\\\").replace('"', '\\"') + '"'


class Version:
    def __init__(self, ver6):
        self.ver6 = ver6
        ast = json.loads(clang(ver6, ["-Xclang", "-ast-dump=json"]))
        self.typedefs = {}      # name -> node
        self.records = {}       # name -> RecordDecl (complete)
        self.by_id = {}
        for n in ast["inner"]:
            if n.get("kind") == "TypedefDecl":
                self.typedefs[n["name"]] = n
            if n.get("kind") == "RecordDecl":
                self.by_id[n["id"]] = n
                if n.get("completeDefinition") and n.get("name"):
                    self.records[n["name"]] = n
        self.defs = []          # [(leanName, isUnion, packed, [(fname, tyExpr, bits)], clangKey)]
        self.done = {}          # key -> leanName
        self.fields_of = {}     # leanName -> [(fname, childLeanName|None, anonymous?, bits, big-endian?)]
        self.key_of = {}        # leanName -> clang's name of the record
        self.dump = self.parse_dump(clang(ver6, ["-Xclang", "-fdump-record-layouts"]))

    # ---- clang -fdump-record-layouts -------------------------------------------------------
    @staticmethod
    def parse_dump(txt):
        out = {}
        for blk in txt.split("*** Dumping AST Record Layout\n")[1:]:
            lines = [l for l in blk.split("\n") if "|" in l]
            if not lines:
                continue
            hdr = lines[0].split("|", 1)[1].strip()
            m = re.search(r"\[sizeof=(\d+), align=(\d+)", blk)
            if not m:
                continue
            kids = []
            for l in lines[1:]:
                left, right = l.split("|", 1)
                left = left.strip()
                if not left:
                    continue
                depth = (len(right) - len(right.lstrip(" ")) - 1) // 2
                if depth != 1:
                    continue
                mm = re.match(r"^(\d+)(?::(\d+)-(\d+))?$", left)
                if not mm:
                    die("cannot parse layout line %r" % l)
                off = int(mm.group(1)) * 8 + (int(mm.group(2)) if mm.group(2) else 0)
                kids.append(off)
            out[hdr] = (kids, int(m.group(1)), int(m.group(2)))
        return out

    # ---- types ------------------------------------------------------------------------------
    def type_expr(self, t):
        """Lean `Ty` expression for a C type string."""
        t = re.sub(r"\b(const|volatile)\b", "", t).strip()
        m = re.match(r"^(.*?)\s*\[(\d+)\]((\[\d+\])*)$", t)
        if m:
            inner = m.group(1) + m.group(3)
            return "(Ty.array %s %s)" % (self.type_expr(inner), m.group(2))
        if t.endswith("*"):
            return "(Ty.mk 8 8)"
        if t in BUILTIN:
            return "(Ty.mk %d %d)" % BUILTIN[t]
        if t.startswith("enum "):
            return "(Ty.mk 4 4)"
        m = re.match(r"^(struct|union) (\w+)$", t)
        if m:
            if m.group(2) not in self.records:
                die("record %s is not defined" % t)
            return "%s.ty" % self.build(self.records[m.group(2)], m.group(2), t)
        if t in self.typedefs:
            td = self.typedefs[t]
            owned = None
            for x in td.get("inner", []):
                if x.get("ownedTagDecl"):
                    owned = x["ownedTagDecl"]["id"]
            if owned:
                return "%s.ty" % self.build(self.by_id[owned], t, t)
            ty = td["type"]
            return self.type_expr(ty.get("desugaredQualType") or ty["qualType"])
        die("unknown C type %r" % t)

    def py_size(self, t):
        """(size in bytes) of a non-record C type string, mirroring type_expr."""
        t = re.sub(r"\b(const|volatile)\b", "", t).strip()
        m = re.match(r"^(.*?)\s*\[(\d+)\]((\[\d+\])*)$", t)
        if m:
            return self.py_size(m.group(1) + m.group(3)) * int(m.group(2))
        if t.endswith("*"):
            return 8
        if t in BUILTIN:
            return BUILTIN[t][0]
        if t.startswith("enum "):
            return 4
        m = re.match(r"^(struct|union) (\w+)$", t)
        if m:
            return self.dump["%s %s" % (m.group(1), m.group(2))][1]
        if t in self.typedefs:
            td = self.typedefs[t]
            owned = [x["ownedTagDecl"]["id"] for x in td.get("inner", []) if x.get("ownedTagDecl")]
            if owned:
                return self.dump[t][1]
            ty = td["type"]
            return self.py_size(ty.get("desugaredQualType") or ty["qualType"])
        die("unknown C type %r" % t)

    def build(self, node, lean_name, clang_key):
        if node["id"] in self.done:
            return self.done[node["id"]]
        if not node.get("completeDefinition"):
            die("record %s incomplete" % lean_name)
        is_union = node.get("tagUsed") == "union"
        packed = False
        fields, struct_fields = [], []
        pending = None
        anon_i = 0
        for c in node.get("inner", []):
            k = c.get("kind")
            if k == "PackedAttr":
                packed = True
            elif k in ("AlignedAttr", "MaxFieldAlignmentAttr"):
                die("%s: %s is not modelled" % (lean_name, k))
            elif k == "RecordDecl":
                pending = c
            elif k == "FieldDecl":
                qt = c["type"]["qualType"]
                bits = None
                if c.get("isBitfield"):
                    vals = [x.get("value") for x in c.get("inner", []) if x.get("kind") == "ConstantExpr"]
                    if not vals or int(vals[0]) == 0:
                        die("%s.%s: unsupported bit-field" % (lean_name, c.get("name")))
                    bits = int(vals[0])
                child = None
                if "(anonymous" in qt or "(unnamed" in qt:
                    if pending is None:
                        die("%s: anonymous member without record" % lean_name)
                    base = re.sub(r"\s*\[\d+\]$", "", qt)
                    child = self.build(pending, "%s__%d" % (lean_name, anon_i), base)
                    anon_i += 1
                    ty = "%s.ty" % child
                    if qt != base:
                        die("%s: array of anonymous records not modelled" % lean_name)
                    pending = None
                else:
                    ty = self.type_expr(c["type"].get("desugaredQualType") or qt)
                    m = re.match(r"^(struct|union) (\w+)$", (c["type"].get("desugaredQualType") or qt).strip())
                    if m:
                        child = self.done[self.records[m.group(2)]["id"]]
                    elif qt in self.typedefs:
                        td = self.typedefs[qt]
                        # typedef chain ending in an anonymous record (ipv46_addr_t -> ipv6_addr_t)
                        seen = set()
                        while td is not None and td["name"] not in seen:
                            seen.add(td["name"])
                            owned = [x["ownedTagDecl"]["id"] for x in td.get("inner", []) if x.get("ownedTagDecl")]
                            if owned:
                                child = self.done.get(owned[0])
                                break
                            nxt = td["type"]["qualType"]
                            td = self.typedefs.get(nxt)
                name = c.get("name") or ("_anon%d" % (anon_i - 1))
                fields.append((name, ty, bits))
                if bits is not None:
                    nbits = bits
                elif "(anonymous" in qt or "(unnamed" in qt:
                    nbits = 8 * self.dump[re.sub(r"\s*\[\d+\]$", "", qt)][1]
                else:
                    nbits = 8 * self.py_size(c["type"].get("desugaredQualType") or qt)
                struct_fields.append((name, child, not c.get("name"), nbits, qt.startswith("__be")))
            elif k in ("IndirectFieldDecl",):
                pass
            elif k in ("FullComment", "ParagraphComment", "TextComment"):
                pass
            else:
                die("%s: unexpected member kind %s" % (lean_name, k))
        self.done[node["id"]] = lean_name
        self.key_of[lean_name] = clang_key
        self.defs.append((lean_name, is_union, packed, fields, clang_key))
        self.fields_of[lean_name] = struct_fields
        return lean_name

    # ---- flattened member paths ----------------------------------------------------------------
    def paths(self, lean_name, prefix="", chain=()):
        out = []
        for (fname, child, anonymous, _, _) in self.fields_of[lean_name]:
            step = chain + ((lean_name, fname),)
            if anonymous:
                out += self.paths(child, prefix, step)
            else:
                out.append((prefix + fname, step))
                if child:
                    out += self.paths(child, prefix + fname + ".", step)
        return out

    def clang_paths(self, lean_name, prefix="", base=0):
        """path -> (bit offset, bit size, big-endian) using CLANG's member offsets (for the harness oracle)."""
        out = {}
        kids = self.dump[self.key_of[lean_name]][0]
        for i, (fname, child, anonymous, nbits, be) in enumerate(self.fields_of[lean_name]):
            off = base + kids[i]
            if anonymous:
                out.update(self.clang_paths(child, prefix, off))
            else:
                out[prefix + fname] = [off, nbits, be]
                if child:
                    out.update(self.clang_paths(child, prefix + fname + ".", off))
        return out


def emit_version(v, ns, go_rows, b, t, accesses=(), scenarios=(), v6=False):
    b.append("namespace %s\n" % ns)
    t.append("namespace %s\n" % ns)
    for (name, is_union, packed, fields, _) in v.defs:
        b.append("def %s : Rec := { isUnion := %s, packed := %s, fields := [" % (
            name, "true" if is_union else "false", "true" if packed else "false"))
        fl = []
        for (fname, ty, bits) in fields:
            fl.append("  ⟨%s, %s, %s⟩" % (lean_str(fname), ty, "none" if bits is None else "some %d" % bits))
        b.append(",\n".join(fl))
        b.append("] }\n")
    # clang cross-check
    b.append("/-- clang's own record layouts (bit offsets of the direct members, sizeof, alignof). -/")
    b.append("def clangLayouts : List (Rec × List Nat × Nat × Nat) := [")
    cl = []
    for (name, _, _, fields, key) in v.defs:
        if key not in v.dump:
            die("clang did not dump a layout for %r" % key)
        kids, size, align = v.dump[key]
        if len(kids) != len(fields):
            die("%s: clang lists %d members, AST has %d" % (key, len(kids), len(fields)))
        cl.append("  (%s, %s, %d, %d)" % (name, "[" + ", ".join(map(str, kids)) + "]", size, align))
    b.append(",\n".join(cl))
    b.append("]\n")
    t.append("/-- The Lean layout algorithm reproduces clang's layout of every translated record\n(finite table). -/")
    t.append("theorem layout_eq_clang : clangLayouts.all (fun e =>\n    e.1.layout.map (·.off) == e.2.1 && e.1.size == e.2.2.1 && e.1.align == e.2.2.2) = true := by decide\n")
    # flattened paths per root
    b.append("/-- Member paths (anonymous members flattened) of every shared structure. -/")
    b.append("def structs : List (String × Rec × List (String × List (Rec × String))) := [")
    sl = []
    for r in ROOTS:
        if r not in v.done.values():
            die("root %s not translated" % r)
        ps = v.paths(r)
        items = ["    (%s, [%s])" % (lean_str(p), ", ".join("(%s, %s)" % (rn, lean_str(fn)) for (rn, fn) in ch)) for (p, ch) in ps]
        sl.append("  (%s, %s, [\n%s])" % (lean_str(r), r, ",\n".join(items)))
    b.append(",\n".join(sl))
    b.append("]\n")
    def emit_rows(name, doc, rs):
        b.append("/-- %s -/" % doc)
        b.append("def %s : List GoRow := [" % name)
        b.append(",\n".join("  ⟨%s, %s, %d, %d, %s, %s⟩" % (lean_str(r["struct"]), lean_str(r["path"]), r["off"], r["size"],
                                                          lean_str(r["mode"]), lean_str(r["go"])) for r in rs))
        b.append("]\n")
    strong = [r for r in go_rows if r["mode"] in ("exact", "bit")]
    weak = [r for r in go_rows if r["mode"] not in ("exact", "bit")]
    emit_rows("goRows", "Go-side facts checked at FULL strength: same offset AND same size as the C member (mode `exact`; `bit`: bit-field, in bits; path \"\" = total size).  Bytes.", strong)
    emit_rows("goWeakRows", "Go-side facts for which only LESS than offset+size equality is meaningful or observable: `within` (starts at the member, shorter), `inside` (a chunk of a wider member), `offset` (constant defined but never accessed), `atmost` (one 512-byte map value serves the 464-byte IPv4 and the 512-byte IPv6 state), `mirror-size`.", weak)
    ms = [r["size"] for r in go_rows if r["mode"] == "mirror-size"]
    if ms:
        b.append("/-- `unsafe.Sizeof(state.State{})`: the Go mirror of `struct cali_tc_state`. -/\ndef stateMirrorSize : Nat := %d\n" % ms[0])
    acc = sorted(set((a["field"] or "?", a["off"], a["bits"]) for a in accesses))
    b.append("/-- Every load/store relative to the state pointer R9 found in REAL policy programs (built by the real\npolprog.Builder for single-match rules), with the member the builder's own annotation names. -/")
    b.append("def builderAccesses : List (String × Nat × Nat) := [%s]\n" % ", ".join("(%s, %d, %d)" % (lean_str(f), o, n) for (f, o, n) in acc))
    ms = []
    for sc in scenarios:
        key = (sc["kind"], sc["field"], sc["prefix"], tuple((a["off"], a["bits"]) for a in sc["acc"]), any(a["store"] for a in sc["acc"]))
        if key not in ms:
            ms.append(key)
    for k in ms:
        if k[4]:
            die("a match wrote to the state: %r" % (k,))
    b.append("/-- Per single-match rule: what the real builder's program reads for the match (deduplicated over\nnegation / placement). -/")
    b.append("def builderMatches : List BuilderMatch := [")
    b.append(",\n".join("  ⟨%s, %s, %d, [%s]⟩" % (lean_str(k[0]), lean_str(k[1]), k[2], ", ".join("(%d, %d)" % a for a in k[3])) for k in ms))
    b.append("]\n")
    t.append("/-- Every state access of the real policy programs lies inside the member it is annotated with. -/")
    t.append("theorem builder_accesses_inside : builderAccesses.all (accessInside structs) = true := by decide +kernel\n")
    t.append("/-- Every match reads exactly the bytes of the member its leg denotes (word k of an address at +4k). -/")
    t.append("theorem builder_matches_ok : builderMatches.all (matchOk %s structs) = true := by decide +kernel\n" % ("true" if v6 else "false"))
    be = []
    for r in ROOTS:
        for pth, (_, _, isbe) in sorted(v.clang_paths(r).items()):
            if isbe:
                be.append("(%s, %s)" % (lean_str(r), lean_str(pth)))
    b.append("/-- Members declared with a big-endian type (`__be16/32/64`). -/")
    b.append("def beFields : List (String × String) := [%s]\n" % ", ".join(be))
    t.append("/-- Every exact row: the Go code uses the same offset and the same size as the C member (finite table). -/")
    t.append("theorem go_matches_c : goRows.all (rowOk structs) = true := by decide +kernel\n")
    t.append("/-- The weaker rows hold in their weaker sense (see `goWeakRows`). -/")
    t.append("theorem go_weak_rows_ok : goWeakRows.all (rowOk structs) = true := by decide +kernel\n")
    b.append("end %s\n" % ns)
    t.append("end %s\n" % ns)


# Every load/store the policy-program builder does on the per-packet state and on the IP-set key it
# builds on its stack: (constant, extra byte offset, width in bits) -> (IP version(s), C member path, mode).
# `exact`: the access covers the whole C member.  `within`: starts at the member, shorter (low byte of a
# little-endian counter).  `inside`: a chunk of a wider member (64-bit halves of an IPv6 address, 32-bit
# halves of the packed 64-bit set id, one element of rule_ids[]).  The table is checked against the
# source: every direct access found there must be classified here and vice versa; accesses through the
# matchLeg helpers (offsetToStateIPAddressField / offsetToStatePortField, ipOffset/portOffset parameters)
# are listed by hand for the three constants each helper can return.
IPC = ["stateOffIPSrc", "stateOffPreNATIPDst", "stateOffPostNATIPDst"]
PORTC = ["stateOffSrcPort", "stateOffPreNATDstPort", "stateOffPostNATDstPort"]
DIRECT = {  # found by regex in the source
    ("stateOffFlags", 64): ("46", "flags", "exact"),
    ("stateOffPolResult", 32): ("46", "pol_rc", "exact"),
    ("stateOffRulesHit", 8): ("46", "rules_hit", "within"),
    ("stateOffIPProto", 8): ("46", "ip_proto", "exact"),
    ("stateOffICMPType", 8): ("46", "icmp_type", "exact"),
    # 16-bit load of type+code: the anonymous {icmp_type, icmp_code} pair, i.e. its union sibling dport
    ("stateOffICMPType", 16): ("46", "dport", "exact"),
}
STACK = {  # StoreStackN(reg, keyOffset+ipsKeyX[+v6Adjust][+k])
    ("ipsKeyPad", 0, 8): ("46", "pad", "exact"),
    ("ipsKeyPrefix", 0, 32): ("46", "mask", "exact"),
    ("ipsKeyAddr", 0, 32): ("4", "addr", "exact"),
    ("ipsKeyAddr", 0, 64): ("6", "addr", "inside"),
    ("ipsKeyAddr", 8, 64): ("6", "addr", "inside"),
    ("ipsKeyPort", 0, 16): ("46", "port", "exact"),
    ("ipsKeyProto", 0, 8): ("46", "protocol", "exact"),
    ("ipsKeyID", 0, 32): ("46", "set_id", "inside"),
    ("ipsKeyID", 4, 32): ("46", "set_id", "inside"),
}


def polprog_rows():
    src = open(os.path.join(REPO, "felix/bpf/polprog/pol_prog_builder.go")).read()
    consts = {}
    m = re.search(r"stateEventHdrSize\s+int16\s*=\s*(\d+)", src)
    if not m:
        die("stateEventHdrSize not found")
    consts["stateEventHdrSize"] = int(m.group(1))

    def ev(expr):
        expr = expr.strip()
        if not re.fullmatch(r"[\w\s+*()-]+", expr):
            die("unexpected constant expression %r" % expr)
        return int(eval(expr, {"__builtins__": {}}, dict(consts)))
    off, field = {}, {}
    for m in re.finditer(r"(stateOff\w+)\s*=\s*asm\.FieldOffset\{Offset:\s*([^,]+),\s*Field:\s*\"state->([\w.]+)\"\}", src):
        off[m.group(1)] = ev(m.group(2))
        field[m.group(1)] = m.group(3)
    if len(off) < 10:
        die("found only %d stateOff constants" % len(off))
    ips = {}
    for m in re.finditer(r"(ipsKey\w+)\s+int16\s*=\s*(\d+)", src):
        ips[m.group(1)] = int(m.group(2))
    if set(ips) != {"ipsKeyPrefix", "ipsKeyID", "ipsKeyAddr", "ipsKeyPort", "ipsKeyProto", "ipsKeyPad"}:
        die("ipsKey constants changed: %s" % sorted(ips))
    m = re.search(r"v6Adjust\s*=\s*(\d+)", src)
    if not m:
        die("v6Adjust not found")
    adj = int(m.group(1))
    rows = {"4": [], "6": []}

    def add(vers, st, path, o, bits, mode, what):
        for v in vers:
            rows[v].append({"struct": st, "path": path, "off": o, "size": bits // 8, "mode": mode, "go": what})
    # direct state accesses
    found = set((c, int(w)) for (_, w, c) in re.findall(r"\.(Load|Store)(8|16|32|64)\([^()]*\b(stateOff\w+)\)", src))
    if found != set(DIRECT):
        die("state accesses in pol_prog_builder.go changed: unclassified %s, vanished %s" % (sorted(found - set(DIRECT)), sorted(set(DIRECT) - found)))
    for (c, w), (vers, path, mode) in DIRECT.items():
        add(vers, "cali_tc_state", path, off[c], w, mode, "polprog Load/Store%d(%s)" % (w, c))
    # accesses through the matchLeg helpers
    for fn, cs in (("offsetToStateIPAddressField", IPC), ("offsetToStatePortField", PORTC)):
        body = re.search(r"func \(leg matchLeg\) %s\(\).*?\n}" % fn, src, re.S)
        if not body or set(re.findall(r"stateOff\w+", body.group(0))) != set(cs):
            die("%s no longer returns exactly %s" % (fn, cs))
    need = [r"p\.b\.Load32\(asm\.R1, asm\.R9, offset\)", r"offset\.Offset \+= int16\(section \* 4\)",
            r"p\.b\.Load32\(asm\.R1, asm\.R9, ipOffset\)", r"p\.b\.Load64\(asm\.R1, asm\.R9, ipOffset\)",
            r"ipOffset\.Offset \+= 8", r"p\.b\.Load16\(asm\.R1, asm\.R9, portOffset\)",
            r"p\.b\.Load16\(asm\.R1, asm\.R9, leg\.offsetToStatePortField\(\)\)",
            r"AddImm64\(asm\.R1, int32\(stateOffRuleIDs\.Offset\)\)", r"ShiftLImm64\(asm\.R1, 3\)"]
    for pat in need:
        if not re.search(pat, src):
            die("expected access pattern vanished from pol_prog_builder.go: %s" % pat)
    for c in IPC:
        add("4", "cali_tc_state", field[c], off[c], 32, "exact", "polprog Load32(%s) [IPv4 address]" % c)
        for i, sub in enumerate("abcd"):
            add("6", "cali_tc_state", field[c] + "." + sub, off[c] + 4 * i, 32, "exact", "polprog Load32(%s+%d) [IPv6 CIDR match]" % (c, 4 * i))
        for k in (0, 8):
            add("6", "cali_tc_state", field[c], off[c] + k, 64, "inside", "polprog Load64(%s+%d) [IPv6 IP-set key]" % (c, k))
    for c in PORTC:
        add("46", "cali_tc_state", field[c], off[c], 16, "exact", "polprog Load16(%s)" % c)
    add("46", "cali_tc_state", "rule_ids", off["stateOffRuleIDs"], 64, "inside", "polprog Store64(stateOffRuleIDs + 8*rules_hit)")
    # IP-set key built on the stack
    st_found = set()
    for (w, c, a, k) in re.findall(r"StoreStack(8|16|32|64)\(asm\.R1, keyOffset\+(ipsKey\w+)(\+v6Adjust)?(?:\+(\d+))?\)", src):
        st_found.add((c, int(k or 0), int(w), bool(a)))
    if set((c, k, w) for (c, k, w, _) in st_found) != set(STACK):
        die("IP-set key stores changed: %s" % sorted(st_found))
    for (c, k, w, a) in sorted(st_found):
        vers, path, mode = STACK[(c, k, w)]
        for v in vers:
            add(v, "ip_set_key", path, ips[c] + k + (adj if (a and v == "6") else 0), w, mode,
                "polprog StoreStack%d(%s%s%s)" % (w, c, "+v6Adjust" if a else "", "+%d" % k if k else ""))
    # constants the builder defines but never uses in an access (`_ = stateOffX`): offset only
    used = set(c for (c, _) in DIRECT) | set(IPC) | set(PORTC) | {"stateOffRuleIDs"}
    for c in sorted(set(off) - used):
        add("46", "cali_tc_state", field[c], off[c], 0, "offset", "polprog.%s (defined, never accessed)" % c)
    return rows["4"], rows["6"]


def go_dump():
    if REPO == "/repo":
        harn = os.path.join(ROOT, "harness")
    else:
        harn = os.path.join(ROOT, ".build", "harness-alt-" + hashlib.sha1(REPO.encode()).hexdigest()[:8])
        os.makedirs(harn, exist_ok=True)
        subprocess.run(["rsync", "-a", "--delete", "--exclude", "go.mod", "--exclude", "go.sum", "--exclude", "go.mod.gen",
                        os.path.join(ROOT, "harness") + "/", harn + "/"], check=True)
    subprocess.run([os.path.join(ROOT, "bin", "mkgomod")], env=dict(os.environ, VERIF_REPO=REPO, VERIF_HARNESS=harn), check=True)
    env = dict(os.environ, GOFLAGS="-mod=mod", GOPROXY="off", CGO_ENABLED="0")
    for k, bad in (("GOTOOLCHAIN", "local"), ("GOSUMDB", "off")):
        if env.get(k) == bad:
            env.pop(k)
    p = subprocess.run(["go", "run", "-tags", "verif", "./cmd/c13", "-dump"], cwd=harn, env=env, capture_output=True, text=True)
    if p.returncode != 0:
        die("go dump failed: %s" % p.stderr[-3000:])
    return json.loads(p.stdout)


def main():
    dump = go_dump()
    rows = dump["rows"]
    pp4, pp6 = polprog_rows()
    v4, v6 = Version(False), Version(True)
    for v in (v4, v6):
        for r in ROOTS:
            if r not in v.records:
                die("struct %s not found" % r)
            v.build(v.records[r], r, "struct " + r)
    b = ["/- GENERATED by translate/c13/gen.py from felix/bpf-gpl/*.h (clang -target bpf AST), the real Go code\n(harness/cmd/c13 -dump) and felix/bpf/polprog/pol_prog_builder.go — do not edit. -/",
         "import CalicoVerif.Model.C13Table\nopen CalicoVerif.C13\n"]
    t = ["/- GENERATED by translate/c13/gen.py — the finite-table theorems over Gen/C13.lean (kept in a separate\nfile so that the model driver still builds, and can exhibit the failing row, when one of them fails). -/",
         "import CalicoVerif.Gen.C13\nopen CalicoVerif.C13\n"]
    emit_version(v4, "CalicoVerif.C13.Gen.V4", [r for r in rows if r["ver"] == "4"] + pp4, b, t,
                 dump["accesses"]["4"], [x for x in dump["scenarios"] if x["ver"] == "4"], False)
    emit_version(v6, "CalicoVerif.C13.Gen.V6", [r for r in rows if r["ver"] == "6"] + pp6, b, t,
                 dump["accesses"]["6"], [x for x in dump["scenarios"] if x["ver"] == "6"], True)
    os.makedirs(os.path.dirname(OUT), exist_ok=True)
    open(OUT, "w").write("\n".join(b))
    open(os.path.join(os.path.dirname(OUT), "C13Thm.lean"), "w").write("\n".join(t))
    # sizeof of every root record as clang computes it: read by the harness oracle (the Go side has
    # no other way to know a C size)
    sizes = {"4": {r: v4.dump["struct " + r][1] for r in ROOTS}, "6": {r: v6.dump["struct " + r][1] for r in ROOTS}}
    os.makedirs(os.path.join(ROOT, ".build"), exist_ok=True)
    json.dump(sizes, open(os.path.join(ROOT, ".build", "c13-csizes.json"), "w"))
    # clang's offset/size of every member path + the polprog rows: the harness oracle compares the Go
    # side with these directly (a concrete failing row even when the Lean theorem no longer proves)
    cl = {"4": {r: v4.clang_paths(r) for r in ROOTS}, "6": {r: v6.clang_paths(r) for r in ROOTS},
          "polprog": {"4": pp4, "6": pp6}}
    json.dump(cl, open(os.path.join(ROOT, ".build", "c13-clayout.json"), "w"))


if __name__ == "__main__":
    main()
