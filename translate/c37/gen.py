#!/usr/bin/env python3
"""C37 translator: regenerate lean/CalicoVerif/Gen/C37.lean from /repo's CURRENT source.

Facts extracted (a missing fact is an error = broken tie, never silently skipped):
  * felix/rules/rule_defs.go      ChainNamePrefix and every const `X = ChainNamePrefix + "…"`;
                                  the ones ending in "-" are the dynamic chain-name prefixes
  * felix/iptables/table.go       MaxChainNameLength
  * felix/nftables/table.go       MaxChainNameLength (= knftables.NameLengthMax, resolved in the module cache)
  * felix/ipsets/ipset_defs.go    MaxIPSetNameLength, IPSetNamePrefix, mainIpsetToken
  * libcalico-go/lib/hash/unique_id.go  shortenedPrefix
  * felix/rules/endpoints.go      MaxPolicyGroupUIDLength expression (checked to be ipt max - len(group prefix))
"""
import os, re, subprocess, sys

repo = os.environ.get("VERIF_REPO", "/repo")
out = os.environ["VERIF_OUT"]


def read(p):
    return open(os.path.join(repo, p)).read()


def need(m, what):
    if not m:
        sys.exit("C37 translator: fact not found: " + what)
    return m


def lean_str(s):
    return "[" + ", ".join(str(b) for b in s.encode()) + "]"


rd = read("felix/rules/rule_defs.go")
cnp = need(re.search(r'^\s*ChainNamePrefix\s*=\s*"([^"]*)"', rd, re.M), "ChainNamePrefix").group(1)
consts = []
for m in re.finditer(r'^\s*(\w+)(?:\s+\w+)?\s*=\s*ChainNamePrefix\s*\+\s*"([^"]*)"\s*$', rd, re.M):
    consts.append((m.group(1), cnp + m.group(2)))
dyn = [(n, v) for n, v in consts if v.endswith("-")]
static = [(n, v) for n, v in consts if not v.endswith("-")]
for want in ["PolicyInboundPfx", "PolicyOutboundPfx", "ProfileInboundPfx", "ProfileOutboundPfx",
             "PolicyGroupInboundPrefix", "PolicyGroupOutboundPrefix", "WorkloadToEndpointPfx",
             "WorkloadFromEndpointPfx", "HostToEndpointPfx", "HostFromEndpointPfx"]:
    if want not in dict(dyn):
        sys.exit("C37 translator: dynamic prefix constant missing: " + want)

ipt = int(need(re.search(r'^\s*MaxChainNameLength\s*=\s*(\d+)', read("felix/iptables/table.go"), re.M),
               "iptables.MaxChainNameLength").group(1))
nft_src = read("felix/nftables/table.go")
m = re.search(r'^\s*MaxChainNameLength\s*=\s*(\d+)', nft_src, re.M)
if m:
    nft = int(m.group(1))
else:
    need(re.search(r'^\s*MaxChainNameLength\s*=\s*knftables\.NameLengthMax', nft_src, re.M), "nftables.MaxChainNameLength")
    env = dict(os.environ, GOFLAGS="-mod=mod", GOPROXY="off")
    d = subprocess.run(["go", "list", "-m", "-f", "{{.Dir}}", "sigs.k8s.io/knftables"], cwd=repo, env=env,
                       capture_output=True, text=True).stdout.strip()
    if not d:
        sys.exit("C37 translator: cannot locate sigs.k8s.io/knftables")
    src = "".join(open(os.path.join(d, f)).read() for f in os.listdir(d) if f.endswith(".go") and not f.endswith("_test.go"))
    nft = int(need(re.search(r'^\s*NameLengthMax\s*=\s*(\d+)', src, re.M), "knftables.NameLengthMax").group(1))

ips = read("felix/ipsets/ipset_defs.go")
max_ipset = int(need(re.search(r'^const MaxIPSetNameLength\s*=\s*(\d+)', ips, re.M), "MaxIPSetNameLength").group(1))
ipset_pfx = need(re.search(r'^const IPSetNamePrefix\s*=\s*"([^"]*)"', ips, re.M), "IPSetNamePrefix").group(1)
temp_tok = need(re.search(r'^\s*tempIpsetToken\s*=\s*"([^"]*)"', ips, re.M), "tempIpsetToken").group(1)
temp_fmt = need(re.search(r'func \(c IPVersionConfig\) NameForTempIPSet\(n uint\) string \{\s*return ([^\n]*)\n', ips), "NameForTempIPSet body").group(1).strip()
main_tok = need(re.search(r'^\s*mainIpsetToken\s*=\s*"([^"]*)"', ips, re.M), "mainIpsetToken").group(1)
short = need(re.search(r'^const shortenedPrefix\s*=\s*"([^"]*)"', read("libcalico-go/lib/hash/unique_id.go"), re.M),
             "shortenedPrefix").group(1)
need(re.search(r'const MaxPolicyGroupUIDLength\s*=\s*iptables\.MaxChainNameLength\s*-\s*len\(PolicyGroupInboundPrefix\)',
               read("felix/rules/endpoints.go")), "MaxPolicyGroupUIDLength expression")
grp_uid = ipt - len(dict(dyn)["PolicyGroupInboundPrefix"])

# ---- identity strings (what is hashed / used as the identity) --------------------------------
pid_src = read("felix/types/policy_id.go")
m_str = need(re.search(r'func \(p PolicyID\) String\(\) string \{\s*return fmt\.Sprintf\("([^"]*)",\s*([^)]*)\)', pid_src), "PolicyID.String format")
str_fmt, str_args = m_str.group(1), [a.strip() for a in m_str.group(2).split(",")]
m_id = need(re.search(r'func \(p PolicyID\) ID\(\) string \{(.*?)\n\}', pid_src, re.S), "PolicyID.ID body").group(1)
id_parts = re.findall(r'(if p\.Namespace != "" \{)|return fmt\.Sprintf\("([^"]*)",\s*(.*)\)\s*$', m_id, re.M)
id_shape = []
for cond, f, a in id_parts:
    id_shape.append("if-namespace-set" if cond else "%s <- %s" % (f, ",".join(x.strip() for x in a.split(","))))
short_kinds = dict(re.findall(r'^\s*(ShortKind\w+)\s+string\s*=\s*"([^"]*)"', pid_src, re.M))
sw = need(re.search(r'func \(p PolicyID\) KindShortName\(\) string \{\s*switch p\.Kind \{(.*?)default:', pid_src, re.S), "KindShortName switch").group(1)
cases = re.findall(r'case\s+(\w+)\.(\w+):\s*return\s+(\w+)', sw)
if not cases:
    sys.exit("C37 translator: no KindShortName cases")
kind_src = ""
for d in ["api/pkg/apis/projectcalico/v3", "libcalico-go/lib/backend/model"]:
    dd = os.path.join(repo, d)
    for f in sorted(os.listdir(dd)):
        if f.endswith(".go") and not f.endswith("_test.go"):
            kind_src += open(os.path.join(dd, f)).read()
kind_table = []
for pkg, const, sk in cases:
    mv = need(re.search(r'^\s*%s\s*=\s*"([^"]*)"' % re.escape(const), kind_src, re.M), "kind constant " + const)
    if sk not in short_kinds:
        sys.exit("C37 translator: short kind constant missing: " + sk)
    kind_table.append((const, mv.group(1), short_kinds[sk]))
ep = read("felix/rules/endpoints.go")
uid = need(re.search(r'func \(g \*PolicyGroup\) UniqueID\(\) string \{(.*?)\n\}', ep, re.S), "PolicyGroup.UniqueID").group(1)
# the write closure: hashes s then a separator literal
sep = need(re.search(r'write := func\(s string\) \{\s*_, err := hash\.Write\(\[\]byte\(s\)\).*?hash\.Write\(\[\]byte\("((?:\\.|[^"\\])*)"\)\)', uid, re.S), "UniqueID write closure").group(1)
sep = bytes(sep, "utf-8").decode("unicode_escape")
after = uid[uid.index("write := func"):]
after = after[after.index("\n\t}\n") + 4:]
writes = []
for line in after.split("\n"):
    t = line.strip()
    mm = re.match(r'write\((.*)\)$', t)
    if mm:
        writes.append(mm.group(1))
    elif t.startswith("for ") and "range g.Policies" in t:
        writes.append("<for policy in g.Policies>")
hasher = need(re.search(r'hash := hash\.Hash\((\w+\.\w+)\(\)\)', uid), "UniqueID hasher").group(1)
dirs = dict(re.findall(r'^\s*(PolicyDirection(?:Inbound|Outbound))\s+PolicyDirection\s*=\s*"([^"]*)"', rd, re.M))
if set(dirs) != {"PolicyDirectionInbound", "PolicyDirectionOutbound"}:
    sys.exit("C37 translator: PolicyDirection constants missing")
prof = need(re.search(r'func \(p ProfileID\) ID\(\) string \{\s*return ([^\n]*)\n', read("felix/types/profile_id.go")), "ProfileID.ID").group(1).strip()


def lean_strs(xs):
    return "[" + ", ".join(lean_str(x) for x in xs) + "]"


L = ["/- GENERATED by translate/c37/gen.py from %s — do not edit. -/" % repo,
     "namespace CalicoVerif.C37.Gen", "",
     "def maxChainNameLengthIptables : Int := %d" % ipt,
     "def maxChainNameLengthNftables : Int := %d" % nft,
     "def maxIPSetNameLength : Nat := %d" % max_ipset,
     "def maxPolicyGroupUIDLength : Nat := %d" % grp_uid,
     "def ipSetNamePrefix : List Nat := %s  -- %r" % (lean_str(ipset_pfx), ipset_pfx),
     "def mainIpsetToken : List Nat := %s  -- %r" % (lean_str(main_tok), main_tok),
     "def tempIpsetToken : List Nat := %s  -- %r" % (lean_str(temp_tok), temp_tok),
     "def nameForTempIPSetExpr : String := \"%s\"" % temp_fmt,
     "def shortenedPrefix : List Nat := %s  -- %r" % (lean_str(short), short), ""]
for n, v in dyn:
    L.append("def pfx_%s : List Nat := %s  -- %r" % (n, lean_str(v), v))
L.append("")
L.append("/-- Every dynamic chain-name prefix (constants of rule_defs.go ending in \"-\"). -/")
L.append("def dynamicPrefixes : List (List Nat) := [" + ", ".join("pfx_" + n for n, _ in dyn) + "]")
L.append("")
L.append("/-- Every fixed chain name built from ChainNamePrefix in rule_defs.go. -/")
L.append("def staticNames : List (List Nat) := [\n  " + ",\n  ".join("%s  /- %s -/" % (lean_str(v), n) for n, v in static) + "]")
L += ["",
      "/-- Literal segments of PolicyID.String()'s format %r (split at %%s); arguments: %s. -/" % (str_fmt, ", ".join(str_args)),
      "def policyStringSegments : List (List Nat) := " + lean_strs(str_fmt.split("%s")),
      "def policyStringArgs : List String := [" + ", ".join('"%s"' % a for a in str_args) + "]",
      "/-- Shape of PolicyID.ID(): condition and Sprintf calls in source order. -/",
      "def policyIDShape : List String := [" + ", ".join('"%s"' % x for x in id_shape) + "]",
      "/-- KindShortName switch: (kind value, short name) in source order. -/",
      "def kindShortTable : List (List Nat × List Nat) := [" + ", ".join("(%s, %s)" % (lean_str(k), lean_str(sv)) for _, k, sv in kind_table) + "]  -- " + ", ".join("%s->%s" % (k, sv) for _, k, sv in kind_table),
      "/-- PolicyGroup.UniqueID(): hasher, the separator written after every item, and the items written, in source order. -/",
      "def groupHasher : String := \"%s\"" % hasher,
      "def groupWriteSeparator : List Nat := " + lean_str(sep),
      "def groupWrites : List String := [" + ", ".join('"%s"' % w.replace('"', "'") for w in writes) + "]",
      "def directionInbound : List Nat := %s  -- %r" % (lean_str(dirs["PolicyDirectionInbound"]), dirs["PolicyDirectionInbound"]),
      "def directionOutbound : List Nat := %s  -- %r" % (lean_str(dirs["PolicyDirectionOutbound"]), dirs["PolicyDirectionOutbound"]),
      "/-- ProfileID.ID() body. -/",
      "def profileIDExpr : String := \"%s\"" % prof]
L += ["", "end CalicoVerif.C37.Gen", ""]
open(out, "w").write("\n".join(L))
