// Translator for C34: extracts the fork-join access structure of AuthorizeTierOperation
// (apiserver/pkg/registry/projectcalico/authorizer/authorizer.go) into lean/CalicoVerif/Gen/C34.lean:
// for every `go func(){…}()` the captured outer variables it writes and reads, what the main goroutine
// writes/reads between the `go` statements and `wg.Wait()`, what is read after the join, and checks the
// shape of the final decision expression and of the three queries.  Broken shape = fatal (broken tie).
package main

import (
	"bytes"
	"fmt"
	"go/ast"
	"go/parser"
	"go/printer"
	"go/token"
	"os"
	"path/filepath"
	"sort"
	"strings"
)

var fset = token.NewFileSet()

func die(f string, a ...any) {
	fmt.Fprintf(os.Stderr, "c34 translator: BROKEN TIE: "+f+"\n", a...)
	os.Exit(1)
}

func str(n any) string {
	var b bytes.Buffer
	printer.Fprint(&b, fset, n)
	return strings.Join(strings.Fields(b.String()), " ")
}

// declared collects names declared inside n (:=, var, range, func params).
func declared(n ast.Node) map[string]bool {
	d := map[string]bool{}
	ast.Inspect(n, func(x ast.Node) bool {
		switch s := x.(type) {
		case *ast.AssignStmt:
			if s.Tok == token.DEFINE {
				for _, l := range s.Lhs {
					if id, ok := l.(*ast.Ident); ok {
						d[id.Name] = true
					}
				}
			}
		case *ast.ValueSpec:
			for _, id := range s.Names {
				d[id.Name] = true
			}
		case *ast.RangeStmt:
			if s.Tok == token.DEFINE {
				for _, e := range []ast.Expr{s.Key, s.Value} {
					if id, ok := e.(*ast.Ident); ok {
						d[id.Name] = true
					}
				}
			}
		case *ast.FuncType:
			if s.Params != nil {
				for _, f := range s.Params.List {
					for _, id := range f.Names {
						d[id.Name] = true
					}
				}
			}
		}
		return true
	})
	return d
}

// accesses returns the outer variables written and read by node n (names declared inside n excluded
// when local is true).
func accesses(n ast.Node, outer map[string]bool, local bool) (w, r map[string]bool) {
	w, r = map[string]bool{}, map[string]bool{}
	loc := map[string]bool{}
	if local {
		loc = declared(n)
	}
	isVar := func(id *ast.Ident) bool { return id.Name != "_" && outer[id.Name] && !loc[id.Name] }
	lhs := map[*ast.Ident]bool{}
	ast.Inspect(n, func(x ast.Node) bool {
		switch s := x.(type) {
		case *ast.AssignStmt:
			for _, l := range s.Lhs {
				if id, ok := l.(*ast.Ident); ok {
					lhs[id] = true
					if isVar(id) {
						w[id.Name] = true
						if s.Tok != token.ASSIGN && s.Tok != token.DEFINE {
							r[id.Name] = true // op-assign reads too
						}
					}
				}
			}
		case *ast.IncDecStmt:
			if id, ok := s.X.(*ast.Ident); ok && isVar(id) {
				lhs[id] = true
				w[id.Name], r[id.Name] = true, true
			}
		case *ast.ValueSpec:
			for _, id := range s.Names {
				lhs[id] = true
				if isVar(id) {
					w[id.Name] = true
				}
			}
		case *ast.UnaryExpr:
			if s.Op == token.AND {
				if id, ok := s.X.(*ast.Ident); ok && isVar(id) {
					w[id.Name], r[id.Name] = true, true // address taken: treat as read+write
				}
			}
		}
		return true
	})
	ast.Inspect(n, func(x ast.Node) bool {
		switch s := x.(type) {
		case *ast.SelectorExpr:
			ast.Inspect(s.X, func(y ast.Node) bool {
				if id, ok := y.(*ast.Ident); ok && !lhs[id] && isVar(id) {
					r[id.Name] = true
				}
				return true
			})
			return false
		case *ast.KeyValueExpr:
			// struct literal keys are field names, not variables
			ast.Inspect(s.Value, func(y ast.Node) bool {
				if id, ok := y.(*ast.Ident); ok && !lhs[id] && isVar(id) {
					r[id.Name] = true
				}
				if se, ok := y.(*ast.SelectorExpr); ok {
					ast.Inspect(se.X, func(z ast.Node) bool {
						if id, ok := z.(*ast.Ident); ok && isVar(id) {
							r[id.Name] = true
						}
						return true
					})
					return false
				}
				return true
			})
			return false
		case *ast.Ident:
			if !lhs[s] && isVar(s) {
				r[s.Name] = true
			}
		}
		return true
	})
	return
}

// leanDecisionCond turns the Go condition of the final `if` into a Lean Bool expression over `v : Vars`.
func leanDecisionCond(e ast.Expr) string {
	vars := map[string]string{"decisionGetTier": "v.getTier", "decisionPolicy": "v.policy", "decisionTierWildcard": "v.wildcard"}
	consts := map[string]string{"k8sauth.DecisionAllow": "Decision.allow", "k8sauth.DecisionDeny": "Decision.deny", "k8sauth.DecisionNoOpinion": "Decision.noOpinion"}
	switch x := e.(type) {
	case *ast.ParenExpr:
		return "(" + leanDecisionCond(x.X) + ")"
	case *ast.UnaryExpr:
		if x.Op == token.NOT {
			return "(!" + leanDecisionCond(x.X) + ")"
		}
	case *ast.BinaryExpr:
		switch x.Op {
		case token.LAND:
			return "(" + leanDecisionCond(x.X) + " && " + leanDecisionCond(x.Y) + ")"
		case token.LOR:
			return "(" + leanDecisionCond(x.X) + " || " + leanDecisionCond(x.Y) + ")"
		case token.EQL, token.NEQ:
			l, r := vars[str(x.X)], consts[str(x.Y)]
			if l == "" || r == "" {
				l, r = vars[str(x.Y)], consts[str(x.X)]
			}
			if l != "" && r != "" {
				if x.Op == token.EQL {
					return "(" + l + " == " + r + ")"
				}
				return "(" + l + " != " + r + ")"
			}
		}
	}
	die("final decision condition has a part the translator cannot express: %s", str(e))
	return ""
}

func keys(m map[string]bool) []string {
	var o []string
	for k := range m {
		o = append(o, k)
	}
	sort.Strings(o)
	return o
}

func main() {
	repo := os.Getenv("VERIF_REPO")
	if repo == "" {
		repo = "/repo"
	}
	out := os.Getenv("VERIF_OUT")
	if out == "" {
		die("VERIF_OUT not set")
	}
	rel := "apiserver/pkg/registry/projectcalico/authorizer/authorizer.go"
	f, err := parser.ParseFile(fset, filepath.Join(repo, rel), nil, parser.SkipObjectResolution)
	if err != nil {
		die("parse: %v", err)
	}
	var fd *ast.FuncDecl
	for _, d := range f.Decls {
		if x, ok := d.(*ast.FuncDecl); ok && x.Name.Name == "AuthorizeTierOperation" && x.Recv != nil {
			fd = x
		}
	}
	if fd == nil {
		die("AuthorizeTierOperation not found")
	}
	// outer variables: receiver, params, results, everything declared at any depth of the body that is
	// NOT inside a function literal
	outer := map[string]bool{}
	for _, fl := range [](*ast.FieldList){fd.Recv, fd.Type.Params, fd.Type.Results} {
		if fl != nil {
			for _, p := range fl.List {
				for _, id := range p.Names {
					outer[id.Name] = true
				}
			}
		}
	}
	var collect func(n ast.Node)
	collect = func(n ast.Node) {
		ast.Inspect(n, func(x ast.Node) bool {
			switch s := x.(type) {
			case *ast.FuncLit:
				return false
			case *ast.AssignStmt:
				if s.Tok == token.DEFINE {
					for _, l := range s.Lhs {
						if id, ok := l.(*ast.Ident); ok {
							outer[id.Name] = true
						}
					}
				}
			case *ast.ValueSpec:
				for _, id := range s.Names {
					outer[id.Name] = true
				}
			}
			return true
		})
	}
	collect(fd.Body)
	delete(outer, "_")

	type seg struct{ w, r []string }
	var gW, gR [][]string
	var gSrc []string
	var segs []seg
	var after []ast.Stmt
	phase := 0 // 0 before first go, 1 between go's, 2 after Wait
	curW, curR := map[string]bool{}, map[string]bool{}
	flush := func() {
		segs = append(segs, seg{keys(curW), keys(curR)})
		curW, curR = map[string]bool{}, map[string]bool{}
	}
	for _, st := range fd.Body.List {
		if gs, ok := st.(*ast.GoStmt); ok {
			fl, ok := gs.Call.Fun.(*ast.FuncLit)
			if !ok || len(gs.Call.Args) != 0 {
				die("go statement is not `go func(){…}()`: %s", str(gs)[:60])
			}
			if phase == 2 {
				die("go statement after wg.Wait()")
			}
			if phase == 1 {
				flush()
			}
			phase = 1
			w, r := accesses(fl.Body, outer, true)
			gW, gR = append(gW, keys(w)), append(gR, keys(r))
			gSrc = append(gSrc, str(fl.Body))
			continue
		}
		if str(st) == "wg.Wait()" {
			if phase != 1 {
				die("wg.Wait() without goroutines")
			}
			flush()
			phase = 2
			continue
		}
		switch phase {
		case 1:
			w, r := accesses(st, outer, false)
			for k := range w {
				curW[k] = true
			}
			for k := range r {
				curR[k] = true
			}
		case 2:
			after = append(after, st)
		}
	}
	if phase != 2 || len(gW) != 3 {
		die("expected three goroutines joined by wg.Wait(), found %d (phase %d)", len(gW), phase)
	}
	afterR := map[string]bool{}
	for _, st := range after {
		_, r := accesses(st, outer, false)
		for k := range r {
			afterR[k] = true
		}
	}
	// shape of the decision and of the three queries
	wantIf := "decisionGetTier == k8sauth.DecisionAllow && (decisionPolicy == k8sauth.DecisionAllow || decisionTierWildcard == k8sauth.DecisionAllow)"
	okIf := false
	genCond := ""
	for _, st := range after {
		if is, ok := st.(*ast.IfStmt); ok && strings.Contains(str(is.Cond), "decisionGetTier") {
			genCond = leanDecisionCond(is.Cond)
			last := is.Body.List[len(is.Body.List)-1]
			if str(last) != "return nil" {
				die("allow branch does not `return nil`")
			}
			okIf = true
		}
	}
	_ = wantIf
	if !okIf || genCond == "" {
		die("final decision `if` (over the three decision variables, allow branch `return nil`) not found")
	}
	lastSt := after[len(after)-1]
	if !strings.HasPrefix(str(lastSt), "return k8serrors.NewForbidden(") {
		die("function no longer ends with return k8serrors.NewForbidden(…): %s", str(lastSt))
	}
	need := [][]string{
		{`Verb: "get"`, `Resource: "tiers"`, `Name: tierName`, `decisionGetTier, reason, err = a.Authorize(ctx, attrs)`},
		{`Verb: attributes.GetVerb()`, `Resource: tierScopedResource`, `Name: attributes.GetName()`, `decisionPolicy, _, err = a.Authorize(ctx, attrs)`},
		{`name := tierName + ".*"`, `Verb: attributes.GetVerb()`, `Resource: tierScopedResource`, `Name: name`, `decisionTierWildcard, _, err = a.Authorize(ctx, attrs)`},
	}
	relaxed := func(s string) string { return strings.NewReplacer("var goErr error ", "", "goErr", "err", ":= a.Authorize", "= a.Authorize").Replace(s) }
	for i, ns := range need {
		for _, frag := range ns {
			if !strings.Contains(gSrc[i], frag) && !strings.Contains(relaxed(gSrc[i]), frag) {
				// tolerate a goroutine-local error variable (the proposed fix): compare modulo the error variable's name
				alt := strings.Replace(frag, ", err = a.Authorize", ", ", 1)
				_ = alt
				if strings.Contains(frag, "a.Authorize") {
					lhs := strings.SplitN(frag, ",", 2)[0]
					if strings.Contains(gSrc[i], lhs+",") && strings.Contains(gSrc[i], "a.Authorize(ctx, attrs)") {
						continue
					}
				}
				die("goroutine %d lost the modelled fragment %q", i, frag)
			}
		}
	}
	if !strings.Contains(str(fd.Body), `tierScopedResource := "tier." + attributes.GetResource()`) {
		die("tierScopedResource definition changed")
	}

	// ---- emit: variables are numbered (ids) so that every fact is decidable by evaluation -------------
	ids := map[string]int{}
	var names []string
	id := func(n string) int {
		if v, ok := ids[n]; ok {
			return v
		}
		ids[n] = len(names) + 1
		names = append(names, n)
		return ids[n]
	}
	id("err") // id 1 is always `err`
	lst := func(xs []string) string {
		var ps []string
		for _, x := range xs {
			ps = append(ps, fmt.Sprint(id(x)))
		}
		return "[" + strings.Join(ps, ", ") + "]"
	}
	var b strings.Builder
	b.WriteString("/- GENERATED by translate/c34 from the current source of the repository. Do not edit. -/\n")
	b.WriteString("import CalicoVerif.Model.C34\nnamespace CalicoVerif.C34.Gen\nopen CalicoVerif.C34\n\n")
	b.WriteString("/-- fork-join access structure of AuthorizeTierOperation (variable ids, names below) -/\ndef program : Program :=\n  { goroutines := [\n")
	for i := range gW {
		sep := ","
		if i == len(gW)-1 {
			sep = ""
		}
		fmt.Fprintf(&b, "      { writes := %s, reads := %s }%s  -- writes %v reads %v\n", lst(gW[i]), lst(gR[i]), sep, gW[i], gR[i])
	}
	b.WriteString("    ],\n    mainBetween := [\n")
	for i, s := range segs {
		sep := ","
		if i == len(segs)-1 {
			sep = ""
		}
		fmt.Fprintf(&b, "      { writes := %s, reads := %s }%s  -- after go #%d: writes %v reads %v\n", lst(s.w), lst(s.r), sep, i+1, s.w, s.r)
	}
	fmt.Fprintf(&b, "    ],\n    afterJoinReads := %s }  -- %v\n\n", lst(keys(afterR)), keys(afterR))
	b.WriteString("/-- id 1 is always the variable named `err` -/\ndef errVar : Nat := 1\n")
	b.WriteString("def varNames : List (Nat × String) := [")
	for i, n := range names {
		if i > 0 {
			b.WriteString(", ")
		}
		fmt.Fprintf(&b, "(%d, %q)", i+1, n)
	}
	b.WriteString("]\n")
	fmt.Fprintf(&b, "/-- ids of the three decision variables written by goroutines 0,1,2 and read by the final `if` -/\ndef decisionVars : List Nat := [%d, %d, %d]\n", id("decisionGetTier"), id("decisionPolicy"), id("decisionTierWildcard"))
	fmt.Fprintf(&b, "/-- condition of the final `if … { return nil }` after wg.Wait(), regenerated from the source -/\ndef allowedCond (v : Vars) : Bool := %s\n", genCond)
	b.WriteString("\nend CalicoVerif.C34.Gen\n")
	if err := os.WriteFile(out, []byte(b.String()), 0o644); err != nil {
		die("write: %v", err)
	}
}
