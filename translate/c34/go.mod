module verif/translate/c34

go 1.23
