// Translator for C28: regenerates lean/CalicoVerif/Gen/C28.lean (decision tables of both halves of the
// cluster-route ownership decision) from the CURRENT source of the repository (env VERIF_REPO).
// A fact that can no longer be found / a modelled function whose body changed is a fatal error (broken tie).
package main

import (
	"bytes"
	"fmt"
	"go/ast"
	"go/parser"
	"go/printer"
	"go/token"
	"os"
	"path/filepath"
	"reflect"
	"regexp"
	"strconv"
	"strings"
)

var fset = token.NewFileSet()

func die(f string, a ...any) {
	fmt.Fprintf(os.Stderr, "c28 translator: BROKEN TIE: "+f+"\n", a...)
	os.Exit(1)
}

func parse(repo, rel string) *ast.File {
	f, err := parser.ParseFile(fset, filepath.Join(repo, rel), nil, parser.SkipObjectResolution)
	if err != nil {
		die("cannot parse %s: %v", rel, err)
	}
	return f
}

func str(n any) string {
	var b bytes.Buffer
	printer.Fprint(&b, fset, n)
	return strings.Join(strings.Fields(b.String()), " ")
}

func funcDecl(f *ast.File, name string) *ast.FuncDecl {
	for _, d := range f.Decls {
		if fd, ok := d.(*ast.FuncDecl); ok && fd.Name.Name == name {
			return fd
		}
	}
	die("function %s not found", name)
	return nil
}

func stringConsts(f *ast.File) map[string]string {
	out := map[string]string{}
	ast.Inspect(f, func(n ast.Node) bool {
		vs, ok := n.(*ast.ValueSpec)
		if !ok {
			return true
		}
		for i, nm := range vs.Names {
			if i < len(vs.Values) {
				if bl, ok := vs.Values[i].(*ast.BasicLit); ok && bl.Kind == token.STRING {
					s, _ := strconv.Unquote(bl.Value)
					out[nm.Name] = s
				}
			}
		}
		return true
	})
	return out
}

func leanStr(s string) string { // byte list with the text as a comment
	parts := []string{}
	for _, c := range []byte(s) {
		parts = append(parts, strconv.Itoa(int(c)))
	}
	return "[" + strings.Join(parts, ", ") + "]"
}

func leanBool(s string) string {
	if s != "true" && s != "false" {
		die("not a boolean literal: %s", s)
	}
	return s
}

var policyLit = regexp.MustCompile(`^clusterRoutePolicy\{ipip: (true|false), noEncap: (true|false)\}$`)

func main() {
	repo := os.Getenv("VERIF_REPO")
	if repo == "" {
		repo = "/repo"
	}
	out := os.Getenv("VERIF_OUT")
	if out == "" {
		die("VERIF_OUT not set")
	}
	v3c := stringConsts(parse(repo, "api/pkg/apis/projectcalico/v3/constants.go"))
	resolve := func(e ast.Expr) string {
		s := str(e)
		if !strings.HasPrefix(s, "v3.") {
			die("expected a v3.<Const>, got %s", s)
		}
		v, ok := v3c[s[3:]]
		if !ok {
			die("constant %s not found in api/pkg/apis/projectcalico/v3/constants.go", s)
		}
		return v
	}
	enc := stringConsts(parse(repo, "libcalico-go/lib/backend/encap/ipip.go"))
	if enc["Never"] != "" || enc["Always"] != "always" || enc["CrossSubnet"] != "cross-subnet" {
		die("encap mode constants changed: %v", enc)
	}
	if _, ok := enc["Never"]; !ok {
		die("encap.Never not found")
	}

	// ---- confd side ----------------------------------------------------------
	bf := parse(repo, "confd/pkg/backends/calico/bgp_processor.go")
	pf := funcDecl(bf, "clusterRoutePolicyFromBGPConfig")
	var dflt []string
	type cs struct{ val, ipip, noEncap string }
	var cases []cs
	sawNilCheck, sawDefaultReturn := false, false
	for _, st := range pf.Body.List {
		switch x := st.(type) {
		case *ast.AssignStmt:
			if str(x.Lhs[0]) == "defaultPolicy" {
				m := policyLit.FindStringSubmatch(str(x.Rhs[0]))
				if m == nil {
					die("defaultPolicy is not a clusterRoutePolicy literal: %s", str(x.Rhs[0]))
				}
				dflt = m[1:]
			}
		case *ast.IfStmt:
			if str(x) == "if cfg == nil || cfg.Spec.ProgramClusterRoutes == nil { return defaultPolicy }" {
				sawNilCheck = true
			} else {
				die("unexpected if statement in clusterRoutePolicyFromBGPConfig: %s", str(x))
			}
		case *ast.SwitchStmt:
			if str(x.Tag) != "*cfg.Spec.ProgramClusterRoutes" || x.Init != nil {
				die("switch tag changed: %s", str(x.Tag))
			}
			for _, c := range x.Body.List {
				cc := c.(*ast.CaseClause)
				if cc.List == nil {
					last := cc.Body[len(cc.Body)-1]
					if str(last) != "return defaultPolicy" {
						die("default branch does not return defaultPolicy: %s", str(last))
					}
					sawDefaultReturn = true
					continue
				}
				if len(cc.Body) != 1 {
					die("case body is not a single return: %s", str(cc))
				}
				rs, ok := cc.Body[0].(*ast.ReturnStmt)
				if !ok || len(rs.Results) != 1 {
					die("case body is not a single return: %s", str(cc))
				}
				m := policyLit.FindStringSubmatch(str(rs.Results[0]))
				if m == nil {
					die("case returns something else than a policy literal: %s", str(rs.Results[0]))
				}
				for _, e := range cc.List {
					cases = append(cases, cs{resolve(e), m[1], m[2]})
				}
			}
		default:
			die("unexpected statement in clusterRoutePolicyFromBGPConfig: %s", str(st))
		}
	}
	if dflt == nil || !sawNilCheck || !sawDefaultReturn || len(cases) == 0 {
		die("clusterRoutePolicyFromBGPConfig lost its modelled shape (default literal %v, nil check %v, default branch %v, %d cases)", dflt, sawNilCheck, sawDefaultReturn, len(cases))
	}
	want := map[string]string{
		"programsPool":  "{ if poolUsesVXLAN(ippool) { return false } if poolUsesIPIP(ippool) { return p.ipip } return p.noEncap }",
		"poolUsesIPIP":  "{ return ippool.IPIPMode == encap.Always || ippool.IPIPMode == encap.CrossSubnet }",
		"poolUsesVXLAN": "{ return ippool.VXLANMode == encap.Always || ippool.VXLANMode == encap.CrossSubnet }",
		"processIPPool": `{ cidr := ippool.CIDR.String() if ippool.DisableBGPExport && !forProgrammingKernel { return emitFilterStatementForIPPools(cidr, "", "reject", filterAction, "BGP export is disabled.") } if poolUsesVXLAN(ippool) { if forProgrammingKernel { return emitFilterStatementForIPPools(cidr, "", "reject", filterAction, "VXLAN routes are handled by Felix.") } return emitFilterStatementForIPPools(cidr, "", "accept", filterAction, "") } if policy.programsPool(ippool) { var extraStatement string if forProgrammingKernel && ipVersion == 4 { extraStatement = extraStatementForKernelProgrammingIPIPNoEncap(ippool.IPIPMode, localSubnet) } return emitFilterStatementForIPPools(cidr, extraStatement, "accept", filterAction, "") } if forProgrammingKernel { return emitFilterStatementForIPPools(cidr, "", "reject", filterAction, "Cluster routes are handled by Felix.") } return emitFilterStatementForIPPools(cidr, "", "accept", filterAction, "") }`,
	}
	for fn, w := range want {
		if got := str(funcDecl(bf, fn).Body); got != w {
			die("%s body changed:\n got  %s\n want %s", fn, got, w)
		}
	}

	// ---- Felix side ----------------------------------------------------------
	cf := parse(repo, "felix/config/config_params.go")
	eqSet := func(fn string) []string {
		fd := funcDecl(cf, fn)
		if len(fd.Body.List) != 1 {
			die("%s is not a single return", fn)
		}
		rs, ok := fd.Body.List[0].(*ast.ReturnStmt)
		if !ok || len(rs.Results) != 1 {
			die("%s is not a single return", fn)
		}
		var vals []string
		var walk func(e ast.Expr)
		walk = func(e ast.Expr) {
			be, ok := e.(*ast.BinaryExpr)
			if !ok {
				die("%s: unexpected expression %s", fn, str(e))
			}
			switch be.Op {
			case token.LOR:
				walk(be.X)
				walk(be.Y)
			case token.EQL:
				if str(be.X) != "config.ProgramClusterRoutes" {
					die("%s compares %s", fn, str(be.X))
				}
				vals = append(vals, resolve(be.Y))
			default:
				die("%s: unexpected operator in %s", fn, str(e))
			}
		}
		walk(rs.Results[0])
		return vals
	}
	ipipSet := eqSet("ProgramIPIPClusterRoutes")
	noEncapSet := eqSet("ProgramNoEncapClusterRoutes")
	var oneof []string
	fdflt := ""
	found := false
	ast.Inspect(cf, func(n ast.Node) bool {
		fl, ok := n.(*ast.Field)
		if !ok || fl.Tag == nil || len(fl.Names) != 1 || fl.Names[0].Name != "ProgramClusterRoutes" {
			return true
		}
		tag, _ := strconv.Unquote(fl.Tag.Value)
		cfg := reflect.StructTag(tag).Get("config")
		m := regexp.MustCompile(`^oneof\(([^)]*)\);([^;]*)$`).FindStringSubmatch(cfg)
		if m == nil || str(fl.Type) != "string" {
			die("ProgramClusterRoutes tag changed (flags would change parse-failure/none handling): %q", cfg)
		}
		oneof = strings.Split(m[1], ",")
		fdflt = m[2]
		found = true
		return false
	})
	if !found {
		die("Config.ProgramClusterRoutes field not found")
	}
	ptf := parse(repo, "felix/config/param_types.go")
	for _, d := range ptf.Decls {
		if fd, ok := d.(*ast.FuncDecl); ok && fd.Name.Name == "Parse" && fd.Recv != nil && str(fd.Recv.List[0].Type) == "*OneofListParam" {
			if got := str(fd.Body); got != `{ result, ok := p.lowerCaseOptionsToCanonical[strings.ToLower(raw)] if !ok { err = p.parseFailed(raw, "unknown option") } return }` {
				die("OneofListParam.Parse changed: %s", got)
			}
			found = false
		}
	}
	if found {
		die("OneofListParam.Parse not found")
	}

	// ---- design doc: supported combinations -----------------------------------
	md, err := os.ReadFile(filepath.Join(repo, "design/cluster-route-programming/DESIGN.md"))
	if err != nil {
		die("design doc: %v", err)
	}
	sec := string(md)
	i := strings.Index(sec, "The supported combinations are:")
	if i < 0 {
		die("design doc lost its 'supported combinations' table")
	}
	sec = sec[i:]
	if j := strings.Index(sec, "\n\nAny other pairing"); j > 0 {
		sec = sec[:j]
	}
	var pairs [][2]string
	for _, m := range regexp.MustCompile("(?m)^\\| `(\\w+)`\\s*\\| `(\\w+)`\\s*\\|").FindAllStringSubmatch(sec, -1) {
		pairs = append(pairs, [2]string{m[1], m[2]})
	}
	if len(pairs) == 0 {
		die("no supported pairings found in the design doc")
	}

	// ---- emit -------------------------------------------------------------------
	var b strings.Builder
	b.WriteString("/- GENERATED by translate/c28 from the current source of the repository. Do not edit. -/\n")
	b.WriteString("import CalicoVerif.Model.C28\nnamespace CalicoVerif.C28.Gen\nopen CalicoVerif.C28\n\n")
	b.WriteString("/-- `switch *cfg.Spec.ProgramClusterRoutes` of clusterRoutePolicyFromBGPConfig and its defaultPolicy -/\ndef bgpTable : BgpTable :=\n  { cases := [\n")
	for k, c := range cases {
		sep := ","
		if k == len(cases)-1 {
			sep = ""
		}
		fmt.Fprintf(&b, "      (%s, ⟨%s, %s⟩)%s  -- %q\n", leanStr(c.val), leanBool(c.ipip), leanBool(c.noEncap), sep, c.val)
	}
	fmt.Fprintf(&b, "    ],\n    dflt := ⟨%s, %s⟩ }\n\n", leanBool(dflt[0]), leanBool(dflt[1]))
	lst := func(xs []string) string {
		ps := []string{}
		for _, x := range xs {
			ps = append(ps, leanStr(x))
		}
		return "[" + strings.Join(ps, ", ") + "]"
	}
	fmt.Fprintf(&b, "/-- Config.ProgramClusterRoutes `config:\"oneof(%s);%s\"`, ProgramIPIPClusterRoutes = %v, ProgramNoEncapClusterRoutes = %v -/\n", strings.Join(oneof, ","), fdflt, ipipSet, noEncapSet)
	fmt.Fprintf(&b, "def felixTable : FelixTable :=\n  { oneof := %s,\n    dflt := %s,\n    ipipSet := %s,\n    noEncapSet := %s }\n\n", lst(oneof), leanStr(fdflt), lst(ipipSet), lst(noEncapSet))
	b.WriteString("/-- supported (FelixConfiguration, BGPConfiguration) pairings, design/cluster-route-programming/DESIGN.md -/\ndef supportedPairs : List (Str × Str) := [\n")
	for k, p := range pairs {
		sep := ","
		if k == len(pairs)-1 {
			sep = ""
		}
		fmt.Fprintf(&b, "  (%s, %s)%s  -- %s / %s\n", leanStr(p[0]), leanStr(p[1]), sep, p[0], p[1])
	}
	b.WriteString("]\n\nend CalicoVerif.C28.Gen\n")
	if err := os.WriteFile(out, []byte(b.String()), 0o644); err != nil {
		die("write: %v", err)
	}
}
