// Translator for C28: regenerates lean/CalicoVerif/Gen/C28.lean (decision tables of both halves of the
// cluster-route ownership decision) from the CURRENT source of the repository (env VERIF_REPO).
// A fact that can no longer be found / a modelled function whose body changed is a fatal error (broken tie).
package main

import (
	"bytes"
	"fmt"
	"go/ast"
	"go/parser"
	"go/printer"
	"go/token"
	"os"
	"path/filepath"
	"reflect"
	"regexp"
	"strconv"
	"strings"
)

var fset = token.NewFileSet()

// soft problems: a broken tie (exit 1) reported AFTER Gen has been written, so the model driver still builds and
// the correspondence run / oracles can produce a concrete failing input.
var problems []string

func problem(f string, a ...any) { problems = append(problems, fmt.Sprintf(f, a...)) }

func die(f string, a ...any) {
	fmt.Fprintf(os.Stderr, "c28 translator: BROKEN TIE: "+f+"\n", a...)
	os.Exit(1)
}

func parse(repo, rel string) *ast.File {
	f, err := parser.ParseFile(fset, filepath.Join(repo, rel), nil, parser.SkipObjectResolution)
	if err != nil {
		die("cannot parse %s: %v", rel, err)
	}
	return f
}

func str(n any) string {
	var b bytes.Buffer
	printer.Fprint(&b, fset, n)
	return strings.Join(strings.Fields(b.String()), " ")
}

func funcDecl(f *ast.File, name string) *ast.FuncDecl {
	for _, d := range f.Decls {
		if fd, ok := d.(*ast.FuncDecl); ok && fd.Name.Name == name {
			return fd
		}
	}
	die("function %s not found", name)
	return nil
}

func stringConsts(f *ast.File) map[string]string {
	out := map[string]string{}
	ast.Inspect(f, func(n ast.Node) bool {
		vs, ok := n.(*ast.ValueSpec)
		if !ok {
			return true
		}
		for i, nm := range vs.Names {
			if i < len(vs.Values) {
				if bl, ok := vs.Values[i].(*ast.BasicLit); ok && bl.Kind == token.STRING {
					s, _ := strconv.Unquote(bl.Value)
					out[nm.Name] = s
				}
			}
		}
		return true
	})
	return out
}

func leanStr(s string) string { // byte list with the text as a comment
	parts := []string{}
	for _, c := range []byte(s) {
		parts = append(parts, strconv.Itoa(int(c)))
	}
	return "[" + strings.Join(parts, ", ") + "]"
}

func leanBool(s string) string {
	if s != "true" && s != "false" {
		die("not a boolean literal: %s", s)
	}
	return s
}


// ---- Felix's consumers of the two booleans ------------------------------------------------

var atomMap = map[string]string{
	"m.dpConfig.ProgramIPIPClusterRoutes": "e.progIPIP", "config.ProgramIPIPClusterRoutes": "e.progIPIP", "conf.ProgramIPIPClusterRoutes()": "e.progIPIP",
	"config.ProgramNoEncapClusterRoutes": "e.progNoEncap",
	"config.NoEncapNeeded":               "e.noEncapNeeded", "conf.Encapsulation.NoEncapNeeded": "e.noEncapNeeded",
	"conf.Encapsulation.IPIPEnabled": "e.ipipEnabled", "config.RulesConfig.IPIPEnabled": "e.ipipEnabled",
	"conf.Encapsulation.VXLANEnabled": "e.vxlanEnabled", "config.RulesConfig.VXLANEnabled": "e.vxlanEnabled",
	"conf.Encapsulation.VXLANEnabledV6": "e.vxlanEnabledV6", "conf.BPFEnabled": "e.bpf",
	"conf.WireguardEnabled": "e.wg", "conf.WireguardEnabledV6": "e.wg6",
}

// leanCond turns a Go boolean expression over known atoms into a Lean Bool expression over `e : FelixEnv`.
func leanCond(e ast.Expr) string {
	switch x := e.(type) {
	case *ast.ParenExpr:
		return "(" + leanCond(x.X) + ")"
	case *ast.UnaryExpr:
		if x.Op == token.NOT {
			return "(!" + leanCond(x.X) + ")"
		}
	case *ast.BinaryExpr:
		if x.Op == token.LAND {
			return "(" + leanCond(x.X) + " && " + leanCond(x.Y) + ")"
		}
		if x.Op == token.LOR {
			return "(" + leanCond(x.X) + " || " + leanCond(x.Y) + ")"
		}
	}
	if a, ok := atomMap[str(e)]; ok {
		return a
	}
	return "?unknown<" + str(e) + ">"
}

func known(g, where string) string {
	if strings.Contains(g, "?unknown") {
		die("%s: guard condition mentions something the model does not know: %s", where, g)
	}
	return g
}

// guardsOf returns, for every call whose callee prints as one of `callees` inside fn, the conjunction of
// the enclosing if-conditions (else branches negated) as a Lean expression.
func guardsOf(fn *ast.FuncDecl, callees map[string]bool) []string {
	var out []string
	var walk func(n ast.Node, conds []string)
	walk = func(n ast.Node, conds []string) {
		if n == nil {
			return
		}
		switch x := n.(type) {
		case *ast.IfStmt:
			if x.Init != nil {
				walk(x.Init, conds)
			}
			hasCall := false
			ast.Inspect(x, func(y ast.Node) bool {
				if c, ok := y.(*ast.CallExpr); ok && callees[str(c.Fun)] {
					hasCall = true
				}
				return true
			})
			if !hasCall {
				return
			}
			c := leanCond(x.Cond)
			walk(x.Body, append(append([]string{}, conds...), c))
			if x.Else != nil {
				walk(x.Else, append(append([]string{}, conds...), "(!"+c+")"))
			}
			return
		case *ast.CallExpr:
			if callees[str(x.Fun)] {
				g := "true"
				if len(conds) > 0 {
					g = strings.Join(conds, " && ")
				}
				out = append(out, g)
			}
		case *ast.FuncLit:
			return
		}
		// generic descent
		ast.Inspect(n, func(y ast.Node) bool {
			if y == n || y == nil {
				return true
			}
			walk(y, conds)
			return false
		})
	}
	walk(fn.Body, nil)
	return out
}

func allFuncs(f *ast.File) []*ast.FuncDecl {
	var o []*ast.FuncDecl
	for _, d := range f.Decls {
		if fd, ok := d.(*ast.FuncDecl); ok && fd.Body != nil {
			o = append(o, fd)
		}
	}
	return o
}

func felixConsumers(repo string) string {
	// ipip_mgr.go: every use of the route manager that programs routes is guarded by ProgramIPIPClusterRoutes
	im := parse(repo, "felix/dataplane/linux/ipip_mgr.go")
	callees := map[string]bool{"m.routeMgr.OnUpdate": true, "m.routeMgr.triggerRouteUpdate": true, "m.routeMgr.CompleteDeferredWork": true}
	var ipipRoutes []string
	for _, fd := range allFuncs(im) {
		ipipRoutes = append(ipipRoutes, guardsOf(fd, callees)...)
	}
	if len(ipipRoutes) < 3 {
		die("ipip_mgr.go: expected the three route-manager calls (OnUpdate, triggerRouteUpdate, CompleteDeferredWork), found %d", len(ipipRoutes))
	}
	for _, g := range ipipRoutes {
		if known(g, "ipip_mgr.go") != ipipRoutes[0] {
			die("ipip_mgr.go: route-manager calls are guarded differently: %v", ipipRoutes)
		}
	}
	// int_dataplane.go: which condition starts which manager
	idp := parse(repo, "felix/dataplane/linux/int_dataplane.go")
	first := func(callee string) string {
		for _, fd := range allFuncs(idp) {
			if g := guardsOf(fd, map[string]bool{callee: true}); len(g) > 0 {
				return g[0]
			}
		}
		die("int_dataplane.go: no call of %s", callee)
		return ""
	}
	noEncapMgr, vxlanMgr, ipipMgr := known(first("newNoEncapManager"), "newNoEncapManager"), known(first("newVXLANManager"), "newVXLANManager"), known(first("newIPIPManager"), "newIPIPManager")
	// calc_graph.go: the gate of the L3 route resolver
	cg := parse(repo, "felix/calc/calc_graph.go")
	resolver := ""
	for _, fd := range allFuncs(cg) {
		ast.Inspect(fd, func(n ast.Node) bool {
			if is, ok := n.(*ast.IfStmt); ok && strings.Contains(str(is.Cond), "conf.Encapsulation.NoEncapNeeded") && strings.Contains(str(is.Body), "NewL3RouteResolver") {
				resolver = known(leanCond(is.Cond), "L3 route resolver gate")
			}
			return true
		})
	}
	if resolver == "" {
		die("calc_graph.go: gate of the L3 route resolver not found")
	}
	// shape checks: NoEncapNeeded, pool classification, plumbing
	er := parse(repo, "felix/calc/encapsulation_resolver.go")
	if got := str(funcDecl(er, "NoEncapNeeded").Body); got != "{ if c.config == nil || !c.config.ProgramNoEncapClusterRoutes() { return false } return len(c.noEncapPools) > 0 }" {
		problem("EncapsulationCalculator.NoEncapNeeded changed: %s", got)
	}
	if got := str(funcDecl(er, "updatePool").Type); got != "func(cidr string, ipipEnabled, vxlanEnabled bool)" {
		problem("EncapsulationCalculator.updatePool now takes %s: the model classifies a pool by its two modes only (ownership must not depend on other pool attributes such as `disabled`)", got)
	}
	up := str(funcDecl(er, "updatePool").Body)
	for _, frag := range []string{"if ipipEnabled { c.ipipPools[cidr] = struct{}{} } else { delete(c.ipipPools, cidr) }", "if !ipipEnabled && !vxlanEnabled { c.noEncapPools[cidr] = struct{}{} } else { delete(c.noEncapPools, cidr) }"} {
		if !strings.Contains(up, frag) {
			problem("EncapsulationCalculator.updatePool lost %q", frag)
		}
	}
	for _, fn := range []string{"IPIPEnabled", "VXLANEnabled"} {
		b := str(funcDecl(er, fn).Body)
		if !strings.Contains(b, "return len(c.") {
			problem("EncapsulationCalculator.%s changed: %s", fn, b)
		}
	}
	drv, err := os.ReadFile(filepath.Join(repo, "felix/dataplane/driver.go"))
	if err != nil {
		problem("driver.go: %v", err)
	}
	dn := strings.Join(strings.Fields(string(drv)), " ")
	for _, frag := range []string{"ProgramIPIPClusterRoutes: configParams.ProgramIPIPClusterRoutes(),", "ProgramNoEncapClusterRoutes: configParams.ProgramNoEncapClusterRoutes(),", "NoEncapNeeded: configParams.Encapsulation.NoEncapNeeded,"} {
		if !strings.Contains(dn, frag) {
			problem("driver.go no longer plumbs %q", frag)
		}
	}
	dm, err := os.ReadFile(filepath.Join(repo, "felix/daemon/daemon.go"))
	if err != nil || !strings.Contains(string(dm), "configParams.Encapsulation.NoEncapNeeded = encapCalculator.NoEncapNeeded()") {
		problem("daemon.go no longer sets Encapsulation.NoEncapNeeded from the EncapsulationCalculator")
	}
	var b strings.Builder
	b.WriteString("/-- Guards of Felix's consumers of the two booleans: ipip_mgr.go route-manager calls, and the conditions under\nwhich int_dataplane.go starts the noEncap / VXLAN / IPIP managers; gate of the L3 route resolver (calc_graph.go). -/\n")
	fmt.Fprintf(&b, "def guards : FelixGuards :=\n  { ipipMgr := fun e => %s,\n    ipipRoutes := fun e => %s,\n    noEncapMgr := fun e => %s,\n    vxlanMgr := fun e => %s,\n    resolver := fun e => %s }\n\n", ipipMgr, ipipRoutes[0], noEncapMgr, vxlanMgr, resolver)
	return b.String()
}

var policyLit = regexp.MustCompile(`^clusterRoutePolicy\{ipip: (true|false), noEncap: (true|false)\}$`)

func main() {
	repo := os.Getenv("VERIF_REPO")
	if repo == "" {
		repo = "/repo"
	}
	out := os.Getenv("VERIF_OUT")
	if out == "" {
		die("VERIF_OUT not set")
	}
	v3c := stringConsts(parse(repo, "api/pkg/apis/projectcalico/v3/constants.go"))
	resolve := func(e ast.Expr) string {
		s := str(e)
		if !strings.HasPrefix(s, "v3.") {
			die("expected a v3.<Const>, got %s", s)
		}
		v, ok := v3c[s[3:]]
		if !ok {
			die("constant %s not found in api/pkg/apis/projectcalico/v3/constants.go", s)
		}
		return v
	}
	enc := stringConsts(parse(repo, "libcalico-go/lib/backend/encap/ipip.go"))
	if enc["Never"] != "" || enc["Always"] != "always" || enc["CrossSubnet"] != "cross-subnet" {
		die("encap mode constants changed: %v", enc)
	}
	if _, ok := enc["Never"]; !ok {
		die("encap.Never not found")
	}

	// ---- confd side ----------------------------------------------------------
	bf := parse(repo, "confd/pkg/backends/calico/bgp_processor.go")
	pf := funcDecl(bf, "clusterRoutePolicyFromBGPConfig")
	var dflt []string
	type cs struct{ val, ipip, noEncap string }
	var cases []cs
	sawNilCheck, sawDefaultReturn := false, false
	for _, st := range pf.Body.List {
		switch x := st.(type) {
		case *ast.AssignStmt:
			if str(x.Lhs[0]) == "defaultPolicy" {
				m := policyLit.FindStringSubmatch(str(x.Rhs[0]))
				if m == nil {
					die("defaultPolicy is not a clusterRoutePolicy literal: %s", str(x.Rhs[0]))
				}
				dflt = m[1:]
			}
		case *ast.IfStmt:
			if str(x) == "if cfg == nil || cfg.Spec.ProgramClusterRoutes == nil { return defaultPolicy }" {
				sawNilCheck = true
			} else {
				die("unexpected if statement in clusterRoutePolicyFromBGPConfig: %s", str(x))
			}
		case *ast.SwitchStmt:
			if str(x.Tag) != "*cfg.Spec.ProgramClusterRoutes" || x.Init != nil {
				die("switch tag changed: %s", str(x.Tag))
			}
			for _, c := range x.Body.List {
				cc := c.(*ast.CaseClause)
				if cc.List == nil {
					last := cc.Body[len(cc.Body)-1]
					if str(last) != "return defaultPolicy" {
						die("default branch does not return defaultPolicy: %s", str(last))
					}
					sawDefaultReturn = true
					continue
				}
				if len(cc.Body) != 1 {
					die("case body is not a single return: %s", str(cc))
				}
				rs, ok := cc.Body[0].(*ast.ReturnStmt)
				if !ok || len(rs.Results) != 1 {
					die("case body is not a single return: %s", str(cc))
				}
				m := policyLit.FindStringSubmatch(str(rs.Results[0]))
				if m == nil {
					die("case returns something else than a policy literal: %s", str(rs.Results[0]))
				}
				for _, e := range cc.List {
					cases = append(cases, cs{resolve(e), m[1], m[2]})
				}
			}
		default:
			die("unexpected statement in clusterRoutePolicyFromBGPConfig: %s", str(st))
		}
	}
	if dflt == nil || !sawNilCheck || !sawDefaultReturn || len(cases) == 0 {
		die("clusterRoutePolicyFromBGPConfig lost its modelled shape (default literal %v, nil check %v, default branch %v, %d cases)", dflt, sawNilCheck, sawDefaultReturn, len(cases))
	}
	want := map[string]string{
		"programsPool":  "{ if poolUsesVXLAN(ippool) { return false } if poolUsesIPIP(ippool) { return p.ipip } return p.noEncap }",
		"poolUsesIPIP":  "{ return ippool.IPIPMode == encap.Always || ippool.IPIPMode == encap.CrossSubnet }",
		"poolUsesVXLAN": "{ return ippool.VXLANMode == encap.Always || ippool.VXLANMode == encap.CrossSubnet }",
		"processIPPool": `{ cidr := ippool.CIDR.String() if ippool.DisableBGPExport && !forProgrammingKernel { return emitFilterStatementForIPPools(cidr, "", "reject", filterAction, "BGP export is disabled.") } if poolUsesVXLAN(ippool) { if forProgrammingKernel { return emitFilterStatementForIPPools(cidr, "", "reject", filterAction, "VXLAN routes are handled by Felix.") } return emitFilterStatementForIPPools(cidr, "", "accept", filterAction, "") } if policy.programsPool(ippool) { var extraStatement string if forProgrammingKernel && ipVersion == 4 { extraStatement = extraStatementForKernelProgrammingIPIPNoEncap(ippool.IPIPMode, localSubnet) } return emitFilterStatementForIPPools(cidr, extraStatement, "accept", filterAction, "") } if forProgrammingKernel { return emitFilterStatementForIPPools(cidr, "", "reject", filterAction, "Cluster routes are handled by Felix.") } return emitFilterStatementForIPPools(cidr, "", "accept", filterAction, "") }`,
	}
	for fn, w := range want {
		if got := str(funcDecl(bf, fn).Body); got != w {
			die("%s body changed:\n got  %s\n want %s", fn, got, w)
		}
	}

	// ---- confd side dynamics: the policy is read from the CURRENT cached resource ---------------
	pip := str(funcDecl(bf, "processIPPools").Body)
	for _, frag := range []string{"policy := clusterRoutePolicyFromBGPConfig(pc.globalBGPConfig, logCtx)",
		"if ipVersion == 6 || ipVersion == 4 && localSubnetErr == nil { statement = c.processIPPool(&ippool, policy, true, filterActionForKernel, localSubnet, ipVersion)"} {
		if !strings.Contains(pip, frag) {
			die("processIPPools lost the modelled fragment %q", frag)
		}
	}
	clf := parse(repo, "confd/pkg/backends/calico/client.go")
	ubc := funcDecl(clf, "updateBGPConfigCache")
	okCache := false
	if len(ubc.Body.List) > 0 {
		if is, ok := ubc.Body.List[0].(*ast.IfStmt); ok && str(is.Cond) == "resName == globalConfigName" {
			for _, st := range is.Body.List { // must be an UNCONDITIONAL statement of the branch
				if str(st) == "c.globalBGPConfig = v3res" {
					okCache = true
				}
			}
		}
	}
	if !okCache {
		problem("updateBGPConfigCache no longer caches the event's resource unconditionally (c.globalBGPConfig = v3res, nil on delete): the model takes the setting from the CURRENT resource")
	}
	if !strings.Contains(str(funcDecl(clf, "onUpdates").Body), "v3res, _ := u.Value.(*apiv3.BGPConfiguration) c.updateBGPConfigCache(v3key.Name, v3res,") {
		problem("onUpdates no longer hands every BGPConfiguration event (nil value on delete) to updateBGPConfigCache")
	}
	if got := str(funcDecl(clf, "getBGPConfig").Body); !strings.HasSuffix(got, "return c.globalBGPConfig }") {
		die("getBGPConfig changed: %s", got)
	}
	for _, tf := range []string{"node/filesystem/etc/calico/confd/templates/bird_ipam.cfg.template", "node/filesystem/etc/calico/confd/templates/bird6_ipam.cfg.template"} {
		tb, err := os.ReadFile(filepath.Join(repo, tf))
		if err != nil {
			die("template %s: %v", tf, err)
		}
		t := string(tb)
		i := strings.Index(t, "filter calico_kernel_programming {")
		j := strings.Index(t, "{{- range $line := $config.KernelFilterForIPPools }}")
		if i < 0 || j < i || !regexp.MustCompile(`(?s)^\{\{- range \$line := \$config\.KernelFilterForIPPools \}\}\s*\{\{ \$line \}\}\s*\{\{- end\}\}\s*accept;`).MatchString(t[j:]) {
			die("%s: calico_kernel_programming no longer ends with the pool statements followed by a catch-all accept", tf)
		}
	}

	// ---- Felix side ----------------------------------------------------------
	cf := parse(repo, "felix/config/config_params.go")
	eqSet := func(fn string) []string {
		fd := funcDecl(cf, fn)
		if len(fd.Body.List) != 1 {
			die("%s is not a single return", fn)
		}
		rs, ok := fd.Body.List[0].(*ast.ReturnStmt)
		if !ok || len(rs.Results) != 1 {
			die("%s is not a single return", fn)
		}
		var vals []string
		var walk func(e ast.Expr)
		walk = func(e ast.Expr) {
			be, ok := e.(*ast.BinaryExpr)
			if !ok {
				die("%s: unexpected expression %s", fn, str(e))
			}
			switch be.Op {
			case token.LOR:
				walk(be.X)
				walk(be.Y)
			case token.EQL:
				if str(be.X) != "config.ProgramClusterRoutes" {
					die("%s compares %s", fn, str(be.X))
				}
				vals = append(vals, resolve(be.Y))
			default:
				die("%s: unexpected operator in %s", fn, str(e))
			}
		}
		walk(rs.Results[0])
		return vals
	}
	ipipSet := eqSet("ProgramIPIPClusterRoutes")
	noEncapSet := eqSet("ProgramNoEncapClusterRoutes")
	var oneof []string
	fdflt := ""
	found := false
	ast.Inspect(cf, func(n ast.Node) bool {
		fl, ok := n.(*ast.Field)
		if !ok || fl.Tag == nil || len(fl.Names) != 1 || fl.Names[0].Name != "ProgramClusterRoutes" {
			return true
		}
		tag, _ := strconv.Unquote(fl.Tag.Value)
		cfg := reflect.StructTag(tag).Get("config")
		m := regexp.MustCompile(`^oneof\(([^)]*)\);([^;]*)$`).FindStringSubmatch(cfg)
		if m == nil || str(fl.Type) != "string" {
			die("ProgramClusterRoutes tag changed (flags would change parse-failure/none handling): %q", cfg)
		}
		oneof = strings.Split(m[1], ",")
		fdflt = m[2]
		found = true
		return false
	})
	if !found {
		die("Config.ProgramClusterRoutes field not found")
	}
	ptf := parse(repo, "felix/config/param_types.go")
	for _, d := range ptf.Decls {
		if fd, ok := d.(*ast.FuncDecl); ok && fd.Name.Name == "Parse" && fd.Recv != nil && str(fd.Recv.List[0].Type) == "*OneofListParam" {
			if got := str(fd.Body); got != `{ result, ok := p.lowerCaseOptionsToCanonical[strings.ToLower(raw)] if !ok { err = p.parseFailed(raw, "unknown option") } return }` {
				die("OneofListParam.Parse changed: %s", got)
			}
			found = false
		}
	}
	if found {
		die("OneofListParam.Parse not found")
	}

	// ---- design doc: supported combinations -----------------------------------
	md, err := os.ReadFile(filepath.Join(repo, "design/cluster-route-programming/DESIGN.md"))
	if err != nil {
		die("design doc: %v", err)
	}
	sec := string(md)
	i := strings.Index(sec, "The supported combinations are:")
	if i < 0 {
		die("design doc lost its 'supported combinations' table")
	}
	sec = sec[i:]
	if j := strings.Index(sec, "\n\nAny other pairing"); j > 0 {
		sec = sec[:j]
	}
	var pairs [][2]string
	for _, m := range regexp.MustCompile("(?m)^\\| `(\\w+)`\\s*\\| `(\\w+)`\\s*\\|").FindAllStringSubmatch(sec, -1) {
		pairs = append(pairs, [2]string{m[1], m[2]})
	}
	if len(pairs) == 0 {
		die("no supported pairings found in the design doc")
	}

	// ---- emit -------------------------------------------------------------------
	var b strings.Builder
	b.WriteString("/- GENERATED by translate/c28 from the current source of the repository. Do not edit. -/\n")
	b.WriteString("import CalicoVerif.Model.C28\nnamespace CalicoVerif.C28.Gen\nopen CalicoVerif.C28\n\n")
	b.WriteString("/-- `switch *cfg.Spec.ProgramClusterRoutes` of clusterRoutePolicyFromBGPConfig and its defaultPolicy -/\ndef bgpTable : BgpTable :=\n  { cases := [\n")
	for k, c := range cases {
		sep := ","
		if k == len(cases)-1 {
			sep = ""
		}
		fmt.Fprintf(&b, "      (%s, ⟨%s, %s⟩)%s  -- %q\n", leanStr(c.val), leanBool(c.ipip), leanBool(c.noEncap), sep, c.val)
	}
	fmt.Fprintf(&b, "    ],\n    dflt := ⟨%s, %s⟩ }\n\n", leanBool(dflt[0]), leanBool(dflt[1]))
	lst := func(xs []string) string {
		ps := []string{}
		for _, x := range xs {
			ps = append(ps, leanStr(x))
		}
		return "[" + strings.Join(ps, ", ") + "]"
	}
	fmt.Fprintf(&b, "/-- Config.ProgramClusterRoutes `config:\"oneof(%s);%s\"`, ProgramIPIPClusterRoutes = %v, ProgramNoEncapClusterRoutes = %v -/\n", strings.Join(oneof, ","), fdflt, ipipSet, noEncapSet)
	fmt.Fprintf(&b, "def felixTable : FelixTable :=\n  { oneof := %s,\n    dflt := %s,\n    ipipSet := %s,\n    noEncapSet := %s }\n\n", lst(oneof), leanStr(fdflt), lst(ipipSet), lst(noEncapSet))
	b.WriteString("/-- supported (FelixConfiguration, BGPConfiguration) pairings, design/cluster-route-programming/DESIGN.md -/\ndef supportedPairs : List (Str × Str) := [\n")
	for k, p := range pairs {
		sep := ","
		if k == len(pairs)-1 {
			sep = ""
		}
		fmt.Fprintf(&b, "  (%s, %s)%s  -- %s / %s\n", leanStr(p[0]), leanStr(p[1]), sep, p[0], p[1])
	}
	b.WriteString("]\n\n")
	b.WriteString(felixConsumers(repo))
	b.WriteString("end CalicoVerif.C28.Gen\n")
	if err := os.WriteFile(out, []byte(b.String()), 0o644); err != nil {
		die("write: %v", err)
	}
	if len(problems) > 0 {
		for _, p := range problems {
			fmt.Fprintf(os.Stderr, "c28 translator: BROKEN TIE: %s\n", p)
		}
		os.Exit(1)
	}
}
