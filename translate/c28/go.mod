module verif/translate/c28

go 1.23
