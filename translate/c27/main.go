// C27 translator: regenerates lean/CalicoVerif/Gen/C27.lean from the CURRENT source of
// $VERIF_REPO/felix/config/config_params.go (go/ast, stdlib only):
//
//   - every `config:"kind(params);default;flags"` struct tag of `type Config struct` becomes one
//     `Meta` row (flags interpreted exactly as loadParams does: strings.Contains on the flags part);
//   - the `Source` constant block, `SourcesInDescendingOrder` and the `case` list of
//     `Source.Local()` are re-extracted, emitted as data, and the generated file proves (by `decide`,
//     a finite table) that they equal the model's `Src.prio`, `descending`, `Src.isLocal`.
//
// Run by bin/check with cwd=/verif, env VERIF_REPO, VERIF_OUT.
package main

import (
	"fmt"
	"go/ast"
	"go/parser"
	"go/token"
	"os"
	"path/filepath"
	"reflect"
	"regexp"
	"strconv"
	"strings"
)

// same expression as metaRegexp in config_params.go (the translator re-reads it from the source
// below and refuses to run if it changed).
const metaRe = "^([^;(]+)(?:\\(([^)]*)\\))?;([^;]*)(?:;([^;]*))?$"

func die(f string, a ...any) {
	fmt.Fprintf(os.Stderr, "c27 translator: "+f+"\n", a...)
	os.Exit(1)
}

func leanStr(s string) string {
	var b strings.Builder
	b.WriteByte('"')
	for _, r := range s {
		switch {
		case r == '"' || r == '\\':
			b.WriteByte('\\')
			b.WriteRune(r)
		case r < 0x20 || r > 0x7e:
			fmt.Fprintf(&b, "\\u{%x}", r)
		default:
			b.WriteRune(r)
		}
	}
	b.WriteByte('"')
	return b.String()
}

var srcName = map[string]string{
	"DatastoreGlobal": ".global", "DatastorePerSelector": ".selector", "DatastorePerHost": ".host",
	"ConfigFile": ".file", "EnvironmentVariable": ".env", "InternalOverride": ".override",
}

func main() {
	repo := os.Getenv("VERIF_REPO")
	if repo == "" {
		repo = "/repo"
	}
	out := os.Getenv("VERIF_OUT")
	if out == "" {
		die("VERIF_OUT not set")
	}
	path := filepath.Join(repo, "felix/config/config_params.go")
	fset := token.NewFileSet()
	f, err := parser.ParseFile(fset, path, nil, 0)
	if err != nil {
		die("parse %s: %v", path, err)
	}
	re := regexp.MustCompile(metaRe)

	type row struct {
		name, kind, kindParams, def, flags string
	}
	var rows []row
	var consts []string // Source constants in iota order
	var desc []string   // SourcesInDescendingOrder
	var locals []string // sources for which Source.Local() returns true
	var localOf func(name string) bool
	sawMetaRe := false

	for _, d := range f.Decls {
		switch d := d.(type) {
		case *ast.GenDecl:
			for _, sp := range d.Specs {
				switch sp := sp.(type) {
				case *ast.TypeSpec:
					st, ok := sp.Type.(*ast.StructType)
					if sp.Name.Name != "Config" || !ok {
						continue
					}
					for _, fld := range st.Fields.List {
						if fld.Tag == nil {
							continue
						}
						tagLit, err := strconv.Unquote(fld.Tag.Value)
						if err != nil {
							die("bad tag literal %s", fld.Tag.Value)
						}
						tag := reflect.StructTag(tagLit).Get("config")
						if tag == "" {
							continue
						}
						cap := re.FindStringSubmatch(tag)
						if cap == nil {
							die("tag %q does not match metaRegexp", tag)
						}
						if len(fld.Names) == 0 {
							die("embedded field with config tag")
						}
						for _, n := range fld.Names {
							rows = append(rows, row{n.Name, cap[1], cap[2], cap[3], cap[4]})
						}
					}
				case *ast.ValueSpec:
					// const block of type Source
					if d.Tok == token.CONST {
						if id, ok := sp.Type.(*ast.Ident); ok && id.Name == "Source" {
							// first spec of the iota block; collect the whole block
							for _, sp2 := range d.Specs {
								vs := sp2.(*ast.ValueSpec)
								for _, n := range vs.Names {
									consts = append(consts, n.Name)
								}
							}
						}
					}
					if d.Tok == token.VAR {
						for i, n := range sp.Names {
							if n.Name == "SourcesInDescendingOrder" && i < len(sp.Values) {
								cl, ok := sp.Values[i].(*ast.CompositeLit)
								if !ok {
									die("SourcesInDescendingOrder is not a composite literal")
								}
								for _, e := range cl.Elts {
									desc = append(desc, e.(*ast.Ident).Name)
								}
							}
							if n.Name == "metaRegexp" && i < len(sp.Values) {
								// regexp.MustCompile(`a` + `b` + `c`)
								call, ok := sp.Values[i].(*ast.CallExpr)
								if !ok || len(call.Args) != 1 {
									die("metaRegexp has unexpected shape")
								}
								var lit func(e ast.Expr) string
								lit = func(e ast.Expr) string {
									switch e := e.(type) {
									case *ast.BasicLit:
										s, err := strconv.Unquote(e.Value)
										if err != nil {
											die("metaRegexp literal: %v", err)
										}
										return s
									case *ast.BinaryExpr:
										return lit(e.X) + lit(e.Y)
									case *ast.ParenExpr:
										return lit(e.X)
									}
									die("metaRegexp has unexpected shape")
									return ""
								}
								if got := lit(call.Args[0]); got != metaRe {
									die("metaRegexp changed: %q (translator knows %q)", got, metaRe)
								}
								sawMetaRe = true
							}
						}
					}
				}
			}
		case *ast.FuncDecl:
			if d.Name.Name != "Local" || d.Recv == nil || len(d.Recv.List) != 1 {
				continue
			}
			if id, ok := d.Recv.List[0].Type.(*ast.Ident); !ok || id.Name != "Source" {
				continue
			}
			// expect: switch source { case A, B, ...: return X; [case ...: return Y;] default: return Z }
			// (allow-list or deny-list): evaluate it for every Source constant.
			if len(d.Body.List) != 1 {
				die("Source.Local has unexpected shape")
			}
			sw, ok := d.Body.List[0].(*ast.SwitchStmt)
			if !ok {
				die("Source.Local has unexpected shape")
			}
			if tag, ok := sw.Tag.(*ast.Ident); !ok || len(d.Recv.List[0].Names) != 1 || tag.Name != d.Recv.List[0].Names[0].Name {
				die("Source.Local does not switch on its receiver")
			}
			caseVal := map[string]bool{}
			defVal, haveDef := false, false
			for _, c := range sw.Body.List {
				cc := c.(*ast.CaseClause)
				if len(cc.Body) != 1 {
					die("Source.Local case has unexpected shape")
				}
				ret, ok := cc.Body[0].(*ast.ReturnStmt)
				if !ok || len(ret.Results) != 1 {
					die("Source.Local case has unexpected shape")
				}
				val, ok := ret.Results[0].(*ast.Ident)
				if !ok || (val.Name != "true" && val.Name != "false") {
					die("Source.Local case has unexpected shape")
				}
				if cc.List == nil { // default
					defVal, haveDef = val.Name == "true", true
					continue
				}
				for _, e := range cc.List {
					id, ok := e.(*ast.Ident)
					if !ok {
						die("Source.Local case label is not a constant name")
					}
					if _, dup := caseVal[id.Name]; !dup {
						caseVal[id.Name] = val.Name == "true"
					}
				}
			}
			if !haveDef {
				// falls out of the switch: the function must end with a return we do not model
				die("Source.Local has no default case")
			}
			localOf = func(name string) bool {
				if v, ok := caseVal[name]; ok {
					return v
				}
				return defVal
			}
		}
	}
	if localOf == nil {
		die("Source.Local not found")
	}
	for _, c := range consts {
		if localOf(c) {
			locals = append(locals, c)
		}
	}
	if len(rows) == 0 || len(consts) == 0 || len(desc) == 0 || !sawMetaRe {
		die("did not find everything: rows=%d consts=%d desc=%d locals=%d metaRe=%v", len(rows), len(consts), len(desc), len(locals), sawMetaRe)
	}
	// knownParams is keyed by strings.ToLower(field.Name): refuse colliding names (the later
	// field would silently replace the earlier one in the map).
	seen := map[string]string{}
	for _, r := range rows {
		l := strings.ToLower(r.name)
		if o, ok := seen[l]; ok {
			die("fields %s and %s collide in knownParams", o, r.name)
		}
		seen[l] = r.name
	}

	var b strings.Builder
	b.WriteString("/- GENERATED by translate/c27 from felix/config/config_params.go — do not edit. -/\n")
	b.WriteString("import CalicoVerif.Model.C27\nnamespace CalicoVerif.C27.Gen\nopen CalicoVerif.C27\n\n")
	b.WriteString("/-- One row per `config:\"…\"` struct tag of `Config`, in declaration order:\n(meta, kind, kind parameters, default string). -/\n")
	b.WriteString("def table : List (Meta × String × String × String) := [\n")
	for i, r := range rows {
		bo := func(sub string) string {
			if strings.Contains(r.flags, sub) {
				return "true"
			}
			return "false"
		}
		sep := ","
		if i == len(rows)-1 {
			sep = ""
		}
		fmt.Fprintf(&b, "  (⟨%s, %s, %s, %s⟩, %s, %s, %s)%s\n", leanStr(r.name), bo("local"), bo("die-on-fail"), bo("non-zero"),
			leanStr(r.kind), leanStr(r.kindParams), leanStr(r.def), sep)
	}
	b.WriteString("]\n\n")
	// Source constants: Default must be first (iota 0), then the six sources.
	if consts[0] != "Default" {
		die("first Source constant is %s, not Default", consts[0])
	}
	b.WriteString("/-- The `Source` constants after `Default`, with their iota values. -/\ndef sourceConsts : List (Src × Nat) := [")
	for i, c := range consts[1:] {
		s, ok := srcName[c]
		if !ok {
			die("unknown Source constant %s", c)
		}
		if i > 0 {
			b.WriteString(", ")
		}
		fmt.Fprintf(&b, "(%s, %d)", s, i+1)
	}
	b.WriteString("]\n\n/-- `SourcesInDescendingOrder`. -/\ndef sourcesInDescendingOrder : List Src := [")
	for i, c := range desc {
		s, ok := srcName[c]
		if !ok {
			die("unknown source %s in SourcesInDescendingOrder", c)
		}
		if i > 0 {
			b.WriteString(", ")
		}
		b.WriteString(s)
	}
	b.WriteString("]\n\n/-- Sources for which `Source.Local()` returns true (without `Default`). -/\ndef localSources : List Src := [")
	first := true
	for _, c := range locals {
		if c == "Default" {
			continue
		}
		s, ok := srcName[c]
		if !ok {
			die("unknown source %s in Source.Local", c)
		}
		if !first {
			b.WriteString(", ")
		}
		first = false
		b.WriteString(s)
	}
	b.WriteString("]\n\n")
	b.WriteString("/-- The model's source order, priorities and locality are those of the current source\n(finite table: six sources). -/\n")
	b.WriteString("theorem sources_match :\n    sourcesInDescendingOrder = descending ∧\n    (∀ s : Src, (s, s.prio) ∈ sourceConsts) ∧\n    (∀ s : Src, s.isLocal = localSources.contains s) := by\n  refine ⟨by decide, ?_, ?_⟩ <;> intro s <;> cases s <;> decide\n\n")
	b.WriteString("end CalicoVerif.C27.Gen\n")
	if err := os.WriteFile(out, []byte(b.String()), 0o644); err != nil {
		die("write: %v", err)
	}
}
